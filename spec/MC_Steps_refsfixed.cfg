SPECIFICATION Spec
VIEW View
CHECK_DEADLOCK FALSE
CONSTANTS
  Threads = {1, 2, 3}
  Ids = {1, 2}
  OpOf <- Ops_Crash
  CHUNK = 2
  MAXCELLS = 4
  FIXED_CREATE = TRUE
  COMMIT_FIRST = FALSE
  MAY_MOVE = FALSE
  CRASHES = 0
INVARIANT TypeOK
INVARIANT DurableInv
INVARIANT HeaderInv
INVARIANT ReaderInv
INVARIANT OneWinner
PROPERTY CommitAtomic
INVARIANT RefsValid
