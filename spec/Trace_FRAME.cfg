SPECIFICATION Spec
CONSTANT Prop = "FRAME"
CHECK_DEADLOCK FALSE
POSTCONDITION Consumed
