SPECIFICATION Spec
CONSTANT Prop = "C18"
CHECK_DEADLOCK FALSE
POSTCONDITION Consumed
