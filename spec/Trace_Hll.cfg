SPECIFICATION Spec
CONSTANTS M = 256 MaxV = 255
CHECK_DEADLOCK FALSE
POSTCONDITION Consumed
