------------------------------- MODULE MC_Hll -------------------------------
(* Model-checking root for Hll.tla: the generative spec plus the constant-level lemmas that  *)
(* are evaluated once per run (at the real type's sizes, independent of the instance):        *)
(*  - every offset 0..23 x every rho x boundary index bytes: the driver's concretisation of   *)
(*    an abstract element <<index, rho>> is an element of exactly that index and rho;         *)
(*  - every register value 0..255 survives the two-hex-digit form.                            *)
EXTENDS Hll
ASSUME ConcretisationLemma
ASSUME ByteRoundTrip
=============================================================================
