SPECIFICATION Spec
CONSTANT Prop = "MISC"
CHECK_DEADLOCK FALSE
POSTCONDITION Consumed
