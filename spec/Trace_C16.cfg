SPECIFICATION Spec
CONSTANT Prop = "C16"
CHECK_DEADLOCK FALSE
POSTCONDITION Consumed
