SPECIFICATION Spec
CONSTANT Prop = "C04"
CHECK_DEADLOCK FALSE
POSTCONDITION Consumed
