---------------------------- MODULE TraceRebuild ----------------------------
(***************************************************************************)
(* Trace validation of interrupted rebuilds against PocketRebuild.tla:      *)
(* every recorded line is one yield point of Store::rebuild, in the order   *)
(* the real call passed them, with the classification of (1) reopening the  *)
(* image taken there as it is and (2) reopening it with the backup pieces   *)
(* put back.  Each line must be the model's next step (the order of the     *)
(* critical sections is part of the model), the model's Reopen prediction   *)
(* must equal (1), and the complete state must be where the model says it   *)
(* is (in place before the map is moved away, in the backup pieces after).  *)
(***************************************************************************)
EXTENDS PocketRebuild, IOUtils

Rec == ndJsonDeserialize(IOEnv.TRACE)
VARIABLE l
tvars == <<l, pc, mm, mi, bm, bi, flags>>

FlagsOf(r) == [ev |-> r.flags.ev, del |-> r.flags.del, naddr |-> r.flags.naddr, extra |-> r.flags.extra]
Point(r) == SubSeq(r.point, 9, Len(r.point))          \* strip "rebuild."

Init == l = 1 /\ pc = "none" /\ mm = "S" /\ mi = "S" /\ bm = "none" /\ bi = "none" /\ flags = [ev |-> 0, del |-> 0, naddr |-> 0, extra |-> 0]

StepOf(p) == CASE p = "closed" -> Closed [] p = "bakremoved" -> BakRemoved [] p = "mapmoved" -> MapMoved
               [] p = "lmdbmoved" -> LmdbMoved [] p = "newopened" -> NewOpened [] p = "copiedone" -> CopiedOne
               [] p = "precommit" -> PreCommit [] p = "copied" -> Copied [] p = "deleted" -> Deleted [] p = "naddr" -> Naddr
               [] p = "extra" -> Extra [] p = "synced" -> Synced [] p = "returned" -> Returned [] OTHER -> FALSE

Bad(r, why, want) == PrintT(ToJson([tag |-> "BAD", l |-> l, h |-> r.h, point |-> r.point, occ |-> r.occ, why |-> why,
                                    predicted |-> want, reopen |-> r.reopen, recover |-> r.recover, flags |-> r.flags]))

Line == /\ l <= Len(Rec)
        /\ LET r == Rec[l] IN
             /\ IF Point(r) = "start"
                THEN pc' = "start" /\ mm' = "S" /\ mi' = "S" /\ bm' = "none" /\ bi' = "none" /\ flags' = FlagsOf(r)
                ELSE StepOf(Point(r))
             /\ LET want == Reopen(mm', mi', flags') IN
                  /\ (IF r.res = "ok" /\ r.reopen # want THEN Bad(r, "ReopenDiffersFromModel", want) ELSE TRUE)
                  /\ (IF r.res # "ok" THEN TRUE
                      ELSE IF pc' \in {"start", "closed", "bakremoved"}
                           THEN (IF r.reopen = "same" THEN TRUE ELSE Bad(r, "NotInPlace", want))
                           ELSE (IF r.recover = "same" \/ pc' \in {"extra", "synced", "returned"} THEN TRUE ELSE Bad(r, "NotRecoverable", want)))
                  /\ (IF r.res = "ok" /\ want # "same"
                      THEN PrintT(ToJson([tag |-> "LOSS", h |-> r.h, point |-> r.point, sees |-> r.reopen])) ELSE TRUE)
             /\ l' = l + 1

Next == Line
Spec == Init /\ [][Next]_tvars
Consumed == IF TLCGet("stats").diameter = Len(Rec) + 1 THEN PrintT(ToJson([tag |-> "REBUILD", n |-> Len(Rec)]))
            ELSE PrintT(ToJson([tag |-> "NOTCONSUMED", reached |-> TLCGet("stats").diameter, n |-> Len(Rec)]))
=============================================================================
