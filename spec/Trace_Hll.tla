------------------------------ MODULE Trace_Hll ------------------------------
(***************************************************************************)
(* Judge of recorded executions of the real Hll8 (C20; DESIGN 4.4).         *)
(*                                                                          *)
(* The trace (IOEnv.TRACE, ndjson) has one line per call of the real code   *)
(* at the real type's size (M = 256, MaxV = 255 in Trace_Hll.cfg):          *)
(*   reset                    a new behaviour: every sketch is Hll8::new()  *)
(*   add     s el off  regs   add_element(el, off) on sketch s, 0<=off<=23  *)
(*   addrej  s el off  regs   the same with off >= 24                       *)
(*   merge   s t       regs   sk[s] += sk[t]                                *)
(*   rt      s         regs   sk[s] = from_hex_string(sk[s].to_hex_string())*)
(*   impbad  s         regs   from_hex_string of a malformed ASCII string   *)
(*   est     s  est cls       estimate_count() of sketch s                  *)
(*   clear   s         regs   sk[s].clear()                                 *)
(*   import  s         regs   a register state imported from hex; res =     *)
(*                            "ok" (adopted; the export was checked to give *)
(*                            the same registers back), "mismatch", "err"   *)
(*   acc     n  est           estimate of n distinct uniformly random       *)
(*                            32-byte elements (harness-generated)          *)
(*   row     n  cls           one row of the single-register extremes:      *)
(*                            n = number of states of the row on which      *)
(*                            import, export/import or estimation failed    *)
(* Lines of calls on a sketch also carry what estimate_count() returned,     *)
(* right after the call, on the live sketch (`est`) and on a FRESH sketch    *)
(* imported from the live sketch's export (`estf`); `eo` = "<live>/<fresh>"  *)
(* outcomes ("ok" | "panic" | "none"), "" when not measured.  The two have   *)
(* the same registers, so they must agree (the estimate is a function of    *)
(* the registers only), and the all-zero state must estimate 0.              *)
(* `regs` is the register vector of sketch s observed (through              *)
(* to_hex_string) after the call, `res` the call's outcome                  *)
(* ("ok" | "err" | "panic").  The element bytes are in the line, and index  *)
(* and rho are computed HERE (IdxOf / RhoOf), so the driver's               *)
(* concretisation is not trusted.  The cursor adopts the observed registers *)
(* as the next pre-state; a failing clause prints one BAD line and the walk *)
(* goes on.                                                                 *)
(***************************************************************************)
EXTENDS HllDefs, Json, IOUtils

Rec == ndJsonDeserialize(IOEnv.TRACE)

NSK == 4                                  \* sketches per behaviour (fixed by the driver)

VARIABLES l, cur
tvars == <<l, cur>>

FromTup(t) == [i \in Idx |-> t[i + 1]]
IsRegs(t)  == Len(t) = M /\ \A k \in 1..M : t[k] \in Val

(* the estimate measured after a call: live sketch vs fresh import of its export *)
EstClauses(r, obs, seen) ==
    IF r.eo = "" THEN {}
    ELSE (IF r.eo \in {"ok/ok", "ok/panic", "ok/none"} THEN {} ELSE {"EstimateReturns"})
    \cup (IF r.eo = "ok/ok" /\ SameRegistersSameEstimate(obs, r.est, obs, r.estf) THEN {}
          ELSE IF r.eo = "panic/panic" THEN {} ELSE {"EstimateOfRegistersOnly"})
    \cup (IF r.eo = "ok/ok" /\ seen /\ ~EmptyEstimatesZero(obs, r.est) THEN {"EmptyEstimateZero"} ELSE {})

Clauses(c, r) ==
    LET pre  == c[r.s]
        obs  == IF IsRegs(r.regs) THEN FromTup(r.regs) ELSE Empty
        seen == IsRegs(r.regs)
    IN
    (IF r.k \in {"add", "addrej", "merge", "rt", "impbad", "clear", "acc"} THEN EstClauses(r, obs, seen) ELSE {}) \cup
    CASE r.k = "add" ->
             (IF r.res = "ok" THEN {} ELSE {"AddOutcome"})
        \cup (IF seen /\ obs = AddR(pre, IdxOf(r.el, r.off), RhoOf(r.el, r.off)) THEN {} ELSE {"AddRegisters"})
      [] r.k = "addrej" ->
             (IF r.res = "err" THEN {} ELSE {"RejectedOffsetOutcome"})
        \cup (IF seen /\ obs = pre THEN {} ELSE {"RejectedOffsetChanged"})
      [] r.k = "merge" ->
             (IF r.res = "ok" THEN {} ELSE {"MergeOutcome"})
        \cup (IF seen /\ obs = MergeR(pre, c[r.t]) THEN {} ELSE {"MergeRegisters"})
      [] r.k = "rt" ->
             (IF r.res = "ok" /\ seen /\ obs = pre THEN {} ELSE {"ExportImportIdentity"})
      [] r.k = "impbad" ->
             (IF r.res = "err" THEN {} ELSE {"MalformedOutcome"})
        \cup (IF seen /\ obs = pre THEN {} ELSE {"MalformedChanged"})
      [] r.k = "clear" ->
             (IF r.res = "ok" /\ seen /\ obs = Empty THEN {} ELSE {"ClearedIsEmpty"})
      [] r.k = "est" ->
             (IF r.res = "ok" THEN {} ELSE {"EstimateReturns"})
        \cup (IF r.res = "ok" /\ r.cls # "fin" THEN {"EstimateFinite"} ELSE {})
        \cup (IF r.res = "ok" /\ pre = Empty /\ r.est # 0 THEN {"EmptyEstimateZero"} ELSE {})
      [] r.k = "import" ->          \* regs = the state that was written out as hex by the driver
             (IF r.res = "ok" \/ (r.res = "err" /\ seen /\ ~AddReachable(obs)) THEN {} ELSE {"ImportOutcome"})
      [] r.k = "acc" ->
             (IF r.res = "ok" THEN {} ELSE {"EstimateReturns"})
        \cup (IF r.res = "ok" /\ ~Envelope(r.n, r.est) THEN {"Envelope"} ELSE {})
      [] r.k = "row" ->
             (IF r.n = 0 THEN {} ELSE {"ExtremesTotal"})
      [] OTHER -> {}

Report(v) == IF v = {} THEN TRUE ELSE PrintT(<<"BAD", l, v>>)

Fresh == [s \in 1..NSK |-> Empty]

Init == l = 1 /\ cur = Fresh

Step == /\ l <= Len(Rec)
        /\ LET r == Rec[l] IN
             /\ (IF r.k = "reset" THEN TRUE ELSE Report(Clauses(cur, r)))
             /\ cur' = (IF r.k = "reset" THEN Fresh
                        ELSE IF r.k \in {"add", "addrej", "merge", "rt", "impbad", "import", "clear"} /\ IsRegs(r.regs)
                                /\ (r.k = "import" => r.res = "ok")
                             THEN [cur EXCEPT ![r.s] = FromTup(r.regs)]
                        ELSE cur)
             /\ l' = l + 1

Next == Step
Spec == Init /\ [][Next]_tvars

Consumed == IF TLCGet("stats").diameter = Len(Rec) + 1 THEN TRUE
            ELSE PrintT(<<"NOTCONSUMED", TLCGet("stats").diameter, Len(Rec)>>)
=============================================================================
