SPECIFICATION Spec
CONSTANT Prop = "C15"
CHECK_DEADLOCK FALSE
POSTCONDITION Consumed
