SPECIFICATION Spec
CHECK_DEADLOCK FALSE
INVARIANT TypeOK
INVARIANT OrderIndependent
INVARIANT CanonIdempotent
INVARIANT TokensWellFormed
INVARIANT AcceptInDomain
