SPECIFICATION Spec
CHECK_DEADLOCK FALSE
INVARIANT TypeOK
INVARIANT OrderIndependent
INVARIANT CanonIdempotent
INVARIANT BufferIndependent
INVARIANT TokensWellFormed
INVARIANT AcceptInDomain
