SPECIFICATION Spec
CHECK_DEADLOCK FALSE
POSTCONDITION Consumed
