------------------------------ MODULE NostrJson ------------------------------
(***************************************************************************)
(* Document model of a nostr EVENT written as JSON text (properties C01,    *)
(* C02).                                                                    *)
(*                                                                          *)
(* The state `doc` is a DESCRIPTION of one JSON text in abstract tokens,    *)
(* not bytes: the order of the seven NIP-01 members, at most one unknown    *)
(* member (position, key shape, value shape), whitespace (class at numbered *)
(* gaps between tokens), the strings as sequences of <<character class,     *)
(* spelling>>, symbolic integer shapes (TLC integers are 32 bit: 2^32, 2^64 *)
(* are names the harness concretises), symbolic section sizes, trailing     *)
(* bytes after the object.  `Tokens(doc)` is the token sequence the text    *)
(* consists of; the closing brace is token number Len(Tokens(doc)), which   *)
(* is what "consumed" must point just past.                                 *)
(*                                                                          *)
(* The module defines                                                       *)
(*   Denotes(doc) - the event the text denotes, found the way a JSON reader *)
(*                  finds it: members are looked up BY NAME in the ordered  *)
(*                  member list, strings are decoded to character classes;  *)
(*   Expect(doc)  - "accept" (canonical documents inside the domain of      *)
(*                  C01), "reject" (an integer member does not fit its      *)
(*                  field), "may" (valid JSON outside the stated domain:    *)
(*                  only `accepted => accessors agree` applies).            *)
(* TLC checks on every generated document that Denotes and Expect do not    *)
(* depend on member order, whitespace, spelling, unknown members or         *)
(* trailing bytes (OrderIndependent), i.e. that the oracle itself has the   *)
(* property it demands from the implementation, and prints one CASE line    *)
(* per document for the conformance harness (harness/src/bin/jsondrv.rs),   *)
(* which renders the bytes, runs Event::from_json and serde_json on them    *)
(* and compares (checks/evjson.py).                                         *)
(*                                                                          *)
(* Generation is a family-structured Init: one initial state per document.  *)
(* NJ_TIER=thorough enumerates every family completely; NJ_TIER=quick keeps *)
(* all 5040 plain member orders and a NJ_SEED-selected lattice of the other *)
(* families.                                                                *)
(***************************************************************************)
EXTENDS Integers, Sequences, FiniteSets, TLC, Json, IOUtils

VARIABLE doc

Thorough == IOEnv.NJ_TIER = "thorough"
Seed     == atoi(IOEnv.NJ_SEED) % 1000

\* sampling: thorough keeps everything, quick keeps the keys k with (k + Seed) % q = 0  (q prime)
M(q)      == IF Thorough THEN 1 ELSE q
Sel(k, m) == m = 1 \/ (k + Seed) % m = 0

---------------------------------------------------------------------------
\* Members and their orders

Known == <<"id", "pubkey", "created_at", "kind", "tags", "content", "sig">>

RECURSIVE Fact(_)
Fact(n) == IF n <= 1 THEN 1 ELSE n * Fact(n - 1)

RECURSIVE PermOf(_, _)
PermOf(i, pool) ==                      \* i-th permutation (Lehmer code) of the sequence pool
    IF Len(pool) = 0 THEN <<>>
    ELSE LET f == Fact(Len(pool) - 1)
             k == (i \div f) + 1
         IN  <<pool[k]>> \o PermOf(i % f, SubSeq(pool, 1, k - 1) \o SubSeq(pool, k + 1, Len(pool)))

NOrders == 5040
OrdList == [i \in 0..(NOrders - 1) |-> PermOf(i, Known)]
PosIn(o, m) == CHOOSE i \in 1..7 : o[i] = m

\* seed-chosen order subsets: every `step`-th order
InEvery(i, step) == (i + Seed) % step = 0
Every(step) == {i \in 0..(NOrders - 1) : InEvery(i, step)}

---------------------------------------------------------------------------
\* Strings: sequences of <<class, spelling>>

\* spelling: lit = the character itself (UTF-8), sh = two-character escape, ul / uU = \uXXXX with
\* lower / upper case hex digits (uU only where the digits contain a letter)
Spell == [ safe   |-> {"lit", "ul", "uU"},      \* U+006A  j
           ltrn   |-> {"lit"},                  \* U+006E  n  (after a backslash: \\n is backslash + n)
           sp     |-> {"lit", "ul"},            \* U+0020
           rbrk   |-> {"lit", "ul", "uU"},      \* U+005D  ]
           rbrc   |-> {"lit", "ul", "uU"},      \* U+007D  }
           quote  |-> {"sh", "ul"},             \* U+0022
           bslash |-> {"sh", "ul", "uU"},       \* U+005C
           slash  |-> {"lit", "sh", "ul", "uU"},\* U+002F
           bs     |-> {"sh", "ul"},             \* U+0008
           ff     |-> {"sh", "ul", "uU"},       \* U+000C
           lf     |-> {"sh", "ul", "uU"},       \* U+000A
           cr     |-> {"sh", "ul", "uU"},       \* U+000D
           tab    |-> {"sh", "ul"},             \* U+0009
           nul    |-> {"ul"},                   \* U+0000
           c0     |-> {"ul", "uU"},             \* U+001F  (other C0 control)
           del    |-> {"lit", "ul", "uU"},      \* U+007F
           b2     |-> {"lit", "ul", "uU"},      \* U+00E9  two-byte
           b3     |-> {"lit", "ul", "uU"},      \* U+20AC  three-byte
           d7ff   |-> {"lit", "ul", "uU"},      \* U+D7FF
           e000   |-> {"lit", "ul", "uU"},      \* U+E000
           ffff   |-> {"lit", "ul", "uU"},      \* U+FFFF
           b4     |-> {"lit"},                  \* U+1F600 four-byte (a \u spelling would need a surrogate pair)
           max    |-> {"lit"} ]                 \* U+10FFFF
CharCls  == DOMAIN Spell
Spellings == {"lit", "sh", "ul", "uU"}
Legal(c, s) == c \in CharCls /\ s \in Spell[c]
Chars == UNION {{<<c, s>> : s \in Spell[c]} : c \in CharCls}

RECURSIVE SeqOfSet(_)
SeqOfSet(S) == IF S = {} THEN <<>> ELSE LET x == CHOOSE y \in S : TRUE IN <<x>> \o SeqOfSet(S \ {x})
CharList == SeqOfSet(Chars)
NC == Len(CharList)
\* middle characters of the length-3 sample
MidList == << <<"safe", "lit">>, <<"quote", "sh">>, <<"bslash", "sh">>, <<"bslash", "ul">>, <<"lf", "sh">>,
              <<"b2", "lit">>, <<"b3", "uU">>, <<"b4", "lit">> >>

CanonSp(c)  == IF "lit" \in Spell[c] THEN "lit" ELSE IF "sh" \in Spell[c] THEN "sh" ELSE "ul"
CanonStr(s) == [i \in 1..Len(s) |-> <<s[i][1], CanonSp(s[i][1])>>]
StrDen(s)   == [i \in 1..Len(s) |-> s[i][1]]                   \* what a string denotes: its characters
StrOK(s)    == \A i \in 1..Len(s) : Legal(s[i][1], s[i][2])

Ch(c, s) == <<c, s>>
OneOrNone(a) == IF a = 0 THEN <<>> ELSE <<CharList[a]>>

---------------------------------------------------------------------------
\* Integer members, as symbolic shapes with their status in C01's domain

KindStatus == [ k0 |-> "accept", k1 |-> "accept", k65535 |-> "accept",
                k65536 |-> "reject", k99999 |-> "reject", k2p32 |-> "reject", k2p32p1 |-> "reject",
                k2p32p65535 |-> "reject", k10p20 |-> "reject",
                kfrac |-> "may", kexp |-> "may", kneg |-> "may" ]
TsStatus   == [ t0 |-> "accept", t1 |-> "accept", t2p32 |-> "accept", t2p53p1 |-> "accept", t2p63 |-> "accept",
                t10p19 |-> "accept", t2p64m1 |-> "accept",
                t2p64 |-> "reject", t2p64p1 |-> "reject", t10p20 |-> "reject", t2p128 |-> "reject",
                tfrac |-> "may", texp |-> "may", tneg |-> "may" ]
KindShapes == DOMAIN KindStatus
TsShapes   == DOMAIN TsStatus
KindList   == SeqOfSet(KindShapes)
TsList     == SeqOfSet(TsShapes)

\* symbolic sizes of the tags section / the content ("small" = as written in doc.tags / doc.content)
TSizeStatus == [ small |-> "accept", s65534 |-> "accept", s65535 |-> "accept", n16382 |-> "accept", s65536 |-> "may" ]
CSizeStatus == [ small |-> "accept", c65535 |-> "accept", c65536 |-> "accept", c100000 |-> "accept" ]

---------------------------------------------------------------------------
\* Unknown members, whitespace, trailing bytes (names; the harness owns the table of texts)

UnkKeys == << "plain", "empty", "esc_quote", "esc_u", "esc_bslash_end", "brackets", "unicode", "upper_ID",
              "p_i", "p_ids", "p_k", "p_kindx", "p_created_at_", "p_contentx", "p_conten", "p_ta", "p_sigs", "p_pubkeys" >>
UnkVals == << "str", "str_empty", "str_brackets", "str_quote", "str_bslash_end", "str_looks_member", "str_unicode",
              "int0", "int", "int_big", "neg", "negzero", "frac", "frac0", "exp", "exp_signed", "exp_neg",
              "true", "false", "null",
              "arr_empty", "obj_empty", "arr0", "obj0", "arr_nested3", "obj_nested3", "arr_mixed", "arr_strs",
              "obj_strs", "arr_obj_arr", "obj_arr", "arr_ws", "obj_ws", "obj_known_keys" >>
WsVals  == << "str", "int0", "arr_empty", "obj_nested3", "arr_strs", "null" >>
NoUnk   == [pos |-> 8, key |-> "none", val |-> "none"]
WsClass == <<"SP", "TAB", "LF", "CR", "MIX">>
Trails  == <<"none", "sp", "lf", "junk", "brace", "comma", "obj">>
HexCase == {"lower", "upper", "mixed"}

---------------------------------------------------------------------------
\* The base document and the token sequence of a document

J  == <<Ch("safe", "lit")>>
E9 == <<Ch("b2", "lit")>>
BaseContent == <<Ch("safe", "lit"), Ch("quote", "sh"), Ch("sp", "lit"), Ch("b3", "lit")>>
BaseTags    == << <<J, E9>> >>
Base == [fam |-> "F1", order |-> Known, unk |-> NoUnk, ws |-> <<>>, wsall |-> "none", kind |-> "k1", ts |-> "t2p32",
         content |-> BaseContent, tags |-> BaseTags, tsize |-> "small", csize |-> "small", trail |-> "none",
         keyesc |-> "none", hex |-> "lower"]

RECURSIVE JoinC(_)
JoinC(ss) == IF Len(ss) = 0 THEN <<>> ELSE IF Len(ss) = 1 THEN ss[1] ELSE ss[1] \o <<",">> \o JoinC(Tail(ss))

TagToks(t)   == <<"[">> \o JoinC([j \in 1..Len(t) |-> <<"str">>]) \o <<"]">>
TagsToks(ts) == <<"[">> \o JoinC([i \in 1..Len(ts) |-> TagToks(ts[i])]) \o <<"]">>
ValToks(d, m) == CASE m = "tags"    -> IF d.tsize = "small" THEN TagsToks(d.tags) ELSE <<"bigtags">>
                   [] m = "content" -> <<"str">>
                   [] m \in {"kind", "created_at"} -> <<"num">>
                   [] OTHER -> <<"hex">>
\* member names in document order; "?" is the unknown member, placed after unk.pos known members
MemberList(d) == IF d.unk.pos = 8 THEN d.order
                 ELSE SubSeq(d.order, 1, d.unk.pos) \o <<"?">> \o SubSeq(d.order, d.unk.pos + 1, 7)
MemToks(d, m) == IF m = "?" THEN <<"ukey", ":", "uval">> ELSE <<"key", ":">> \o ValToks(d, m)
Tokens(d) == LET ml == MemberList(d) IN <<"{">> \o JoinC([i \in 1..Len(ml) |-> MemToks(d, ml[i])]) \o <<"}">>
NTok(d)   == Len(Tokens(d))
BaseNTok  == NTok(Base)

\* token index of the unknown member's key (0 if none)
UnkTok(d) == IF d.unk.pos = 8 THEN 0 ELSE LET t == Tokens(d) IN CHOOSE i \in 1..Len(t) : t[i] = "ukey"

---------------------------------------------------------------------------
\* What a document denotes, and what must happen to it

MemVal(d, m) == CASE m = "kind" -> d.kind [] m = "created_at" -> d.ts
                  [] m = "content" -> StrDen(d.content)
                  [] m = "tags" -> [i \in 1..Len(d.tags) |-> [j \in 1..Len(d.tags[i]) |-> StrDen(d.tags[i][j])]]
                  [] OTHER -> m              \* id, pubkey, sig: the case's own hex values (harness)
Assoc(d) == LET ml == MemberList(d) IN
            [i \in 1..Len(ml) |-> IF ml[i] = "?" THEN [k |-> "?", v |-> d.unk.val] ELSE [k |-> ml[i], v |-> MemVal(d, ml[i])]]
Lookup(a, name) == a[CHOOSE i \in 1..Len(a) : a[i].k = name].v
Denotes(d) == LET a == Assoc(d) IN
              [kind |-> Lookup(a, "kind"), ts |-> Lookup(a, "created_at"), content |-> Lookup(a, "content"),
               tags |-> Lookup(a, "tags"), tsize |-> d.tsize, csize |-> d.csize]

Expect(d) == IF KindStatus[d.kind] = "reject" \/ TsStatus[d.ts] = "reject" THEN "reject"
             ELSE IF \/ KindStatus[d.kind] = "may" \/ TsStatus[d.ts] = "may"
                     \/ TSizeStatus[d.tsize] = "may" \/ CSizeStatus[d.csize] = "may"
                     \/ d.keyesc # "none" \/ d.hex # "lower" THEN "may"
             ELSE "accept"

\* the same event, written the plainest way
Canon(d) == [d EXCEPT !.order = Known, !.unk = NoUnk, !.ws = <<>>, !.wsall = "none", !.trail = "none",
                      !.content = CanonStr(@),
                      !.tags = [i \in 1..Len(@) |-> [j \in 1..Len(@[i]) |-> CanonStr(@[i][j])]]]

---------------------------------------------------------------------------
\* Invariants of the oracle itself

IsPerm(o) == Len(o) = 7 /\ \A m \in {Known[i] : i \in 1..7} : \E i \in 1..7 : o[i] = m

TypeOK ==
    /\ IsPerm(doc.order)
    /\ doc.unk.pos \in 0..8
    /\ (doc.unk.pos = 8) = (doc.unk.key = "none")
    /\ doc.unk.pos # 8 => /\ \E i \in 1..Len(UnkKeys) : UnkKeys[i] = doc.unk.key
                          /\ \E i \in 1..Len(UnkVals) : UnkVals[i] = doc.unk.val
    /\ \A i \in 1..Len(doc.ws) : doc.ws[i][1] \in 1..NTok(doc) /\ \E c \in 1..5 : WsClass[c] = doc.ws[i][2]
    /\ doc.kind \in KindShapes /\ doc.ts \in TsShapes
    /\ doc.tsize \in DOMAIN TSizeStatus /\ doc.csize \in DOMAIN CSizeStatus
    /\ StrOK(doc.content)
    /\ \A i \in 1..Len(doc.tags) : \A j \in 1..Len(doc.tags[i]) : StrOK(doc.tags[i][j])
    /\ doc.hex \in HexCase
    /\ doc.keyesc \in {"none"} \cup {Known[i] : i \in 1..7}

\* Denotes / Expect do not depend on member order, whitespace, spelling, unknown members, trailing bytes
OrderIndependent ==
    LET dd == Denotes(doc)
        cd == Canon(doc)
        rev == [i \in 1..7 |-> doc.order[8 - i]]                       \* the members in reverse order
        rot == [i \in 1..7 |-> doc.order[(i % 7) + 1]]                 \* and rotated by one
    IN  /\ dd = Denotes(cd)
        /\ Expect(doc) = Expect(cd)
        /\ Denotes([doc EXCEPT !.order = rev]) = dd
        /\ Denotes([doc EXCEPT !.order = rot, !.unk = NoUnk]) = dd

CanonIdempotent == Canon(Canon(doc)) = Canon(doc)

\* the token sequence is an object with 7 or 8 members whose closing brace is the last token
TokensWellFormed ==
    LET t == Tokens(doc) n == Len(t) IN
    /\ t[1] = "{" /\ t[n] = "}"
    /\ Cardinality({i \in 1..n : t[i] = "key"}) = 7
    /\ Cardinality({i \in 1..n : t[i] = "ukey"}) = (IF doc.unk.pos = 8 THEN 0 ELSE 1)
    /\ Cardinality({i \in 1..n : t[i] = ":"}) = Len(MemberList(doc))
    /\ n = NTok(Canon(doc)) + (IF doc.unk.pos = 8 THEN 0 ELSE 4)

\* "accept" is claimed only inside the stated domain
AcceptInDomain == Expect(doc) = "accept" =>
    /\ KindStatus[doc.kind] = "accept" /\ TsStatus[doc.ts] = "accept"
    /\ doc.tsize # "s65536" /\ doc.keyesc = "none" /\ doc.hex = "lower"

Emit == PrintT(<<"CASE", ToJson([d |-> doc, expect |-> Expect(doc), ntok |-> NTok(doc), den |-> Denotes(doc)])>>)

---------------------------------------------------------------------------
\* Families (one initial state per document)

\* F1: every member order, plain and with trailing bytes after the closing brace
F1 == \E i \in 0..(NOrders - 1), t \in 1..Len(Trails) :
        /\ t = 1 \/ Sel(i + 13 * t, M(23))
        /\ doc = [Base EXCEPT !.fam = "F1", !.order = OrdList[i], !.trail = Trails[t]]

\* F2: one unknown member: position x key shape x value shape, over seed-chosen orders
F2Orders == Every(84)
F2 == \E i \in F2Orders, p \in 0..7, k \in 1..Len(UnkKeys), v \in 1..Len(UnkVals) :
        /\ Sel((i \div 84) + 3 * p + 7 * k + 11 * v, M(37))
        /\ doc = [Base EXCEPT !.fam = "F2", !.order = OrdList[i],
                              !.unk = [pos |-> p, key |-> UnkKeys[k], val |-> UnkVals[v]]]

\* F3: whitespace.  a: one gap; b: two gaps; c: every gap at once; d: gaps of other tag shapes;
\* e: gaps around an unknown member
WsTagShapes == << <<>>, << <<>> >>, << <<<<>>>> >>, << <<>>, <<>> >>, << <<J>>, <<>>, <<E9, <<>>, J>> >> >>
F3a == \E i \in Every(42), g \in 1..BaseNTok, c \in 1..5 :
        /\ Sel((i \div 42) + 3 * g + 7 * c, M(11))
        /\ doc = [Base EXCEPT !.fam = "F3a", !.order = OrdList[i], !.ws = << <<g, WsClass[c]>> >>]
F3b == \E i \in Every(210), g1 \in 1..BaseNTok, g2 \in 1..BaseNTok, c \in {1, 5} :
        /\ g1 < g2
        /\ Sel((i \div 210) + 3 * g1 + 5 * g2 + c, M(29))
        /\ doc = [Base EXCEPT !.fam = "F3b", !.order = OrdList[i], !.ws = << <<g1, WsClass[c]>>, <<g2, WsClass[c]>> >>]
F3c == \E i \in 0..(NOrders - 1), c \in 1..5 :
        /\ (c = 1 /\ Sel(i, M(7))) \/ (InEvery(i, 42) /\ Sel((i \div 42) + c, M(3)))
        /\ doc = [Base EXCEPT !.fam = "F3c", !.order = OrdList[i], !.wsall = WsClass[c]]
F3d == \E i \in Every(840), sh \in 1..Len(WsTagShapes), c \in 1..5, g \in 1..64 :
        LET d0 == [Base EXCEPT !.fam = "F3d", !.order = OrdList[i], !.tags = WsTagShapes[sh]] IN
        /\ Sel((i \div 840) + 3 * sh + 5 * c + 7 * g, M(13))
        /\ g <= NTok(d0)
        /\ doc = [d0 EXCEPT !.ws = << <<g, WsClass[c]>> >>]
F3e == \E i \in Every(210), p \in 0..7, v \in 1..Len(WsVals), c \in 1..5, o \in 0..3 :
        LET d0 == [Base EXCEPT !.fam = "F3e", !.order = OrdList[i], !.unk = [pos |-> p, key |-> "plain", val |-> WsVals[v]]] IN
        /\ Sel((i \div 210) + 3 * p + 5 * v + 7 * c + 11 * o, M(31))
        /\ doc = [d0 EXCEPT !.ws = << <<UnkTok(d0) + o, WsClass[c]>> >>]

\* F4: integer boundary shapes
F4 == \E i \in Every(210), k \in 1..Len(KindList), t \in 1..Len(TsList) :
        /\ Sel((i \div 210) + k + t, M(11))
        /\ doc = [Base EXCEPT !.fam = "F4", !.order = OrdList[i], !.kind = KindList[k], !.ts = TsList[t]]

\* F5: strings of length <= 2 (all) and 3 (sample) over class x spelling, in content and in tag strings
StrTags(s) == << <<J, s>>, <<s, E9>> >>
F5 == \E i \in Every(840), w \in {0, 1}, a \in 0..NC, b \in 0..NC :
        /\ a = 0 => b = 0
        /\ Sel((i \div 840) + w + 3 * a + 5 * b, M(13))
        /\ LET s == OneOrNone(a) \o OneOrNone(b) IN
           doc = IF w = 0 THEN [Base EXCEPT !.fam = "F5", !.order = OrdList[i], !.content = s]
                          ELSE [Base EXCEPT !.fam = "F5", !.order = OrdList[i], !.tags = StrTags(s)]
F5c == \E i \in Every(2520), w \in {0, 1}, a \in 1..NC, m \in 1..Len(MidList), b \in 1..NC :
        /\ Sel((i \div 2520) + w + 3 * a + 5 * m + 7 * b, M(61))
        /\ LET s == <<CharList[a], MidList[m], CharList[b]>> IN
           doc = IF w = 0 THEN [Base EXCEPT !.fam = "F5c", !.order = OrdList[i], !.content = s]
                          ELSE [Base EXCEPT !.fam = "F5c", !.order = OrdList[i], !.tags = StrTags(s)]

\* F6: tags shapes: 0..3 tags x 0..3 strings each, four ways of filling the strings
TagShapes == UNION {[1..n -> 0..3] : n \in 0..3}
Fills == <<"empty", "one", "alt", "esc">>
Fill(f, i, j) == CASE f = "empty" -> <<>>
                   [] f = "one" -> J
                   [] f = "alt" -> IF (i + j) % 2 = 0 THEN <<>> ELSE <<Ch("b3", "lit"), Ch("quote", "sh")>>
                   [] OTHER -> <<Ch("bslash", "sh"), Ch("lf", "sh"), Ch("rbrk", "lit")>>
MkTags(sh, f) == [i \in 1..Len(sh) |-> [j \in 1..sh[i] |-> Fill(f, i, j)]]
F6 == \E i \in Every(420), sh \in TagShapes, f \in 1..4 :
        /\ Sel((i \div 420) + f + Len(sh), M(3))
        /\ doc = [Base EXCEPT !.fam = "F6", !.order = OrdList[i], !.tags = MkTags(sh, Fills[f])]

\* F7: section sizes around the binary format's 65 535-byte limit, large content
F7 == \E i \in Every(1260), z \in (DOMAIN TSizeStatus \cup DOMAIN CSizeStatus) \ {"small"} :
        doc = IF z \in DOMAIN TSizeStatus THEN [Base EXCEPT !.fam = "F7", !.order = OrdList[i], !.tsize = z]
                                          ELSE [Base EXCEPT !.fam = "F7", !.order = OrdList[i], !.csize = z]

\* F8: valid JSON outside the stated domain ("may"): a known key spelled with an escape, upper-case hex
F8 == \E i \in Every(210), x \in 1..9 :
        /\ Sel((i \div 210) + x, M(3))
        /\ doc = IF x <= 7 THEN [Base EXCEPT !.fam = "F8", !.order = OrdList[i], !.keyesc = Known[x]]
                 ELSE [Base EXCEPT !.fam = "F8", !.order = OrdList[i], !.hex = IF x = 8 THEN "upper" ELSE "mixed"]

\* F9: everything at once, one document per member order
F9 == \E i \in 0..(NOrders - 1) :
        /\ Sel(i, M(5))
        /\ doc = [Base EXCEPT !.fam = "F9", !.order = OrdList[i],
                    !.unk = [pos |-> i % 8, key |-> UnkKeys[1 + (i % Len(UnkKeys))], val |-> UnkVals[1 + ((i \div 8) % Len(UnkVals))]],
                    !.wsall = WsClass[1 + (i % 5)],
                    !.content = <<CharList[1 + (i % NC)], CharList[1 + ((i \div 7) % NC)]>>,
                    !.tags = << <<J, <<CharList[1 + ((i \div 3) % NC)]>>, <<>> >>, <<>>, <<E9>> >>,
                    !.kind = IF i % 2 = 0 THEN "k65535" ELSE "k0",
                    !.ts = IF i % 3 = 0 THEN "t2p64m1" ELSE "t0",
                    !.trail = Trails[1 + (i % Len(Trails))]]

Init == F1 \/ F2 \/ F3a \/ F3b \/ F3c \/ F3d \/ F3e \/ F4 \/ F5 \/ F5c \/ F6 \/ F7 \/ F8 \/ F9
Next == UNCHANGED doc
Spec == Init /\ [][Next]_doc
=============================================================================
