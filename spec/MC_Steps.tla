------------------------------ MODULE MC_Steps ------------------------------
EXTENDS PocketStoreSteps
(* operation menus (thread -> operation) for the exhaustive configurations *)
Ops_SameTwiceGet == (1 :> [k |-> "store", id |-> 1]) @@ (2 :> [k |-> "store", id |-> 1]) @@ (3 :> [k |-> "get", id |-> 1])
Ops_TwoStoresRm  == (1 :> [k |-> "store", id |-> 1]) @@ (2 :> [k |-> "store", id |-> 2]) @@ (3 :> [k |-> "remove", id |-> 1])
Ops_Crash        == (1 :> [k |-> "store", id |-> 1]) @@ (2 :> [k |-> "store", id |-> 2]) @@ (3 :> [k |-> "get", id |-> 1])
=============================================================================
