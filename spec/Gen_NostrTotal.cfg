SPECIFICATION Spec
INVARIANT TypeOK
INVARIANT Emit
CHECK_DEADLOCK FALSE
