----------------------------- MODULE MC_Rebuild -----------------------------
EXTENDS PocketRebuild
Init == \E f \in Flags, b \in BOOLEAN : RInit(f, b)
Next == RNext
Spec == Init /\ [][Next]_rvars
\* documentation of the named deviation: every (step, contents) at which a restarted process does not see S
Loss == IF Reopen(mm, mi, flags) = "same" THEN TRUE
        ELSE PrintT(ToJson([tag |-> "LOSS", pc |-> pc, flags |-> flags, sees |-> Reopen(mm, mi, flags)]))
=============================================================================
