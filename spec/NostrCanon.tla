----------------------------- MODULE NostrCanon -----------------------------
(***************************************************************************)
(* NIP-01 canonical serialisation over code points, and the accept/reject  *)
(* structure of event verification (property C08).                         *)
(*                                                                         *)
(* Strings are sequences of Unicode scalar values (naturals).  An event is *)
(* a record  [pk, ts, kind, tags, content]  (+ a bookkeeping family `f`):  *)
(*   pk      the public key as 64 hex nibbles (0..15)                      *)
(*   ts      created_at as a decimal NUMERAL (sequence of digits, no       *)
(*           leading zero) - TLC integers are 32 bit, created_at is a u64  *)
(*   kind    0..65535                                                      *)
(*   tags    sequence of sequences of strings                              *)
(*   content string                                                        *)
(* Canon(e) is the text  [0,"<pk hex>",<ts>,<kind>,<tags>,"<content>"]     *)
(* without white space, strings escaped by Esc.  The id of an event is     *)
(* SHA-256(UTF-8(Canon(e))); SHA-256 and BIP-340 are trusted primitives    *)
(* (injective resp. unforgeable), so the spec decides:                     *)
(*   - the canonical text of every enumerated event (CASE lines),          *)
(*   - that an event carrying the id and signature of `orig` is accepted   *)
(*     iff Canon(ev) = Canon(orig), and that this is the case iff NO field *)
(*     was tampered with (AcceptIffUntampered, which contains "every       *)
(*     Tamper step changes the canonical text").  The latter is a theorem  *)
(*     about the DESIGN: it needs Canon to be injective, which TLC checks  *)
(*     by exhibiting a left inverse (DecodeInverts) on every enumerated    *)
(*     and every tampered event, and directly on every Tamper transition;  *)
(*   - that the non-canonical spellings of the same fields (CanonAlt) are  *)
(*     different texts exactly when they touch the event (AltSound), so an *)
(*     id hashed over them is NOT the event's id.                          *)
(*                                                                         *)
(* One initial state per enumerated event; Next = one Tamper step.         *)
(***************************************************************************)
EXTENDS Naturals, Sequences, FiniteSets, TLC, Json

CONSTANTS Alpha,       \* code points: content / tag strings of length <= 2 are enumerated exhaustively over it
          Alpha3,      \* code points for the exhaustive strings of length 3
          TamperEmit,  \* families of events whose Tamper successors are emitted as TCASE lines
          TamperWide   \* TRUE: every enumerated event is tampered with and has its non-canonical spellings
                       \* checked (thorough); FALSE: a representative subset, see Tampered (quick)

VARIABLES ev,          \* the event as it is now (possibly tampered)
          orig,        \* the event that was hashed and signed
          tam,         \* "none" or the name of the tamper step taken
          txt,         \* Canon(ev)   - what verification hashes        (kept in the state so that every
          otxt         \* Canon(orig) - what was hashed when signing      invariant shares one computation)

vars == <<ev, orig, tam, txt, otxt>>

(* --------------------------------- alphabets --------------------------------- *)
Surrogates == 55296..57343
IsScalar(c) == c \in 0..1114111 /\ c \notin Surrogates
Multi      == {128, 159, 233, 2047, 2048, 8232, 8364, 55295, 57344, 65279, 65533, 65535, 65536, 1114111}
AlphaFull  == 0..127 \cup Multi
AlphaQuick == 0..31 \cup {127, 34, 92, 47} \cup {32, 48, 65, 97, 117, 44, 91, 93}
              \cup {233, 8232, 8364, 55295, 57344, 65535, 65536, 1114111}
Alpha3Full == {0, 10, 11, 31, 34, 47, 92, 97, 127, 233, 8364, 65536}
NoAlpha    == {}
EmitNone   == {}
EmitQuick  == {"shape"}
EmitFull   == {"shape", "nested", "num"}

(* --------------------------------- escaping ---------------------------------- *)
Hex(d)  == IF d < 10 THEN 48 + d ELSE 87 + d        \* lower case
HexU(d) == IF d < 10 THEN 48 + d ELSE 55 + d        \* upper case (never canonical)
ShortSet == {8, 9, 10, 12, 13, 34, 92}
ShortOf(c) == CASE c = 8 -> 98 [] c = 9 -> 116 [] c = 10 -> 110 [] c = 12 -> 102 [] c = 13 -> 114
                [] c = 34 -> 34 [] c = 92 -> 92
U00(c, H(_)) == <<92, 117, 48, 48, H(c \div 16), H(c % 16)>>
Hex4(n) == <<Hex(n \div 4096), Hex((n \div 256) % 16), Hex((n \div 16) % 16), Hex(n % 16)>>

\* the seven NIP-01 short escapes, \u00xx (lower case) for the other C0 controls, identity otherwise
\* (in particular DEL 0x7f, '/' and every non-ASCII character are NOT escaped)
Esc(c) == IF c \in ShortSet THEN <<92, ShortOf(c)>>
          ELSE IF c < 32 THEN U00(c, Hex)
          ELSE <<c>>

RECURSIVE Cat(_)
Cat(ss) == IF Len(ss) = 0 THEN <<>> ELSE Head(ss) \o Cat(Tail(ss))
Join(ss, sep) == IF Len(ss) = 0 THEN <<>> ELSE ss[1] \o Cat([i \in 1..(Len(ss) - 1) |-> sep \o ss[i + 1]])
EscStr(s) == Cat([i \in 1..Len(s) |-> Esc(s[i])])

RECURSIVE Dec(_)
Dec(n) == IF n < 10 THEN <<48 + n>> ELSE Dec(n \div 10) \o <<48 + (n % 10)>>
Digits(d) == [i \in 1..Len(d) |-> 48 + d[i]]

(* ------------------------------ canonical form ------------------------------- *)
\* general serialiser: E escapes one code point, sep separates the six top-level members,
\* PkH spells a nibble, tsd is the created_at text, tail follows the closing bracket
CanonG(e, E(_), sep, PkH(_), tsd, tail) ==
    LET S(s)   == <<34>> \o Cat([i \in 1..Len(s) |-> E(s[i])]) \o <<34>>
        TJ(t)  == <<91>> \o Join([j \in 1..Len(t) |-> S(t[j])], <<44>>) \o <<93>>
        TSJ(T) == <<91>> \o Join([i \in 1..Len(T) |-> TJ(T[i])], <<44>>) \o <<93>>
    IN  <<91, 48>> \o sep \o <<34>> \o [i \in 1..64 |-> PkH(e.pk[i])] \o <<34>> \o sep \o tsd \o sep
        \o Dec(e.kind) \o sep \o TSJ(e.tags) \o sep \o S(e.content) \o <<93>> \o tail

Canon(e) == CanonG(e, Esc, <<44>>, Hex, Digits(e.ts), <<>>)

(* -------------------- non-canonical spellings of the same fields -------------- *)
EscStyles    == {"upperhex", "longesc", "slash", "uascii", "rawctl", "unonascii"}
StructStyles == {"space", "newline", "pkupper", "tszero"}
Styles       == EscStyles \cup StructStyles
\* the code points whose spelling a style changes
StyleClass(st, c) ==
    CASE st = "upperhex"  -> c < 32 /\ c \notin ShortSet /\ (c % 16 >= 10 \/ c \div 16 >= 10)
      [] st = "longesc"   -> c \in ShortSet
      [] st = "slash"     -> c = 47
      [] st = "uascii"    -> c >= 32 /\ c < 128 /\ c \notin {34, 92}
      [] st = "rawctl"    -> c < 32
      [] st = "unonascii" -> c >= 128
      [] OTHER            -> FALSE
EscAlt(st, c) ==
    IF ~StyleClass(st, c) THEN Esc(c)
    ELSE CASE st = "upperhex"  -> U00(c, HexU)
           [] st = "longesc"   -> U00(c, Hex)
           [] st = "slash"     -> <<92, 47>>
           [] st = "uascii"    -> U00(c, Hex)
           [] st = "rawctl"    -> <<c>>                         \* the control character itself
           [] st = "unonascii" -> IF c < 65536 THEN <<92, 117>> \o Hex4(c)
                                  ELSE <<92, 117>> \o Hex4(55296 + ((c - 65536) \div 1024))
                                       \o <<92, 117>> \o Hex4(56320 + ((c - 65536) % 1024))
CanonAlt(st, e) ==
    CASE st = "space"   -> CanonG(e, Esc, <<44, 32>>, Hex, Digits(e.ts), <<>>)
      [] st = "newline" -> CanonG(e, Esc, <<44>>, Hex, Digits(e.ts), <<10>>)
      [] st = "pkupper" -> CanonG(e, Esc, <<44>>, HexU, Digits(e.ts), <<>>)
      [] st = "tszero"  -> CanonG(e, Esc, <<44>>, Hex, <<48>> \o Digits(e.ts), <<>>)
      [] OTHER          -> CanonG(e, LAMBDA c : EscAlt(st, c), <<44>>, Hex, Digits(e.ts), <<>>)

Range(s) == {s[i] : i \in 1..Len(s)}
CharsOf(e) == Range(e.content) \cup UNION {UNION {Range(e.tags[i][j]) : j \in 1..Len(e.tags[i])} : i \in 1..Len(e.tags)}
Touches(st, e) == \/ st \in StructStyles /\ (st = "pkupper" => \E i \in 1..64 : e.pk[i] >= 10)
                  \/ \E c \in CharsOf(e) : StyleClass(st, c)

(* --------------------------- a left inverse of Canon -------------------------- *)
HexVal(c) == IF c <= 57 THEN c - 48 ELSE c - 87
UnShort(c) == CASE c = 98 -> 8 [] c = 116 -> 9 [] c = 110 -> 10 [] c = 102 -> 12 [] c = 114 -> 13 [] OTHER -> c

RECURSIVE DigitsEnd(_, _), RdStr(_, _, _), RdTag(_, _, _), RdTags(_, _, _), Val(_)
DigitsEnd(t, p) == IF p <= Len(t) /\ t[p] \in 48..57 THEN DigitsEnd(t, p + 1) ELSE p
Val(d) == IF Len(d) = 0 THEN 0 ELSE 10 * Val(SubSeq(d, 1, Len(d) - 1)) + (d[Len(d)] - 48)
\* p is just after the opening quote; result <<string, position after the closing quote>>
RdStr(t, p, acc) ==
    IF t[p] = 34 THEN <<acc, p + 1>>
    ELSE IF t[p] = 92
         THEN IF t[p + 1] = 117
              THEN RdStr(t, p + 6, Append(acc, 16 * HexVal(t[p + 4]) + HexVal(t[p + 5])))
              ELSE RdStr(t, p + 2, Append(acc, UnShort(t[p + 1])))
         ELSE RdStr(t, p + 1, Append(acc, t[p]))
\* p is just after the '[' of a tag
RdTag(t, p, acc) ==
    IF t[p] = 93 THEN <<acc, p + 1>>
    ELSE IF t[p] = 44 THEN RdTag(t, p + 1, acc)
    ELSE LET r == RdStr(t, p + 1, <<>>) IN RdTag(t, r[2], Append(acc, r[1]))
\* p is just after the '[' of the tags array
RdTags(t, p, acc) ==
    IF t[p] = 93 THEN <<acc, p + 1>>
    ELSE IF t[p] = 44 THEN RdTags(t, p + 1, acc)
    ELSE LET r == RdTag(t, p + 1, <<>>) IN RdTags(t, r[2], Append(acc, r[1]))

Decode(t) ==
    LET q1 == DigitsEnd(t, 71)
        q2 == DigitsEnd(t, q1 + 1)
        T  == RdTags(t, q2 + 2, <<>>)
        c  == RdStr(t, T[2] + 2, <<>>)
    IN  [ok      |-> /\ SubSeq(t, 1, 4) = <<91, 48, 44, 34>> /\ SubSeq(t, 69, 70) = <<34, 44>>
                     /\ t[q1] = 44 /\ t[q2] = 44 /\ t[q2 + 1] = 91
                     /\ t[T[2]] = 44 /\ t[T[2] + 1] = 34 /\ c[2] = Len(t) /\ t[Len(t)] = 93,
         pk      |-> [i \in 1..64 |-> HexVal(t[4 + i])],
         ts      |-> [i \in 1..(q1 - 71) |-> t[70 + i] - 48],
         kind    |-> Val(SubSeq(t, q1 + 1, q2 - 1)),
         tags    |-> T[1],
         content |-> c[1]]

SameFields(a, b) == /\ a.pk = b.pk /\ a.ts = b.ts /\ a.kind = b.kind /\ a.tags = b.tags /\ a.content = b.content

(* ------------------------------- enumerated events ---------------------------- *)
TA == {0, 10, 11, 34, 47, 92, 97, 127, 233, 65536}      \* one code point of every escape class (also used by Tamper)

PK1 == <<4,15,3,5,5,11,13,12,11,7,12,12,0,10,15,7,2,8,14,15,3,12,12,14,11,9,6,1,5,13,9,0,6,8,4,11,11,5,11,2,12,10,5,15,8,5,9,10,11,0,15,0,11,7,0,4,0,7,5,8,7,1,10,10>>
PK2 == <<4,6,6,13,7,15,12,10,14,5,6,3,14,5,12,11,0,9,10,0,13,1,8,7,0,11,11,5,8,0,3,4,4,8,0,4,6,1,7,8,7,9,10,1,4,9,4,9,12,15,2,2,2,8,5,15,1,11,10,14,3,15,2,7>>
PkIdx(p) == IF p = PK2 THEN 2 ELSE 1

U64Max == <<1,8,4,4,6,7,4,4,0,7,3,7,0,9,5,5,1,6,1,5>>
Times == { <<0>>, <<1>>, <<9>>, <<1,0>>,
           <<1,7,0,0,0,0,0,0,0,0>>,                          \* 1700000000
           <<2,1,4,7,4,8,3,6,4,7>>, <<2,1,4,7,4,8,3,6,4,8>>,  \* 2^31 - 1, 2^31
           <<4,2,9,4,9,6,7,2,9,5>>, <<4,2,9,4,9,6,7,2,9,6>>,  \* 2^32 - 1, 2^32
           <<9,0,0,7,1,9,9,2,5,4,7,4,0,9,9,3>>,              \* 2^53 + 1
           <<9,2,2,3,3,7,2,0,3,6,8,5,4,7,7,5,8,0,7>>,        \* 2^63 - 1
           <<9,2,2,3,3,7,2,0,3,6,8,5,4,7,7,5,8,0,8>>,        \* 2^63
           <<1,8,4,4,6,7,4,4,0,7,3,7,0,9,5,5,1,6,1,4>>,      \* 2^64 - 2
           U64Max }
Kinds == {0, 1, 9, 10, 255, 256, 9999, 10000, 32767, 32768, 65535}

Strs == {<<>>} \cup {<<a>> : a \in Alpha} \cup {<<a, b>> : a \in Alpha, b \in Alpha}
        \cup {<<a, b, c>> : a \in Alpha3, b \in Alpha3, c \in Alpha3}

\* strings that look like JSON structure or like escapes, next to what they could be confused with
NL == << <<91,34,97,34,93>>,          \* ["a"]
         <<91,91,34,97,34,93,93>>,    \* [["a"]]
         <<97,34,44,34,98>>,          \* a","b
         <<34,93,44,91,34>>,          \* "],["
         <<97,34,93,93,44,34,98>>,    \* a"]],"b
         <<34,44>>,                   \* ",
         <<92,34>>, <<34>>,           \* \" and "
         <<92,92>>, <<92>>,           \* \\ and \
         <<92,117,48,48,48,98>>, <<11>>,      \* the six characters \u000b, and U+000B itself
         <<92,117,48,48,48,66>>,              \* the six characters \u000B
         <<92,110>>, <<10>>,          \* the two characters \n, and a line feed
         <<92,47>>, <<47>>,           \* \/ and /
         <<93>>, <<91>>, <<44>>, <<32>>,
         <<233>>, <<65536>> >>
NLSet == Range(NL)

Base(f) == [f |-> f, pk |-> PK1, ts |-> <<1>>, kind |-> 1, tags |-> <<>>, content |-> <<>>]

FContent == {[Base("content") EXCEPT !.content = s] : s \in Strs}
FTagStr  == {[Base("tagstr") EXCEPT !.tags = << <<s>> >>] : s \in Strs}

\* tag structures: 0..3 tags of 0..3 strings each, four ways of filling the strings
Fill(k, i, j) == CASE k = 1 -> <<97>>
                   [] k = 2 -> <<96 + 3 * (i - 1) + j>>
                   [] k = 3 -> <<>>
                   [] k = 4 -> NL[((3 * (i - 1) + j - 1) % Len(NL)) + 1]
Lens   == UNION {[1..n -> 0..3] : n \in 0..3}
Shapes == {[i \in 1..Len(ms) |-> [j \in 1..ms[i] |-> Fill(k, i, j)]] : ms \in Lens, k \in 1..4}
FShape == {[Base("shape") EXCEPT !.tags = T, !.content = <<99>>] : T \in Shapes}

NestedTags == {<<>>} \cup {<< <<s>> >> : s \in NLSet} \cup {<< << <<97>>, s >> >> : s \in NLSet}
              \cup {<< << <<97>>, <<98>> >>, <<s, s>> >> : s \in NLSet}
FNested == {[Base("nested") EXCEPT !.tags = T, !.content = c] : T \in NestedTags, c \in NLSet \cup {<<>>}}

FNum == {[Base("num") EXCEPT !.pk = p, !.ts = t, !.kind = k, !.tags = << << <<116, 97>>, <<120>> >> >>, !.content = <<104, 105>>]
            : p \in {PK1, PK2}, t \in Times, k \in Kinds}

\* long strings of one character of every escape class (the escaper's buffers grow; 70 and 7 code points)
Rep(n, c) == [i \in 1..n |-> c]
FLong == {[Base("long") EXCEPT !.content = Rep(n, c), !.tags = << <<Rep(7, c), Rep(n, c)>> >>] : n \in {7, 70}, c \in TA}

\* a multi-byte character (2, 3, 4 bytes) or an escaped one straddling a power-of-two byte offset of long content
\* (chunked / buffered canonicalisation must not depend on where a character falls)
Bounds == IF TamperWide THEN {256, 1024, 4096} ELSE {4096}
BChars == IF TamperWide THEN {233, 8364, 65536, 10} ELSE {233, 65536}
FBound == {[Base("long") EXCEPT !.content = Rep(b - k, 97) \o <<c>> \o Rep(3, 98)] : b \in Bounds, k \in 1..3, c \in BChars}

\* tag values that have the LENGTH of a hex id / pubkey / signature (64, 128; and the neighbouring lengths) under the keys
\* e, p, a, but contain characters that need escaping: a serializer must not take the length or the key for a promise
Hexlike(n, p, sp) == Rep(p, 97) \o sp \o Rep(n - p - Len(sp), 98)
FHexLike == {[Base("hexlike") EXCEPT !.tags = IF third THEN << << <<k>>, <<120>>, Hexlike(n, p, sp) >> >> ELSE << << <<k>>, Hexlike(n, p, sp) >> >>,
                                     !.content = <<99>>]
               : k \in {101, 112, 97}, n \in {63, 64, 65, 128}, p \in {0, 30, 60}, sp \in {<<34>>, <<92>>, <<10>>, <<34, 44, 34>>},
                 third \in BOOLEAN}

\* tags that other NIPs give a meaning to (NIP-40 expiration, NIP-70 protected "-", NIP-13 nonce): verification is a function of the
\* signed fields alone - it does not interpret tags, and it does not consult the clock
ExpName == <<101, 120, 112, 105, 114, 97, 116, 105, 111, 110>>                         \* expiration
ExpVals == { <<49>>, <<49, 55, 48, 48, 48, 48, 48, 48, 48, 48>>, <<57, 57, 57, 57, 57, 57, 57, 57, 57, 57, 57>>,   \* 1, 1700000000, 99999999999
             <<116, 111, 109, 111, 114, 114, 111, 119>>, <<>>, <<45, 49>> }                                       \* tomorrow, empty, -1
FMeaning == {[Base("meaning") EXCEPT !.tags = T, !.content = <<99>>] :
                T \in {<< <<ExpName, v>> >> : v \in ExpVals} \cup {<< <<<<116>>, <<120>>>>, <<ExpName, v>> >> : v \in ExpVals}
                     \cup {<< <<ExpName>> >>, << <<<<45>>>> >>, << <<<<110, 111, 110, 99, 101>>, <<49>>, <<50, 48>>>> >>}}

Events == FContent \cup FTagStr \cup FShape \cup FNested \cup FNum \cup FLong \cup FBound \cup FHexLike \cup FMeaning

(* ----------------------------------- tampering -------------------------------- *)
RemoveAt(s, i)     == SubSeq(s, 1, i - 1) \o SubSeq(s, i + 1, Len(s))
ReplaceAt(s, i, r) == SubSeq(s, 1, i - 1) \o r \o SubSeq(s, i + 1, Len(s))     \* splice the sequence r in place of s[i]

RECURSIVE NumInc(_), NumDecRaw(_)
NumInc(d) == IF Len(d) = 0 THEN <<1>>
             ELSE IF d[Len(d)] < 9 THEN [d EXCEPT ![Len(d)] = @ + 1]
             ELSE NumInc(SubSeq(d, 1, Len(d) - 1)) \o <<0>>
NumDecRaw(d) == IF d[Len(d)] > 0 THEN [d EXCEPT ![Len(d)] = @ - 1]
                ELSE NumDecRaw(SubSeq(d, 1, Len(d) - 1)) \o <<9>>
NumDec(d) == LET r == NumDecRaw(d) IN IF Len(r) > 1 /\ r[1] = 0 THEN Tail(r) ELSE r
FlipBit(n, b) == IF (n \div b) % 2 = 1 THEN n - b ELSE n + b

\* edits of one string: <<name, string'>>
StrEdits(s) ==
    LET all == {<<"chg", [s EXCEPT ![i] = c]>> : i \in 1..Len(s), c \in TA}
               \cup {<<"append", Append(s, c)>> : c \in TA}
               \cup {<<"prepend", <<c>> \o s>> : c \in TA}
               \cup (IF Len(s) = 0 THEN {} ELSE {<<"truncate", SubSeq(s, 1, Len(s) - 1)>>, <<"dropfirst", Tail(s)>>})
               \cup {<<"escaped_literal", EscStr(s)>>}
    IN  {x \in all : x[2] # s}

Pos(T) == UNION {{<<i, j>> : j \in 1..Len(T[i])} : i \in 1..Len(T)}

\* edits of the tags value: <<name, tags'>>
TagEdits(T) ==
    LET n == Len(T)
        strs == UNION {{<<"tagstr_" \o x[1], [T EXCEPT ![p[1]][p[2]] = x[2]]>> : x \in StrEdits(T[p[1]][p[2]])} : p \in Pos(T)}
        add  == UNION {{<<"tags_addstr", [T EXCEPT ![i] = Append(@, s)]>>, <<"tags_addstr_front", [T EXCEPT ![i] = <<s>> \o @]>>}
                          : i \in 1..n, s \in {<<>>, <<97>>}}
        del  == {<<"tags_delstr", [T EXCEPT ![p[1]] = RemoveAt(@, p[2])]>> : p \in Pos(T)}
        splt == UNION {{<<"tags_split", ReplaceAt(T, i, <<SubSeq(T[i], 1, k), SubSeq(T[i], k + 1, Len(T[i]))>>)>>
                            : k \in 0..Len(T[i])} : i \in 1..n}
        mrg  == {<<"tags_merge", ReplaceAt(RemoveAt(T, i + 1), i, <<T[i] \o T[i + 1]>>)>> : i \in 1..(n - 1)}
        mrgn == {<<"tags_merge_nested", ReplaceAt(RemoveAt(T, i + 1), i, << <<T[i][1] \o <<34,93,44,91,34>> \o T[i + 1][1]>> >>)>>
                    : i \in {x \in 1..(n - 1) : Len(T[x]) = 1 /\ Len(T[x + 1]) = 1}}
        swp  == {<<"tags_swap", [T EXCEPT ![i] = T[i + 1], ![i + 1] = T[i]]>> : i \in 1..(n - 1)}
        adj  == {p \in Pos(T) : p[2] < Len(T[p[1]])}
        mstr == UNION {{<<"tags_mergestr", [T EXCEPT ![p[1]] = ReplaceAt(RemoveAt(@, p[2] + 1), p[2],
                                                   <<T[p[1]][p[2]] \o sep \o T[p[1]][p[2] + 1]>>)]>>
                            : sep \in {<<>>, <<34, 44, 34>>, <<44>>}} : p \in adj}
        sstr == {<<"tags_swapstr", [T EXCEPT ![p[1]][p[2]] = T[p[1]][p[2] + 1], ![p[1]][p[2] + 1] = T[p[1]][p[2]]]>> : p \in adj}
        spst == UNION {{<<"tags_splitstr", [T EXCEPT ![p[1]] = ReplaceAt(@, p[2],
                                                   <<SubSeq(T[p[1]][p[2]], 1, k), SubSeq(T[p[1]][p[2]], k + 1, Len(T[p[1]][p[2]]))>>)]>>
                            : k \in 1..(Len(T[p[1]][p[2]]) - 1)} : p \in Pos(T)}
        addt == {<<"tags_addtag", Append(T, <<>>)>>, <<"tags_addtag_front", << <<>> >> \o T>>,
                 <<"tags_addtag_emptystr", Append(T, << <<>> >>)>>}
        delt == {<<"tags_deltag", RemoveAt(T, i)>> : i \in 1..n}
        all  == strs \cup add \cup del \cup splt \cup mrg \cup mrgn \cup swp \cup mstr \cup sstr \cup spst \cup addt \cup delt
    IN  {x \in all : x[2] # T}

\* all single-field tamperings of e: <<name, event'>>
Tampers(e) ==
    (IF e.ts = U64Max THEN {} ELSE {<<"ts_inc", [e EXCEPT !.ts = NumInc(@)]>>})
    \cup (IF e.ts = <<0>> THEN {} ELSE {<<"ts_dec", [e EXCEPT !.ts = NumDec(@)]>>})
    \cup (IF e.f = "num" THEN {<<"ts_other", [e EXCEPT !.ts = t]>> : t \in Times \ {e.ts}} ELSE {})
    \cup (IF e.kind = 65535 THEN {} ELSE {<<"kind_inc", [e EXCEPT !.kind = @ + 1]>>})
    \cup (IF e.kind = 0 THEN {} ELSE {<<"kind_dec", [e EXCEPT !.kind = @ - 1]>>})
    \cup (IF e.f = "num" THEN {<<"kind_other", [e EXCEPT !.kind = k]>> : k \in Kinds \ {e.kind}} ELSE {})
    \cup (IF e.f = "num" THEN {<<"pubkey_bit", [e EXCEPT !.pk[i] = FlipBit(@, b)]>> : i \in 1..64, b \in {1, 2, 4, 8}} ELSE {})
    \cup {<<"pubkey_other", [e EXCEPT !.pk = IF @ = PK1 THEN PK2 ELSE PK1]>>}
    \cup {<<"content_" \o x[1], [e EXCEPT !.content = x[2]]>> : x \in StrEdits(e.content)}
    \cup {<<x[1], [e EXCEPT !.tags = x[2]]>> : x \in TagEdits(e.tags)}

(* ----------------------------------- behaviour -------------------------------- *)
Init == ev \in Events /\ orig = ev /\ tam = "none" /\ txt = Canon(ev) /\ otxt = txt

StrSize(e) == Len(e.content) + Len(Cat(Cat(e.tags)))      \* code points in all strings of e
\* which enumerated events are tampered with: all of them (thorough), or a subset that keeps every
\* tamper operator and every family represented (quick)
Tampered(e) == \/ TamperWide /\ e.f \notin {"long", "hexlike"}
               \/ e.f = "meaning" /\ Len(e.tags) = 1
               \/ e.f \in {"content", "tagstr"} /\ StrSize(e) <= 1
               \/ e.f = "shape"
               \/ e.f = "nested" /\ (Len(e.content) = 0 \/ Len(e.tags) = 0)
               \/ e.f = "num" /\ (e.kind \in {1, 65535} \/ e.ts \in {<<0>>, U64Max})
               \/ e.f = "long" /\ Len(e.content) <= 7

Tamper == /\ tam = "none"
          /\ Tampered(ev)
          /\ \E m \in Tampers(ev) : ev' = m[2] /\ tam' = m[1] /\ txt' = Canon(m[2])
          /\ UNCHANGED <<orig, otxt>>

Next == Tamper
Spec == Init /\ [][Next]_vars

\* what verification decides for an event that carries the id (= hash of Canon(orig)) and the
\* signature of `orig`: the recomputed hash equals the id iff the texts are equal (SHA-256 injective)
Accept == txt = otxt
Expect == IF Accept THEN "accept" ELSE "reject"

(* ----------------------------------- invariants ------------------------------- *)
IsStr(s)  == \A i \in 1..Len(s) : IsScalar(s[i])
TypeOK == /\ Len(ev.pk) = 64 /\ \A i \in 1..64 : ev.pk[i] \in 0..15
          /\ Len(ev.ts) \in 1..20 /\ \A i \in 1..Len(ev.ts) : ev.ts[i] \in 0..9
          /\ (Len(ev.ts) > 1 => ev.ts[1] # 0)
          /\ ev.kind \in 0..65535
          /\ IsStr(ev.content)
          /\ \A i \in 1..Len(ev.tags) : \A j \in 1..Len(ev.tags[i]) : IsStr(ev.tags[i][j])

TamperIsChange      == tam # "none" => ~SameFields(ev, orig)
AcceptIffUntampered == Accept <=> (tam = "none")

\* Canon has a left inverse: it is injective on ALL events, not only pairwise on the enumerated ones
DecodeInverts == LET d == Decode(txt) IN d.ok /\ SameFields(d, ev)

\* the canonical text is JSON without white space: no raw control character, and every
\* code point of a string is spelt with 1, 2 or 6 characters
CanonIsClean == /\ \A i \in 1..Len(txt) : txt[i] >= 32
                /\ \A x \in CharsOf(ev) : Len(Esc(x)) = (IF x \in ShortSet THEN 2 ELSE IF x < 32 THEN 6 ELSE 1)
                /\ \A x \in CharsOf(ev) : (x = 127 \/ x = 47 \/ x >= 128) => Esc(x) = <<x>>

AltEmit(e) == \/ e.f \in {"content", "tagstr"} /\ Len(e.content) <= 1 /\ (\A p \in Pos(e.tags) : Len(e.tags[p[1]][p[2]]) <= 1)
              \/ e.f = "nested" /\ Len(e.tags) <= 1
              \/ e.f = "num" /\ e.kind = 1

\* a non-canonical spelling is a different text exactly when it touches the event
AltSound == (tam = "none" /\ (TamperWide \/ AltEmit(ev))) => \A st \in Styles : (CanonAlt(st, ev) # txt) <=> Touches(st, ev)

(* ------------------------------------ emission -------------------------------- *)
CaseRec(e) == [f |-> e.f, pk |-> PkIdx(e.pk), ts |-> e.ts, kind |-> e.kind, tags |-> e.tags, content |-> e.content,
               canon |-> txt, expect |-> Expect,
               alts |-> IF AltEmit(e) THEN {[st |-> st, text |-> CanonAlt(st, e)] : st \in {x \in Styles : Touches(x, e)}} ELSE {}]

PkFlip(a, b) == IF a = b \/ b \in {PK1, PK2} THEN <<0, 0>>
                ELSE LET i == CHOOSE x \in 1..64 : a[x] # b[x]
                     IN  <<i, IF a[i] > b[i] THEN a[i] - b[i] ELSE b[i] - a[i]>>
FieldsRec(e, pki, flip) == [pk |-> pki, pkflip |-> flip, ts |-> e.ts, kind |-> e.kind, tags |-> e.tags, content |-> e.content]
TamperRec == [name |-> tam, expect |-> Expect,
              o |-> FieldsRec(orig, PkIdx(orig.pk), <<0, 0>>),
              m |-> FieldsRec(ev, IF ev.pk \in {PK1, PK2} THEN PkIdx(ev.pk) ELSE PkIdx(orig.pk), PkFlip(orig.pk, ev.pk))]

Emit == IF tam = "none" THEN PrintT(<<"CASE", ToJson(CaseRec(ev))>>)
        ELSE IF orig.f \in TamperEmit THEN PrintT(<<"TCASE", ToJson(TamperRec)>>)
        ELSE TRUE
=============================================================================
