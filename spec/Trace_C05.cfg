SPECIFICATION Spec
CONSTANT Prop = "C05"
CHECK_DEADLOCK FALSE
POSTCONDITION Consumed
