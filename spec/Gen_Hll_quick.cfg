SPECIFICATION Spec
VIEW GenView
CHECK_DEADLOCK FALSE
ACTION_CONSTRAINT EdgePrint
CONSTANTS M = 3 MaxV = 2 NS = 2 AllRegs = FALSE
