SPECIFICATION Spec
VIEW View
CHECK_DEADLOCK FALSE
ACTION_CONSTRAINT EdgePrint
CONSTANTS
  Threads = {1, 2, 3}
  Ids = {1, 2}
  OpOf <- Ops_Crash
  CHUNK = 4
  MAXCELLS = 4
  FIXED_CREATE = TRUE
  COMMIT_FIRST = FALSE
  MAY_MOVE = TRUE
  CRASHES = 0
