SPECIFICATION Spec
CHECK_DEADLOCK FALSE
CONSTANT Alpha <- AlphaFull
CONSTANT Alpha3 <- Alpha3Full
CONSTANT TamperEmit <- EmitFull
CONSTANT TamperWide = TRUE
INVARIANT TypeOK
INVARIANT TamperIsChange
INVARIANT AcceptIffUntampered
INVARIANT DecodeInverts
INVARIANT CanonIsClean
INVARIANT AltSound
INVARIANT Emit
