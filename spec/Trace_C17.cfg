SPECIFICATION Spec
CONSTANT Prop = "C17"
CHECK_DEADLOCK FALSE
POSTCONDITION Consumed
