----------------------------- MODULE TraceCrash -----------------------------
(***************************************************************************)
(* Judge of kill-point images (C13, DESIGN 4.7).  One trace line per image  *)
(* of the durable files taken at a yield point inside an interrupted call:  *)
(*   k, a        the interrupted call          point, occ   where it was    *)
(*   opened      result of reopening the image                              *)
(*   r           projection of the reopened image                           *)
(*   pre, post   projections of the REFERENCE run (the same history run to  *)
(*               completion) before and after that call                     *)
(*   cont, cpre, cpost   a continuation run on the reopened image and on    *)
(*               copies of the reference store in the pre / post state      *)
(*   q           probe queries on the reopened image                        *)
(* The clause compares the implementation with its own completed run, so    *)
(* divergences owned by other properties cannot raise a C13 alarm.          *)
(***************************************************************************)
EXTENDS PocketQuery

Rec == ndJsonDeserialize(IOEnv.TRACE)
FiltersFile == IOEnv.FILTERS
F == IF FiltersFile = "" THEN <<>> ELSE JsonDeserialize(FiltersFile)

VARIABLE l

Valid(st) == st.open = 1 /\ Len(st.delAddr) = NA /\ Len(st.ix) = 9
Obs(st) == <<ToSet(st.retr), ToSet(st.delIds), st.delAddr, st.find, st.ix>>
ContView(c) == [i \in DOMAIN c |->
                  <<c[i].res, ToSet(c[i].retr), ToSet(c[i].delIds), c[i].delAddr, c[i].find, c[i].ix, c[i].corrupt>>]

(* vanish is a sequence of removals: a subset of its targets may already be gone, nothing else *)
VanishPartial(r) ==
    /\ r.k = "vanish"
    /\ ToSet(r.r.retr) \subseteq ToSet(r.pre.retr)
    /\ (ToSet(r.pre.retr) \ ToSet(r.r.retr)) \subseteq VTargets(ToSet(r.pre.retr), r.a)
    /\ ToSet(r.r.delIds) = ToSet(r.pre.delIds) /\ r.r.delAddr = r.pre.delAddr
    /\ LET n == Cardinality(ToSet(r.r.retr)) IN r.r.ix[1] = n /\ r.r.ix[2] = n /\ r.r.ix[4] = n /\ r.r.ix[5] = n

Viol(r) ==
    IF r.opened # "ok" \/ ~Valid(r.r) THEN {"ReopenFailed"}
    ELSE LET isPre  == Obs(r.r) = Obs(r.pre)
             isPost == Obs(r.r) = Obs(r.post)
         IN   (IF isPre \/ isPost \/ VanishPartial(r) THEN {} ELSE {"NotPreNorPost"})
         \cup (IF Len(r.r.corrupt) = 0 THEN {} ELSE {"CorruptById"})
         \cup (IF \A i \in DOMAIN r.r.offs : r.r.offs[i][2] = r.r.offs[i][3] THEN {} ELSE {"OffsetUnreadable"})
         \cup (IF \A i \in DOMAIN r.q : QueryOK(ToSet(r.r.retr), F[i], r.q[i]) THEN {} ELSE {"QueryBroken"})
         \cup (IF \/ ~(isPre \/ isPost)
                  \/ (isPre /\ ContView(r.cont) = ContView(r.cpre))
                  \/ (isPost /\ ContView(r.cont) = ContView(r.cpost))
               THEN {} ELSE {"ContinuationDiffers"})

Which(r) == IF r.opened # "ok" \/ ~Valid(r.r) THEN "none"
            ELSE IF Obs(r.r) = Obs(r.pre) /\ Obs(r.r) = Obs(r.post) THEN "both"
            ELSE IF Obs(r.r) = Obs(r.pre) THEN "pre" ELSE IF Obs(r.r) = Obs(r.post) THEN "post" ELSE "other"

Init == l = 1
Step == /\ l <= Len(Rec)
        /\ LET r == Rec[l]  v == Viol(r) IN
             /\ PrintT(ToJson([tag |-> "IMG", point |-> r.point, which |-> Which(r), k |-> r.k]))
             /\ (IF v = {} THEN TRUE
                 ELSE PrintT(ToJson([tag |-> "BAD", l |-> l, h |-> r.h, n |-> r.n, k |-> r.k, a |-> r.a,
                                     point |-> r.point, occ |-> r.occ, v |-> v])))
        /\ l' = l + 1
Spec == Init /\ [][Step]_l
Consumed == IF TLCGet("stats").diameter = Len(Rec) + 1 THEN TRUE
            ELSE PrintT(<<"NOTCONSUMED", TLCGet("stats").diameter, Len(Rec)>>)
=============================================================================
