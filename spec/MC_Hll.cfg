SPECIFICATION Spec
CHECK_DEADLOCK FALSE
INVARIANT TypeOK
INVARIANT SketchOfUnion
INVARIANT EmptyIffNoElements
INVARIANT AllClearedIsInit
INVARIANT MergeIdempotent
INVARIANT MergeCommutative
INVARIANT MergeAssociative
INVARIANT MergeIsJoin
INVARIANT AddIdempotent
INVARIANT AddOrderIndependent
INVARIANT AddIsMergeOfSingleton
INVARIANT UnionLaw
INVARIANT ExportImportIdentity
INVARIANT MalformedRefused
PROPERTY Monotone
PROPERTY ClearedIsNew
PROPERTY ReAddIsNoOp
PROPERTY OnlyTarget
PROPERTY RefusalsChangeNothing
PROPERTY ReadsChangeNothing
PROPERTY MergeStep
VIEW View
CONSTANTS M = 3 MaxV = 3 NS = 1 AllRegs = TRUE
