--------------------------- MODULE PocketStoreInd ---------------------------
(***************************************************************************)
(* Inductive-invariant form of the API-level store specification, for       *)
(* Apalache (symbolic: event FIELDS are unconstrained integers, only the    *)
(* number of events is bounded by Gen).  Optional strengthening (DESIGN     *)
(* 3.9): never relied on by a check's verdict.                              *)
(*                                                                          *)
(* It restates StoreOk / RemoveEv / VanishAu of PocketStore.tla over an     *)
(* arbitrary set of event records and shows that                            *)
(*   IndInv == TypeOK /\ AtMostOnePerAddress /\ DeletedNeverRetrievable     *)
(* is inductive:  Init => IndInv   and   IndInv /\ Next => IndInv'.         *)
(***************************************************************************)
EXTENDS Integers, FiniteSets, Apalache

CONSTANT
    \* @type: Set({id: Int, au: Int, kind: Int, ts: Int, addr: Int, etargets: Set(Int), atargets: Set(Int)});
    Events

VARIABLES
    \* @type: Set({id: Int, au: Int, kind: Int, ts: Int, addr: Int, etargets: Set(Int), atargets: Set(Int)});
    retr,
    \* @type: Set(Int);
    delIds,
    \* @type: Int -> Int;
    delAddr

\* well-formedness of the universe (what universe.py guarantees for the concrete universes)
WellFormed ==
    /\ \A e \in Events : e.ts >= 1 /\ e.addr >= 0 /\ e.id >= 1
    /\ \A e1, e2 \in Events : e1.id = e2.id => e1 = e2                 \* ids identify events
    /\ \A e \in Events : e.id \notin e.etargets                        \* an id is a hash of the event: no request names itself
    /\ \A e \in Events : e.kind = 5 => e.addr = 0                      \* kind 5 is not a replaceable kind
    /\ \A e \in Events : e.kind # 5 => (e.etargets = {} /\ e.atargets = {})
    /\ \A e \in Events : \A a \in e.atargets : a >= 1
    \* an address belongs to one author: events at one address share the author
    /\ \A e1, e2 \in Events : (e1.addr # 0 /\ e1.addr = e2.addr) => e1.au = e2.au

ConstInit == Events = Gen(6) /\ WellFormed

Addrs == {e.addr : e \in Events} \cup UNION {e.atargets : e \in Events}
Marker(a) == IF a \in DOMAIN delAddr THEN delAddr[a] ELSE -1

Holders(a) == {h \in retr : h.addr = a}

Refused(e) ==
    \/ e \in retr
    \/ e.id \in delIds
    \/ e.addr # 0 /\ Marker(e.addr) >= e.ts
    \/ e.addr # 0 /\ \E h \in Holders(e.addr) : h.ts > e.ts
    \/ e.kind = 5 /\ \E x \in retr : x.id \in e.etargets /\ x.au # e.au
    \* addresses named by an 'a' tag must be the requester's own: modelled by the author of the events at it
    \/ e.kind = 5 /\ \E x \in Events : x.addr \in e.atargets /\ x.au # e.au

StoreOk(e) ==
    /\ ~Refused(e)
    /\ LET displaced == IF e.addr # 0 THEN {h \in Holders(e.addr) : h.ts <= e.ts} ELSE {}
           killedIds == {x \in retr : x.id \in e.etargets}
           killedAd  == {x \in retr : x.addr \in e.atargets /\ x.ts <= e.ts}
           eph       == e.kind >= 20000 /\ e.kind < 30000
       IN  /\ retr' = (((retr \ displaced) \cup (IF eph THEN {} ELSE {e})) \ killedIds) \ killedAd
           /\ delIds' = delIds \cup e.etargets
           /\ delAddr' = [a \in DOMAIN delAddr \cup e.atargets |->
                             IF a \in e.atargets
                             THEN (IF Marker(a) >= e.ts THEN Marker(a) ELSE e.ts)
                             ELSE delAddr[a]]

RemoveEv(e) == retr' = retr \ {e} /\ UNCHANGED <<delIds, delAddr>>
VanishAu(a) == retr' = {x \in retr : x.au # a} /\ UNCHANGED <<delIds, delAddr>>

Init == retr = {} /\ delIds = {} /\ delAddr = [a \in {} |-> 0]

Next == \/ \E e \in Events : StoreOk(e)
        \/ \E e \in Events : RemoveEv(e)
        \/ \E e \in Events : VanishAu(e.au)
        \/ UNCHANGED <<retr, delIds, delAddr>>

TypeOK == retr \subseteq Events

AtMostOnePerAddress == \A h1, h2 \in retr : (h1.addr # 0 /\ h1.addr = h2.addr) => h1 = h2

DeletedNeverRetrievable ==
    \A x \in retr : x.id \notin delIds /\ (x.addr # 0 => Marker(x.addr) < x.ts)

IndInv == TypeOK /\ AtMostOnePerAddress /\ DeletedNeverRetrievable
\* for the inductive step: start from ANY state satisfying the invariant
IndInit == /\ retr \in SUBSET Events
           /\ delIds = Gen(6)
           /\ delAddr = Gen(6)
           /\ IndInv
=============================================================================
