SPECIFICATION Spec
CONSTANT Prop = "C11"
CHECK_DEADLOCK FALSE
POSTCONDITION Consumed
