--------------------------- MODULE NostrJsonFilter ---------------------------
(***************************************************************************)
(* Document model and acceptor for NIP-01 filter JSON (property C07).      *)
(*                                                                         *)
(* The STATE is the description of one JSON filter document as abstract    *)
(* tokens (never bytes): the sequence of members in document order, each   *)
(* a named member (ids / authors / kinds / since / until / limit), a tag   *)
(* member "#<letter>" or an unknown member, plus one whitespace choice.    *)
(* Values are symbolic: ids "i1".."i3", integer SHAPES ("2^32", "u64max":  *)
(* TLC integers are 32 bit, the harness concretises), tag values named by  *)
(* character class and spelling ("quote", "u2_esc", ...).                  *)
(*                                                                         *)
(*   Run(mem)    the acceptor: a left fold over the members in document    *)
(*               order (what a single pass over the text can know)         *)
(*   Expect(d)   "accept" | "reject_or_saturate" | "may"                   *)
(*   Den(d)      the filter value the document denotes                     *)
(*                                                                         *)
(* INIT is family-structured: every family enumerates one dimension of     *)
(* the property's quantifier exhaustively (all subsets x orders of the     *)
(* named members, all 52 x 52 ordered tag-letter pairs, ...).  The only    *)
(* transitions are the three meaning-preserving rewrites (order-normalise, *)
(* strip whitespace, drop unknown members); TLC checks on every state and  *)
(* every transition that acceptance and meaning do not depend on member    *)
(* order, whitespace or unknown members.  Every state is emitted as a      *)
(* CASE line (document, expectation, denoted value); the conformance       *)
(* harness (harness/src/bin/fjsondrv.rs) concretises each document to      *)
(* bytes and runs the real parser and an independent one on it.            *)
(*                                                                         *)
(* Families (number = bit of C07_FAMS):                                    *)
(*   0 named0   every subset of the six named members in every order (1957)*)
(*   1 named1   ... with one tag member at every position                  *)
(*   2 named2   ... with two tag members at every pair of positions        *)
(*   3 letters  all 52 single letters, ALL 52 x 52 ordered letter pairs    *)
(*   4 triples  ordered triples of distinct letters                        *)
(*   5 quads    four tag members: eight letter sets in all 24 orders       *)
(*   6 lists    0..3 values in ids / authors / kinds / a tag list          *)
(*   7 tagvals  tag values of every escape class x spelling, 1..3 per list *)
(*   8 unknown  one unknown member: key shape x value shape x position     *)
(*   9 unknown2 two unknown members                                        *)
(*  10 ws       every whitespace class at every gap (and at all gaps)      *)
(*  11 ints     integer boundary shapes of limit x since x until in every  *)
(*              order; kinds at 65535 / 65536 / 2^64                       *)
(*  12 may      duplicate members (outside the property's domain)          *)
(*  13 mixed    every full order + two tags + unknown member + whitespace  *)
(*  14 hand     filters laid out as bytes by hand (as_json round trip)     *)
(* Families 0, 3, 5, 6, 10, 11, 12 are never sampled.                      *)
(*                                                                         *)
(* Environment: C07_MOD / C07_SEED sample the large families (quick tier), *)
(* C07_FAMS is a bit mask of the families to generate (sharding).          *)
(***************************************************************************)
EXTENDS Integers, Sequences, FiniteSets, TLC, Json, SequencesExt, IOUtils

VARIABLE doc

(* ------------------------------ parameters ------------------------------ *)
EnvInt(name, dflt) == IF name \in DOMAIN IOEnv THEN atoi(IOEnv[name]) ELSE dflt
MOD  == EnvInt("C07_MOD", 1)                 \* 1 = everything (thorough tier)
REM  == EnvInt("C07_SEED", 0) % MOD
FAMS == EnvInt("C07_FAMS", 1048575)          \* bit i set = family number i is generated
Pick(n) == (n % MOD) = REM
RECURSIVE Pow2(_)
Pow2(i) == IF i = 0 THEN 1 ELSE 2 * Pow2(i - 1)
On(i) == (FAMS \div Pow2(i)) % 2 = 1

(* ------------------------------ vocabulary ------------------------------ *)
NamedSet == {"ids", "authors", "kinds", "since", "until", "limit"}
Lists    == {"ids", "authors", "kinds"}
Ints     == {"since", "until", "limit"}
Letters  == 1..52                            \* 1..26 = a..z, 27..52 = A..Z
LE == 5  LP == 16  LA == 1  LT == 20  LD == 4  LUA == 27  LUE == 31

M(k, v)    == [k |-> k,     l |-> 0, key |-> "",  v |-> v]
T(l, v)    == [k |-> "tag", l |-> l, key |-> "",  v |-> v]
U(key, sh) == [k |-> "unk", l |-> 0, key |-> key, v |-> <<sh>>]

(* integer shapes: representable / outside the representable range / outside the property's domain *)
\* ("n:<digits>" = that number: powers of ten and their neighbours, where digit-group arithmetic of integer printers changes)
TimeIn   == {"0", "1", "1700000000", "2^32", "u64max", "n:9", "n:10", "n:99", "n:100", "n:9999", "n:10000", "n:10001", "n:99999999",
             "n:100000000", "n:100000001", "n:1000000000000", "n:10000000000000000", "n:9999999999999999999", "n:10000000000000000000"}
TimeOor  == {"2^64", "-1"}
TimeMay  == {"1.0", "1e3"}
LimitIn  == {"0", "1", "10", "u32max", "n:100", "n:9999", "n:10000", "n:10001", "n:100000000", "n:1000000000"}
LimitOor == {"2^32", "2^32+1", "u64max", "2^64", "-1"}
LimitMay == {"1.0", "1e3"}
KindIn   == {"0", "1", "30023", "65535", "n:10", "n:100", "n:1000", "n:9999", "n:10000", "n:10001"}
KindOor  == {"65536", "2^64", "-1"}
KindMay  == {"1.0", "1e0"}
SatTime(s)  == IF s = "2^64" THEN "u64max" ELSE IF s = "-1" THEN "0" ELSE s
SatLimit(s) == IF s = "-1" THEN "0" ELSE IF s \in LimitOor THEN "u32max" ELSE s
SatKind(s)  == IF s = "-1" THEN "0" ELSE IF s \in KindOor THEN "65535" ELSE s

(* tag values: character class x spelling.  Same maps a spelling to the value it denotes. *)
Vals == {"plain", "empty", "hex1", "hex2", "space", "quote", "quote_end", "bslash", "bslash_end",
         "nl", "tab", "cr", "bs", "ff", "ctl_u", "nul_u", "slash_lit", "slash_esc",
         "u2_lit", "u2_esc", "u2_ESC", "u3_lit", "u3_esc", "u4_lit", "p2_lit", "p14_lit", "p16_lit", "del_lit", "brackets", "uplain"}
CtlVals == {"c00", "c01", "c02", "c03", "c04", "c05", "c06", "c07", "c08", "c09", "c0a", "c0b", "c0c", "c0d", "c0e",
            "c0f", "c10", "c11", "c12", "c13", "c14", "c15", "c16", "c17", "c18", "c19", "c1a", "c1b", "c1c", "c1d",
            "c1e", "c1f"}                    \* every control character, spelled \u00XX
MayVals == {"u4_sur", "p2_sur", "p14_sur", "p16_sur"}   \* (planes 1, 2, 14, 16)
\*                       \* surrogate-pair spelling: outside the must-domain
\* big values: with the two-tag shape of F_big the binary tag section is 20 + n bytes, and its length field is a u16
BigFit  == {"big65510", "big65515"}              \* 65 530, 65 535: representable
BigOver == {"big65516", "big65518", "big65524"}  \* 65 536 ..: not representable - a parser may only refuse them
AllVals == Vals \cup CtlVals \cup MayVals \cup BigFit \cup BigOver
Char(v) == CASE v = "uplain" -> "plain" [] v = "slash_esc" -> "slash_lit" [] v \in {"u2_esc", "u2_ESC"} -> "u2_lit"
             [] v = "u3_esc" -> "u3_lit" [] v = "u4_sur" -> "u4_lit" [] v = "p2_sur" -> "p2_lit" [] v = "p14_sur" -> "p14_lit" [] v = "p16_sur" -> "p16_lit"
             [] v = "nl" -> "c0a" [] v = "tab" -> "c09" [] v = "cr" -> "c0d" [] v = "bs" -> "c08" [] v = "ff" -> "c0c"
             [] v = "ctl_u" -> "c01" [] v = "nul_u" -> "c00" [] OTHER -> v
Chars(vs) == IF Len(vs) = 0 THEN <<>> ELSE [i \in 1..Len(vs) |-> Char(vs[i])]

(* unknown members: key shapes and value shapes (every JSON value form) *)
UnkKeySeq == <<"search", "idsx", "limits", "empty", "i", "e", "id", "IDS", "kind", "esc", "uni", "sinc",
               "hash_ab", "hash", "hash_1", "hash_uni">>
MayKeys == {"hash_ab", "hash", "hash_1", "hash_uni"}    \* tag names that are not one ASCII letter
UnkValSeq == <<"str", "str_empty", "str_brackets", "str_quote", "str_bslash_end", "str_unicode", "int", "zero",
               "neg", "frac", "zerofrac", "exp", "negexp", "true", "false", "null", "arr_empty", "arr",
               "arr_nested", "arr_ws", "obj_empty", "obj", "obj_nested", "obj_ws">>
UnkValTypes == <<1, 7, 8, 10, 14, 16, 19, 23>>           \* one shape per JSON type (family mixed)
WsClasses == <<"sp", "tab", "nl", "cr", "mix">>

(* ------------------------------ the acceptor ---------------------------- *)
Acc0 == [seen |-> {}, letters |-> {}, dup |-> FALSE, may |-> FALSE, sur |-> FALSE, oor |-> FALSE,
         ids |-> <<>>, authors |-> <<>>, kinds |-> <<>>, tags |-> {},
         since |-> "0", until |-> "u64max", limit |-> "u32max"]      \* defaults of absent members

AnyIn(vs, S) == \E i \in 1..Len(vs) : vs[i] \in S

StepNamed(a, m) ==
  LET b == [a EXCEPT !.seen = @ \cup {m.k}] IN
  CASE m.k = "ids"     -> [b EXCEPT !.ids = m.v]
    [] m.k = "authors" -> [b EXCEPT !.authors = m.v]
    [] m.k = "kinds"   -> [b EXCEPT !.kinds = (IF Len(m.v) = 0 THEN <<>> ELSE [i \in 1..Len(m.v) |-> SatKind(m.v[i])]),
                                    !.oor = @ \/ AnyIn(m.v, KindOor), !.may = @ \/ AnyIn(m.v, KindMay)]
    [] m.k = "since"   -> [b EXCEPT !.since = SatTime(m.v[1]), !.oor = @ \/ m.v[1] \in TimeOor, !.may = @ \/ m.v[1] \in TimeMay]
    [] m.k = "until"   -> [b EXCEPT !.until = SatTime(m.v[1]), !.oor = @ \/ m.v[1] \in TimeOor, !.may = @ \/ m.v[1] \in TimeMay]
    [] m.k = "limit"   -> [b EXCEPT !.limit = SatLimit(m.v[1]), !.oor = @ \/ m.v[1] \in LimitOor, !.may = @ \/ m.v[1] \in LimitMay]

Step(a, m) ==
  CASE m.k = "unk" -> [a EXCEPT !.may = @ \/ (m.key \in MayKeys)]      \* any value shape: skipped
    [] m.k = "tag" -> IF m.l \in a.letters THEN [a EXCEPT !.dup = TRUE]
                      ELSE [a EXCEPT !.letters = @ \cup {m.l}, !.tags = @ \cup {<<m.l, Chars(m.v)>>},
                                     !.sur = @ \/ AnyIn(m.v, MayVals \cup BigOver)]
    [] OTHER       -> IF m.k \in a.seen THEN [a EXCEPT !.dup = TRUE] ELSE StepNamed(a, m)

Run(mem) == FoldLeft(Step, Acc0, mem)

Expect(d) == LET a == Run(d.mem) IN
             IF a.dup \/ a.may \/ (a.sur /\ a.oor) THEN "may"
             ELSE IF a.sur THEN "may_exact"        \* a value spelled with an escaped surrogate pair: may be refused; if accepted, it denotes Den(d)
             ELSE IF a.oor THEN "reject_or_saturate" ELSE "accept"

(* the denoted filter: lists in document order, tag constraints as a SET of <<letter, values>>,
   out-of-range integers at their saturation value (the only value an accepting parser may give) *)
Den(d) == LET a == Run(d.mem) IN
          [ids |-> a.ids, authors |-> a.authors, kinds |-> a.kinds, tags |-> a.tags,
           since |-> a.since, until |-> a.until, limit |-> a.limit]

(* ------------------------------ rewrites -------------------------------- *)
NoWs == <<-1, "none">>
Rank(m) == CASE m.k = "ids" -> 100 [] m.k = "authors" -> 200 [] m.k = "kinds" -> 300 [] m.k = "since" -> 400
             [] m.k = "until" -> 500 [] m.k = "limit" -> 600 [] m.k = "tag" -> 700 + m.l [] OTHER -> 800
Sorted(mem)  == SortSeq(mem, LAMBDA x, y : Rank(x) < Rank(y))
Known(mem)   == SelectSeq(mem, LAMBDA m : m.k # "unk")
Mk(f, mem, ws) == [fam |-> f, mem |-> mem, ws |-> ws]

Reorder     == doc' = [doc EXCEPT !.mem = Sorted(doc.mem)]
StripWs     == doc' = [doc EXCEPT !.ws = NoWs]
DropUnknown == doc' = [doc EXCEPT !.mem = Known(doc.mem), !.ws = IF @[1] >= 0 THEN NoWs ELSE @]   \* gap numbers shift
Next == Reorder \/ StripWs \/ DropUnknown

Same(d, e) == /\ Expect(d) = Expect(e)
              /\ Expect(d) # "may" => Den(d) = Den(e)

(* ------------------------------ token count (whitespace gaps) ----------- *)
ValTok(m) == IF m.k \in Lists \cup {"tag"} THEN (IF Len(m.v) = 0 THEN 2 ELSE 2 * Len(m.v) + 1) ELSE 1
RECURSIVE SumTok(_, _)
SumTok(mem, i) == IF i > Len(mem) THEN 0 ELSE 2 + ValTok(mem[i]) + SumTok(mem, i + 1)
NTok(mem) == 2 + (IF Len(mem) = 0 THEN 0 ELSE Len(mem) - 1) + SumTok(mem, 1)     \* gap g = before token g, g \in 0..NTok-1

(* ------------------------------ families -------------------------------- *)
Def(k) == CASE k = "ids"     -> M("ids", <<"i1", "i2">>)
            [] k = "authors" -> M("authors", <<"a1", "a2">>)
            [] k = "kinds"   -> M("kinds", <<"1", "30023">>)
            [] k = "since"   -> M("since", <<"1700000000">>)
            [] k = "until"   -> M("until", <<"2^32">>)
            [] k = "limit"   -> M("limit", <<"10">>)
Defs(o) == IF Len(o) = 0 THEN <<>> ELSE [i \in 1..Len(o) |-> Def(o[i])]
TagE == T(LE, <<"hex1">>)
TagP == T(LP, <<"hex2", "space">>)

NamedOrders == SetToAllKPermutations(NamedSet)             \* 1957 = every subset in every order
FullOrders  == SetToSeqs(NamedSet)                         \* 720
Code(k) == CASE k = "ids" -> 1 [] k = "authors" -> 2 [] k = "kinds" -> 3 [] k = "since" -> 4 [] k = "until" -> 5 [] OTHER -> 6
HSeq(o) == FoldLeft(LAMBDA a, x : (a * 7 + Code(x)) % 10007, 3, o)

(* 0: every subset x order of the six named members (never sampled) *)
F_named0 == \E o \in NamedOrders : doc = Mk("named0", Defs(o), NoWs)
(* 1, 2: ... with one / two tag members at every position *)
F_named1 == \E o \in NamedOrders, p \in 1..7 :
              /\ p <= Len(o) + 1 /\ Pick(HSeq(o) * 8 + p)
              /\ doc = Mk("named1", InsertAt(Defs(o), p, TagE), NoWs)
F_named2 == \E o \in NamedOrders, p \in 1..7, q \in 1..8 :
              /\ p <= Len(o) + 1 /\ q <= Len(o) + 2 /\ Pick(HSeq(o) * 64 + p * 8 + q)
              /\ doc = Mk("named2", InsertAt(InsertAt(Defs(o), p, TagE), q, TagP), NoWs)

Ctx(c, ts) == IF c = 0 THEN ts
              ELSE IF Len(ts) = 1 THEN <<Def("kinds"), ts[1], Def("limit")>>
              ELSE <<Def("kinds"), ts[1], Def("since"), ts[2], Def("ids")>>
(* 3: all 52 single letters and ALL 52 x 52 ordered pairs (never sampled; equal letters = duplicate = "may") *)
F_letters == \/ \E a \in Letters, c \in 0..1 : doc = Mk("single", Ctx(c, <<T(a, <<"plain", "hex1">>)>>), NoWs)
             \/ \E a \in Letters, b \in Letters, c \in 0..1 :
                  doc = Mk("pairs", Ctx(c, <<T(a, <<"plain">>), T(b, <<"hex1", "empty">>)>>), NoWs)
(* 4: ordered triples of distinct letters; 5: four letters, a sample of sets in every order *)
F_triples == \E a \in Letters, b \in Letters, c \in Letters :
               /\ a # b /\ b # c /\ a # c /\ Pick(a * 2809 + b * 53 + c)
               /\ doc = Mk("triples", <<T(a, <<"plain">>), T(b, <<>>), T(c, <<"hex2">>)>>, NoWs)
QuadSets == {{LE, LP, LA, LT}, {LA, 2, LUA, 28}, {26, 52, LD, 30}, {LE, LUE, LP, 42}, {1, 2, 3, 4}, {27, 28, 29, 30},
             {49, 50, 51, 52}, {13, 14, 40, 41}}
F_quads == \E S \in QuadSets : \E o \in SetToSeqs(S) :
             doc = Mk("quads", [i \in 1..4 |-> T(o[i], <<"plain">>)], NoWs)

(* 6: 0..3 values in every list *)
IdVals == <<"i1", "i2", "i3">>  AuVals == <<"a1", "a2", "a3">>  KVals == <<"1", "65535", "0">>
TVals == <<"hex1", "plain", "quote">>
Take(s, n) == SubSeq(s, 1, n)
ListOrders == {<<1, 2, 3, 4>>, <<4, 3, 2, 1>>, <<3, 1, 4, 2>>, <<2, 4, 1, 3>>}
F_lists == \E ni \in 0..3, na \in 0..3, nk \in 0..3, nt \in 0..3, r \in ListOrders :
             LET ms == <<M("ids", Take(IdVals, ni)), M("authors", Take(AuVals, na)), M("kinds", Take(KVals, nk)),
                         T(LE, Take(TVals, nt))>>
             IN doc = Mk("lists", [i \in 1..4 |-> ms[r[i]]], NoWs)

(* 7: tag values of every escape class / spelling: singles (incl. every control character), pairs, triples *)
VCtx(c, t) == CASE c = 0 -> <<t>> [] c = 1 -> <<Def("ids"), t, Def("until")>> [] OTHER -> <<TagP, t>>
F_tagvals == \/ \E x \in AllVals \ (BigFit \cup BigOver), c \in 0..2 : doc = Mk("tagval1", VCtx(c, T(LE, <<x>>)), NoWs)
             \/ \E x \in Vals, y \in Vals, c \in 0..1 : doc = Mk("tagval2", VCtx(2 * c, T(LT, <<x, y>>)), NoWs)
\* 7b: a tag section at the u16 limit whose LAST member in the text is an empty list, in both member orders
F_big == \E x \in BigFit \cup BigOver, o \in 0..1, c \in 0..1 :
           LET big == T(LA, <<x>>)  empty == T(LE, <<>>)
               two == IF o = 0 THEN <<big, empty>> ELSE <<empty, big>>
           IN doc = Mk("big", IF c = 0 THEN two ELSE <<Def("kinds")>> \o two, NoWs)
ValSeq == SetToSeq(Vals)
F_tagvals3 == \E i \in 1..Len(ValSeq), j \in 1..Len(ValSeq), k \in 1..Len(ValSeq) :
                /\ Pick(i * 841 + j * 29 + k)
                /\ doc = Mk("tagval3", <<T(LD, <<ValSeq[i], ValSeq[j], ValSeq[k]>>)>>, NoWs)

(* 8: one unknown member: every key shape x every value shape x every position of several documents *)
UBase == << <<>>, <<Def("ids")>>, <<TagE, Def("since")>>, <<Def("kinds"), TagP>>,
            <<Def("limit"), TagE, Def("ids"), Def("until"), Def("authors"), TagP, Def("kinds"), Def("since")>> >>
F_unknown == \E b \in 1..Len(UBase), p \in 1..9, ki \in 1..Len(UnkKeySeq), si \in 1..Len(UnkValSeq) :
               /\ p <= Len(UBase[b]) + 1 /\ Pick(b * 3001 + p * 401 + ki * 25 + si)
               /\ doc = Mk("unknown", InsertAt(UBase[b], p, U(UnkKeySeq[ki], UnkValSeq[si])), NoWs)
(* 9: two unknown members *)
F_unknown2 == \E b \in 2..Len(UBase), p \in 1..9, q \in 1..10, ki \in 1..12, si \in 1..Len(UnkValSeq) :
                /\ p <= Len(UBase[b]) + 1 /\ q <= Len(UBase[b]) + 2 /\ Pick(b * 3001 + p * 401 + ki * 25 + si + q * 7)
                /\ doc = Mk("unknown2", InsertAt(InsertAt(UBase[b], p, U(UnkKeySeq[ki], UnkValSeq[si])), q,
                                                 U(UnkKeySeq[((ki + q) % 12) + 1], UnkValSeq[((si + p + 5 * q) % Len(UnkValSeq)) + 1])), NoWs)

(* 10: whitespace of every class at every gap (and at all gaps at once: g = -2) *)
WBase == << <<>>,
            <<Def("ids"), TagP, Def("since")>>,
            <<M("kinds", <<>>), U("search", "arr_ws"), T(LA, <<>>), Def("limit"), Def("authors")>>,
            <<Def("until"), T(LUE, <<"space", "u2_lit", "nl">>), Def("kinds"), U("empty", "obj_ws"), M("ids", <<"i3">>)>> >>
F_ws == \E b \in 1..Len(WBase), c \in 1..Len(WsClasses), g \in -2..80 :
          /\ g # -1 /\ g < NTok(WBase[b])
          /\ doc = Mk("ws", WBase[b], <<g, WsClasses[c]>>)

(* 11: integer boundaries: every shape of limit x since x until in every order; every shape alone; kinds *)
IntOrders == SetToSeqs(Ints)
IntMem(k, l, s, u) == CASE k = "limit" -> M("limit", <<l>>) [] k = "since" -> M("since", <<s>>) [] OTHER -> M("until", <<u>>)
F_ints == \/ \E k \in Ints, s \in TimeIn \cup TimeOor \cup TimeMay \cup LimitIn \cup LimitOor :
                /\ k = "limit" => s \in LimitIn \cup LimitOor \cup LimitMay
                /\ k # "limit" => s \in TimeIn \cup TimeOor \cup TimeMay
                /\ doc = Mk("int1", <<M(k, <<s>>)>>, NoWs)
          \/ \E l \in LimitIn \cup LimitOor, s \in TimeIn \cup TimeOor, u \in TimeIn \cup TimeOor, o \in IntOrders :
                doc = Mk("int3", [i \in 1..3 |-> IntMem(o[i], l, s, u)], NoWs)
          \/ \E x \in KindIn \cup KindOor \cup KindMay, y \in KindIn \cup KindOor \cup {"none"}, c \in 0..1 :
                doc = Mk("kinds", Ctx(c, <<M("kinds", IF y = "none" THEN <<x>> ELSE <<x, y>>)>>), NoWs)

(* 12: outside the must-domain ("may"): duplicate members *)
Def2(k) == CASE k = "ids" -> M("ids", <<"i3">>) [] k = "authors" -> M("authors", <<>>) [] k = "kinds" -> M("kinds", <<"0">>)
             [] k = "since" -> M("since", <<"1">>) [] k = "until" -> M("until", <<"1">>) [] OTHER -> M("limit", <<"1">>)
F_may == \E k \in NamedSet, c \in 0..1 :
           doc = Mk("dup", IF c = 0 THEN <<Def(k), Def2(k)>> ELSE <<Def2(k), TagE, Def(k)>>, NoWs)

(* 13: everything at once: every full order, two tag members, an unknown member, whitespace at all gaps *)
F_mixed == \E o \in FullOrders, p \in 1..9, s \in 1..Len(UnkValTypes) :
             LET h == HSeq(o) IN
             /\ Pick(h * 80 + p * 8 + s)
             /\ doc = Mk("mixed",
                         InsertAt(InsertAt(InsertAt(Defs(o), (h % 7) + 1, T(LUA, <<"u3_esc", "bslash">>)),
                                           ((h \div 7) % 8) + 1, T(LA, <<"slash_esc">>)),
                                  p, U(UnkKeySeq[((h + p) % 12) + 1], UnkValSeq[UnkValTypes[s]])),
                         <<-2, WsClasses[((h + s) % 5) + 1]>>)

(* 14: binary filters laid out by hand (the harness builds Den(doc) as bytes, no JSON text): as_json round trip *)
HandVals == (Vals \ {"uplain", "slash_esc", "u2_esc", "u2_ESC", "u3_esc"}) \cup CtlVals
HBase == << <<>>, <<Def("ids"), Def("authors"), Def("kinds")>>, <<M("limit", <<"0">>), M("since", <<"u64max">>), M("until", <<"0">>)>>,
            <<M("kinds", <<"0", "65535">>), M("limit", <<"u32max">>), M("since", <<"0">>), M("until", <<"u64max">>)>> >>
F_hand == \/ \E x \in HandVals, b \in 1..Len(HBase) : doc = Mk("hand", HBase[b] \o <<T(LE, <<x>>)>>, NoWs)
          \/ \E x \in HandVals, y \in HandVals :
               /\ (Pick(0) \/ x \in {"quote", "bslash", "c00", "u4_lit"} \/ y \in {"quote_end", "bslash_end", "c1f"})
               /\ doc = Mk("hand", <<T(LUA, <<x, y>>), T(LP, <<y>>)>>, NoWs)
          \/ \E a \in Letters : doc = Mk("hand", <<Def("kinds"), T(a, <<"plain">>), T((a % 52) + 1, <<>>)>>, NoWs)

Fam(i) == CASE i = 0 -> F_named0 [] i = 1 -> F_named1 [] i = 2 -> F_named2 [] i = 3 -> F_letters [] i = 4 -> F_triples
            [] i = 5 -> F_quads [] i = 6 -> F_lists [] i = 7 -> (F_tagvals \/ F_tagvals3 \/ F_big) [] i = 8 -> F_unknown
            [] i = 9 -> F_unknown2 [] i = 10 -> F_ws [] i = 11 -> F_ints [] i = 12 -> F_may [] i = 13 -> F_mixed
            [] OTHER -> F_hand
Init == \E i \in 0..14 : On(i) /\ Fam(i)

Spec == Init /\ [][Next]_doc

(* ------------------------------ what TLC checks ------------------------- *)
MemOK(m) == /\ m.k \in NamedSet \cup {"tag", "unk"}
            /\ m.k = "tag" <=> m.l \in Letters
            /\ m.k \in Ints \cup {"unk"} => Len(m.v) = 1
            /\ m.k = "tag" => \A i \in 1..Len(m.v) : m.v[i] \in AllVals
TypeOK == /\ \A i \in 1..Len(doc.mem) : MemOK(doc.mem[i])
          /\ doc.ws[1] \in -2..(NTok(doc.mem) - 1)
          /\ Expect(doc) \in {"accept", "reject_or_saturate", "may", "may_exact"}

(* acceptance and meaning never depend on member order, whitespace or unknown members *)
OrderIndependent   == Same(doc, [doc EXCEPT !.mem = Sorted(doc.mem)])
WsIndependent      == Same(doc, [doc EXCEPT !.ws = NoWs])
UnknownIndependent == (\A i \in 1..Len(doc.mem) : doc.mem[i].k = "unk" => doc.mem[i].key \notin MayKeys)
                         => Same(doc, [doc EXCEPT !.mem = Known(doc.mem)])
(* ... and every rewrite preserves them (checked on every transition) *)
MeaningPreserved == [][(Expect(doc) # "may") => Same(doc, doc')]_doc
(* saturation is the only licence to deviate from the written number *)
AcceptIsExact == Expect(doc) = "accept" =>
                   \A i \in 1..Len(doc.mem) : LET m == doc.mem[i] IN
                      /\ m.k = "limit" => m.v[1] \in LimitIn
                      /\ m.k \in {"since", "until"} => m.v[1] \in TimeIn
                      /\ m.k = "kinds" => \A j \in 1..Len(m.v) : m.v[j] \in KindIn
(* absent members denote the defaults *)
Defaults == LET d == Den(doc) s == {doc.mem[i].k : i \in 1..Len(doc.mem)} IN
            /\ "since" \notin s => d.since = "0"
            /\ "until" \notin s => d.until = "u64max"
            /\ "limit" \notin s => d.limit = "u32max"
            /\ "ids" \notin s => d.ids = <<>>
            /\ "tag" \notin s => d.tags = {}

Emit == PrintT(<<"CASE", ToJson([d |-> doc, expect |-> Expect(doc), den |-> Den(doc)])>>)
==============================================================================
