SPECIFICATION Spec
CHECK_DEADLOCK FALSE
INVARIANT TypeOK
INVARIANT OrderIndependent
INVARIANT WsIndependent
INVARIANT UnknownIndependent
INVARIANT AcceptIsExact
INVARIANT Defaults
PROPERTY MeaningPreserved
