------------------------------ MODULE FilterGen ------------------------------
(***************************************************************************)
(* Generator of the filter grammar of C05 (DESIGN 6/C05): TLC enumerates,   *)
(* one initial state per filter, families that cross every index plan of    *)
(* the store's query planner (ids / authors+kinds / authors+tags /          *)
(* kinds+tags / tags / authors / scrape) with limits, time windows (incl.   *)
(* inverted and future ones), one or several tag letters with one or        *)
(* several values each (present or absent), screening functions and         *)
(* scraping allowances.  The filters are printed as JSON and executed on    *)
(* the real store; their answers are judged by PocketQuery!QueryOK.         *)
(***************************************************************************)
EXTENDS Integers, Sequences, FiniteSets, TLC, Json, IOUtils

V == JsonDeserialize(IOEnv.VOCAB)
\* V.ids, V.authors, V.kinds : sequences; V.names, V.vals : interned strings; V.now0 : Int
INF == 2000000000

SeqOfSet(S) == LET RECURSIVE F(_)
                   F(T) == IF T = {} THEN <<>> ELSE LET x == CHOOSE y \in T : \A z \in T : y <= z
                                                    IN <<x>> \o F(T \ {x})
               IN F(S)
ToSet(s) == {s[i] : i \in DOMAIN s}

IdSets   == {SeqOfSet(S) : S \in SUBSET ToSet(V.ids)}
AuSets   == {SeqOfSet(S) : S \in SUBSET ToSet(V.authors)}
KindSets == {SeqOfSet(S) : S \in SUBSET {V.kinds[1], V.kinds[2], V.kinds[3]}}

x == V.vals[1]  y == V.vals[2]  z == V.vals[3]
ValLists == {<<x>>, <<y>>, <<z>>, <<x, y>>, <<y, x>>, <<x, z>>, <<z, x>>, <<z, y, x>>}
Con(n, vs) == [name |-> n, vals |-> vs]
TagSets1 == {<<>>} \cup {<<Con(V.names[1], vs)>> : vs \in ValLists}
TagSetsDeep == TagSets1
    \cup {<<Con(V.names[2], vs)>> : vs \in {<<x>>, <<y>>, <<y, x>>}}
    \cup {<<Con(V.names[1], a), Con(V.names[2], b)>> : a \in ValLists, b \in {<<x>>, <<y>>, <<y, x>>}}
    \cup {<<Con(V.names[2], b), Con(V.names[1], a)>> : a \in {<<x>>, <<y, x>>}, b \in {<<x>>, <<y>>}}
    \cup {<<Con(V.names[1], <<>>)>>, <<Con(V.names[3], <<x>>)>>}        \* no values; a name no event has

TagSetsFew == {<<>>, <<Con(V.names[1], <<x>>)>>, <<Con(V.names[1], <<y, x>>)>>,
               <<Con(V.names[1], <<x>>), Con(V.names[2], <<x>>)>>}

Times   == {0, 10, 11, 20, INF}
Windows == Times \X Times
WindowsFew == {<<0, INF>>, <<10, 10>>, <<11, 20>>, <<20, 10>>, <<0, 11>>, <<12, INF>>}
Limits  == {0, 1, 2, 3, INF}
NowWindows == {<<0, INF>>, <<V.now0 - 10, INF>>, <<V.now0 - 5000, INF>>, <<0, 20>>, <<15, 25>>, <<30, 10>>,
               <<V.now0 + 1000, INF>>, <<V.now0 - 10, V.now0 + 1000>>, <<INF, INF>>, <<0, 0>>}

VARIABLE f
Flt(ids, aus, ks, tags, w, lim, scr, alw) ==
    [ids |-> ids, authors |-> aus, kinds |-> ks, tags |-> tags, since |-> w[1], until |-> w[2],
     limit |-> lim, screen |-> scr, allow |-> alw, fam |-> "?"]
Fam(g, name) == [g EXCEPT !.fam = name]

\* A: planner x limit x window
FA == \E i \in IdSets, a \in AuSets, k \in KindSets, t \in TagSetsFew, l \in Limits, w \in WindowsFew :
          f = Fam(Flt(i, a, k, t, w, l, 0, 0), "A")
\* B: tag constraints in depth
FB == \E a \in {<<>>, <<V.authors[1]>>, <<V.authors[1], V.authors[2]>>}, k \in {<<>>, <<V.kinds[1]>>, <<V.kinds[1], V.kinds[2]>>},
         t \in TagSetsDeep, l \in Limits : f = Fam(Flt(<<>>, a, k, t, <<0, INF>>, l, 0, 0), "B")
\* C: all windows on a few plans
FC == \E a \in {<<>>, <<V.authors[1]>>}, k \in {<<>>, <<V.kinds[1]>>}, t \in {<<>>, <<Con(V.names[1], <<x>>)>>},
         w \in Windows, l \in {1, 2, INF} : f = Fam(Flt(<<>>, a, k, t, w, l, 0, 0), "C")
\* D: screening functions
FD == \E a \in AuSets, k \in {<<>>, <<V.kinds[1]>>}, t \in TagSets1, l \in {1, 2, INF}, s \in 1..4 :
          f = Fam(Flt(<<>>, a, k, t, <<0, INF>>, l, s, 0), "D")
\* E: scrape gate: allowances x limits x windows around "now"
FE == \E k \in KindSets, l \in Limits, w \in NowWindows, alw \in 0..3, s \in {0, 2} :
          f = Fam(Flt(<<>>, <<>>, k, <<>>, w, l, s, alw), "E")
\* F: allowances never matter when the filter names ids / authors / tags
FF == \E i \in {<<>>, <<V.ids[1]>>}, a \in {<<>>, <<V.authors[1]>>}, t \in TagSets1, alw \in 1..3, l \in {1, INF} :
          (Len(i) + Len(a) + Len(t) > 0) /\ f = Fam(Flt(i, a, <<>>, t, <<0, INF>>, l, 0, alw), "F")

\* G: addressable kinds with constraints on the d tag (several current events of one author and kind)
dn == V.names[4]
FG == \E a \in {<<>>, <<V.authors[1]>>, <<V.authors[1], V.authors[2]>>}, k \in {<<>>, <<V.kinds[4]>>, <<V.kinds[4], V.kinds[1]>>},
         vs \in {<<x>>, <<y>>, <<x, y>>, <<y, x>>, <<z, y>>}, extra \in {<<>>, <<Con(V.names[1], <<x, y>>)>>}, l \in {1, 2, INF} :
          f = Fam(Flt(<<>>, a, k, <<Con(dn, vs)>> \o extra, <<0, INF>>, l, 0, 0), "G")

Init == FA \/ FB \/ FC \/ FD \/ FE \/ FF \/ FG
Next == UNCHANGED f
Spec == Init /\ [][Next]_f
Emit == PrintT(<<"CASE", ToJson(f)>>)
=============================================================================
