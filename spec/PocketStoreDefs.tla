--------------------------- MODULE PocketStoreDefs ---------------------------
(***************************************************************************)
(* Variable-free vocabulary of the API-level specification of pocket-db's   *)
(* Store (DESIGN.md 3.1-3.3): the event universe, kind classes, addresses,  *)
(* the sequential meaning of every public call as a function of the         *)
(* OBSERVABLE abstract state, and the property-owned clauses (R4) that the  *)
(* trace judges evaluate on observed transitions.                           *)
(*                                                                          *)
(* Both PocketStore.tla (generative form, model-checked by TLC) and         *)
(* TraceStore.tla (judge of recorded executions of the real code) extend    *)
(* this module, so the clauses checked on the design and the clauses        *)
(* checked on the implementation are literally the same operators.          *)
(***************************************************************************)
EXTENDS Integers, Sequences, FiniteSets, TLC, Json, IOUtils

U == JsonDeserialize(IOEnv.UNIVERSE)

N       == U.n                  \* events are numbered 1..N
NIds    == U.nids               \* ids N+1..NIds exist as names only ("absent" events)
NA      == Len(U.addrs)
Ids     == 1..N
AllIds  == 1..NIds
Authors == 1..U.nauthors
AddrIdx == 1..NA
EvF     == [i \in Ids |-> U.events[i]]
Ev(i)   == EvF[i]

INF == 2000000000

IsRepl(k)  == k = 0 \/ k = 3 \/ (k >= 10000 /\ k < 20000)
IsEph(k)   == k >= 20000 /\ k < 30000
IsParam(k) == k >= 30000 /\ k < 40000

(* e.addr is the index (in U.addrs) of the event's replaceable address, 0 if it has none. *)
Holders(S, a) == {x \in S : Ev(x).addr = a}

ETargets(e) == {e.dels[j].id   : j \in {k \in DOMAIN e.dels : e.dels[k].t = "e"}}
ATargets(e) == {e.dels[j].addr : j \in {k \in DOMAIN e.dels : e.dels[k].t = "a"}}

(* A deletion request is invalid when some tag names another author's retrievable event or   *)
(* another author's address.                                                                  *)
InvalidDelete(retr, e) ==
    \E j \in DOMAIN e.dels :
        \/ e.dels[j].t = "e" /\ e.dels[j].id \in retr /\ Ev(e.dels[j].id).au # e.au
        \/ e.dels[j].t = "a" /\ e.dels[j].aau # e.au

PTagged(e, a) == \E j \in DOMAIN e.tags :
                     /\ Len(e.tags[j]) >= 2
                     /\ e.tags[j][1] = U.s_p
                     /\ e.tags[j][2] = U.pk_sidx[a]

VTargets(retr, a) == {x \in retr : Ev(x).au = a \/ (Ev(x).kind = 1059 /\ PTagged(Ev(x), a))}

(***************************************************************************)
(* Observable abstract state: a record                                      *)
(*   retr    : set of retrievable event ids                                 *)
(*   delIds  : set of ids carrying a deletion marker                        *)
(*   delAddr : AddrIdx -> deletion time of the address, -1 = none           *)
(***************************************************************************)
EmptyState == [retr |-> {}, delIds |-> {}, delAddr |-> [a \in AddrIdx |-> -1]]

MaxOf(a, b) == IF a >= b THEN a ELSE b

AddrCovered(st, e) == e.addr # 0 /\ st.delAddr[e.addr] >= e.ts

(* every refusal reason that applies to storing e in state st *)
Reasons(st, e) ==
         (IF e.id \in st.retr THEN {"dup"} ELSE {})
    \cup (IF e.id \in st.delIds \/ AddrCovered(st, e) THEN {"deleted"} ELSE {})
    \cup (IF e.addr # 0 /\ \E h \in Holders(st.retr, e.addr) : Ev(h).ts > e.ts
          THEN {"replaced"} ELSE {})
    \cup (IF e.kind = 5 /\ InvalidDelete(st.retr, e) THEN {"invalid_delete"} ELSE {})

Tie(st, e) == e.addr # 0 /\ \E h \in Holders(st.retr, e.addr) : Ev(h).ts = e.ts /\ h # e.id

Displaced(st, e) == IF e.addr # 0 THEN {h \in Holders(st.retr, e.addr) : Ev(h).ts <= e.ts} ELSE {}
KilledIds(st, e) == IF e.kind = 5 THEN ETargets(e) \cap st.retr ELSE {}
KilledByAddr(st, e) == IF e.kind = 5
                       THEN {x \in st.retr : Ev(x).addr \in ATargets(e) /\ Ev(x).ts <= e.ts}
                       ELSE {}

(* state after a successful store of e *)
PostStore(st, e) ==
    [retr    |-> (((st.retr \ Displaced(st, e)) \cup (IF IsEph(e.kind) THEN {} ELSE {e.id}))
                    \ KilledIds(st, e)) \ KilledByAddr(st, e),
     delIds  |-> st.delIds \cup (IF e.kind = 5 THEN ETargets(e) ELSE {}),
     delAddr |-> [a \in AddrIdx |-> IF e.kind = 5 /\ a \in ATargets(e)
                                    THEN MaxOf(st.delAddr[a], e.ts) ELSE st.delAddr[a]]]

PostRemove(st, id) == [st EXCEPT !.retr = st.retr \ {id}]
PostVanish(st, a)  == [st EXCEPT !.retr = st.retr \ VTargets(st.retr, a)]

(***************************************************************************)
(* Property-owned clauses (R4).  pre/post are records with at least the     *)
(* fields retr, delIds, delAddr; c is a call [k |-> kind, a |-> argument];  *)
(* res is the result label.  Each clause is a predicate on ONE observed     *)
(* transition; a check asserts only its own property's clauses.             *)
(***************************************************************************)
IsStore(c) == c.k = "store"
IsErr(res) == res # "ok"
SameObs(pre, post) == /\ pre.retr = post.retr
                      /\ pre.delIds = post.delIds
                      /\ pre.delAddr = post.delAddr

(* ---- C04 (the part that concerns the retrievable set): nothing disappears during a call  *)
(* that had no business removing it.                                                         *)
C04_StaysUntil(pre, c, res, post) ==
    \A x \in pre.retr \ post.retr :
        \/ c.k = "remove" /\ c.a = x
        \/ c.k = "vanish" /\ x \in VTargets(pre.retr, c.a)
        \/ /\ IsStore(c) /\ res = "ok"
           /\ LET e == Ev(c.a) IN
                \/ e.addr # 0 /\ Ev(x).addr = e.addr /\ e.ts >= Ev(x).ts
                \/ e.kind = 5 /\ (x \in ETargets(e) \/ (Ev(x).addr \in ATargets(e) /\ Ev(x).ts <= e.ts))

(* ---- C09 *)
C09_AtMostOne(post) == \A a \in AddrIdx : Cardinality(Holders(post.retr, a)) <= 1

C09_Displace(pre, c, res, post) ==
    IsStore(c) => LET e == Ev(c.a)  a == e.addr IN
        /\ (res = "ok" /\ a # 0) =>
               \A h \in Holders(pre.retr, a) : Ev(h).ts < e.ts => h \notin post.retr
        /\ (a # 0 /\ \E h \in Holders(pre.retr, a) : Ev(h).ts > e.ts) =>
               /\ res \in {"replaced", "deleted"} \cup (IF e.id \in pre.retr THEN {"dup"} ELSE {})
               /\ SameObs(pre, post)
        /\ e.kind # 5 => \A x \in pre.retr \ post.retr :
                             a # 0 /\ Ev(x).addr = a /\ Ev(x).ts <= e.ts
        (* other addresses never affect this one: 'replaced' needs a holder of the SAME address that is not older *)
        /\ res = "replaced" => (a # 0 /\ \E h \in Holders(pre.retr, a) : Ev(h).ts >= e.ts)

C09(pre, c, res, post) == C09_AtMostOne(post) /\ C09_Displace(pre, c, res, post)

(* ---- C10 *)
C10(pre, c, res, post) ==
    (IsStore(c) /\ Ev(c.a).kind = 5) => LET e == Ev(c.a) IN
        /\ \A x \in pre.retr \ post.retr : Ev(x).au = e.au
        /\ \A t \in post.delIds \ pre.delIds : ~(t \in pre.retr /\ Ev(t).au # e.au)
        /\ \A a \in AddrIdx : post.delAddr[a] # pre.delAddr[a] => U.addrs[a].au = e.au

(* ---- C11: acc = set of deletion requests (event ids) accepted so far in this history      *)
Covered(acc, x) == \E q \in acc : LET r == Ev(q) IN
                       /\ r.au = x.au
                       /\ \/ x.id \in ETargets(r)
                          \/ x.addr # 0 /\ x.addr \in ATargets(r) /\ x.ts <= r.ts

MarkerCovers(pre, e) == e.id \in pre.delIds \/ AddrCovered(pre, e)

C11(pre, c, res, post, acc, accPost) ==
    /\ \A x \in post.retr : ~Covered(accPost, Ev(x))
    /\ IsStore(c) => LET e == Ev(c.a) IN
          /\ Covered(acc, e) => res # "ok"
          /\ res = "deleted" => (Covered(acc, e) \/ MarkerCovers(pre, e))
    /\ pre.delIds \subseteq post.delIds
    /\ \A a \in AddrIdx : post.delAddr[a] >= pre.delAddr[a]

AccNext(acc, c, res) == IF IsStore(c) /\ res = "ok" /\ Ev(c.a).kind = 5 THEN acc \cup {c.a} ELSE acc

(* ---- C12 (core components; the trace judge adds lookups, probe queries and entry counts) *)
C12(pre, c, res, post) == (IsStore(c) /\ IsErr(res)) => SameObs(pre, post)

(* ---- C16 *)
C16(pre, c, res, post) == (c.k \in {"reopen", "rebuild"}) => SameObs(pre, post)

(* ---- C18 *)
C18(pre, c, res, post) ==
    /\ c.k = "remove" => (post.retr = pre.retr \ {c.a}
                          /\ post.delIds = pre.delIds /\ post.delAddr = pre.delAddr)
    /\ c.k = "vanish" => (post.retr = pre.retr \ VTargets(pre.retr, c.a)
                          /\ post.delIds = pre.delIds /\ post.delAddr = pre.delAddr)
    /\ \A x \in post.retr : ~IsEph(Ev(x).kind)
    /\ (IsStore(c) /\ IsEph(Ev(c.a).kind) /\ Reasons(pre, Ev(c.a)) = {}) => res = "ok"
    (* removal leaves no marker: a resubmission is not refused as dup / deleted unless a      *)
    (* marker observed before the call covers it                                              *)
    /\ IsStore(c) => LET e == Ev(c.a) IN
          /\ res = "dup" => e.id \in pre.retr
          /\ res = "deleted" => MarkerCovers(pre, e)

(* ---- unowned frame: what the generative form says beyond the clauses (divergence only)     *)
Frame(pre, c, res, post) ==
    IsStore(c) => LET e == Ev(c.a) IN
        IF res = "ok" THEN /\ Reasons(pre, e) = {}
                           /\ SameObs(PostStore(pre, e), post)
        ELSE res \in Reasons(pre, e) \cup (IF Tie(pre, e) THEN {"replaced"} ELSE {})
=============================================================================
