----------------------------- MODULE TraceKinds -----------------------------
(***************************************************************************)
(* C09, classification part: the kind classes of the implementation         *)
(* (Kind::is_replaceable / is_ephemeral / is_parameterized_replaceable,     *)
(* recorded for all 65 536 kinds) are validated against the predicates the  *)
(* store specification is built on (PocketStoreDefs!IsRepl, IsEph, IsParam).*)
(***************************************************************************)
EXTENDS PocketStoreDefs

Rec == ndJsonDeserialize(IOEnv.TRACE)
B(x) == IF x THEN 1 ELSE 0

Bad == {i \in DOMAIN Rec :
            \/ Rec[i].repl  # B(IsRepl(Rec[i].k))
            \/ Rec[i].eph   # B(IsEph(Rec[i].k))
            \/ Rec[i].param # B(IsParam(Rec[i].k))}

ASSUME PrintT(ToJson([tag |-> "KINDS", n |-> Len(Rec), complete |-> B({Rec[i].k : i \in DOMAIN Rec} = 0..65535),
                      bad |-> {Rec[i].k : i \in Bad}]))

VARIABLE x
Init == x = 0
Next == UNCHANGED x
Spec == Init /\ [][Next]_x
=============================================================================
