----------------------------- MODULE TraceBurst -----------------------------
(***************************************************************************)
(* Prefix-consistency judge for C14's sustained stress (DESIGN 11.9).       *)
(*                                                                          *)
(* Workload: ONE writer stores fresh regular events e_0, e_1, ... one after *)
(* the other, so the serial order of the stores is known and "the state     *)
(* after a prefix of that order" is a number k: exactly e_0 .. e_(k-1) are  *)
(* stored.  Readers t = 1..R observe the store while the writer runs.       *)
(* Every line of the trace is one observation of reader t:                  *)
(*   lo, hi    real-time bounds: lo stores had returned before the call     *)
(*             started, hi stores had been started when it returned         *)
(*   klo, khi  the prefixes for which the answer is exactly right (the      *)
(*             harness decodes the answer; -1 -1: right for no prefix, or    *)
(*             the call failed / panicked - `note` says what happened)      *)
(* The abstract state of the judge is the smallest prefix each reader can   *)
(* still be at (a reader's calls are sequential, so its snapshots never go  *)
(* back).  An observation is explained iff some k with                      *)
(*        Max(lo, klo, at[t]) <= k <= Min(hi, khi)                          *)
(* exists; choosing the smallest keeps every later observation explainable  *)
(* whenever any choice does.  Unexplained observations are printed (BAD)    *)
(* and the judge follows the implementation, so that one bad answer is      *)
(* reported once.                                                           *)
(***************************************************************************)
EXTENDS Integers, Sequences, FiniteSets, TLC, Json, IOUtils

Rec == ndJsonDeserialize(IOEnv.TRACE)
Readers == 0..16

VARIABLES l, at
vars == <<l, at>>

Max2(a, b) == IF a >= b THEN a ELSE b
Min2(a, b) == IF a <= b THEN a ELSE b

Init == l = 1 /\ at = [t \in Readers |-> 0]

Floor(r)   == Max2(Max2(r.lo, r.klo), at[r.t])
Ceil(r)    == Min2(r.hi, r.khi)
Explained(r) == r.klo >= 0 /\ Floor(r) <= Ceil(r)

Report(r, why) == PrintT(ToJson([tag |-> "BAD", l |-> l, t |-> r.t, q |-> r.q, j |-> r.j, lo |-> r.lo, hi |-> r.hi,
                                 klo |-> r.klo, khi |-> r.khi, at |-> at[r.t], why |-> why, note |-> r.note]))

Step == /\ l <= Len(Rec)
        /\ LET r == Rec[l] IN
             /\ (IF Explained(r) THEN TRUE
                 ELSE Report(r, IF r.klo < 0 THEN "NoPrefixHasThisAnswer"
                                ELSE IF r.khi < Max2(r.lo, at[r.t]) THEN "StaleAnswer"        \* misses a store that had returned
                                ELSE "AnswerFromTheFuture"))                                  \* shows a store that had not begun
             /\ at' = [at EXCEPT ![r.t] = IF Explained(r) THEN Floor(r) ELSE Max2(at[r.t], r.lo)]
             /\ l' = l + 1

Next == Step
Spec == Init /\ [][Next]_vars

Consumed == IF TLCGet("stats").diameter = Len(Rec) + 1 THEN PrintT(ToJson([tag |-> "BURST", n |-> Len(Rec)]))
            ELSE PrintT(<<"NOTCONSUMED", TLCGet("stats").diameter, Len(Rec)>>)
=============================================================================
