SPECIFICATION Spec
VIEW GenView
CHECK_DEADLOCK FALSE
ACTION_CONSTRAINT EdgePrint
