----------------------------- MODULE NostrMatch -----------------------------
(***************************************************************************)
(* C06 - the filter/event match predicate equals NIP-01 semantics.         *)
(*                                                                         *)
(* `Matches(f, e)` below is TEXTUALLY the operator `PocketQuery!Matches`   *)
(* (spec/PocketQuery.tla, used by C05/C17 over a universe of interned      *)
(* values); it is restated here over explicit (filter, event) records so   *)
(* that this module is self-contained (PocketQuery extends PocketStoreDefs *)
(* which needs a universe file).  The two must stay the same operator.     *)
(*                                                                         *)
(*   filter  [ids, authors, kinds : sequences of 1..3 (interned values);   *)
(*            since, until : 0..4  (ranks, see below);                     *)
(*            tags : sequence of [name : STRING, vals : sequence of STRING]]*)
(*   event   [id, au, kind : 1..3;  ts : 0..4;                             *)
(*            tags : sequence of sequences of STRING]                      *)
(*                                                                         *)
(* Times are RANKS of the five points 0 < t-1 < t < t+1 < 2^64-1 (TLC      *)
(* integers are 32 bit): the harness maps rank r to a concrete u64 with a  *)
(* strictly monotone map (several choices of t, incl. t = 2 and            *)
(* t = 2^64-3), so `<=` on ranks is `<=` on the concrete times.  Interned  *)
(* ids / authors / kinds are mapped to distinct concrete values; strings   *)
(* are used literally.                                                     *)
(*                                                                         *)
(* The module is a case generator: one initial state per (filter, event)   *)
(* pair of the grammar below, no transitions.  The invariant `Emit` prints *)
(* one CASE line per pair with the specification's boolean; `Sanity` are   *)
(* laws of the predicate itself, model-checked on every generated pair.    *)
(***************************************************************************)
EXTENDS Integers, Sequences, FiniteSets, TLC, Json

CONSTANT Thorough        \* BOOLEAN: the larger grammar (cfg)

VARIABLE pair            \* [f |-> filter, e |-> event]

-----------------------------------------------------------------------------
(* The predicate (same text as PocketQuery.tla) *)

ToSet(s) == {s[i] : i \in DOMAIN s}

TagConOK(c, e) == \E t \in DOMAIN e.tags :
                      /\ Len(e.tags[t]) >= 2
                      /\ e.tags[t][1] = c.name
                      /\ e.tags[t][2] \in ToSet(c.vals)

Matches(f, e) ==
    /\ (Len(f.ids) = 0     \/ e.id   \in ToSet(f.ids))
    /\ (Len(f.authors) = 0 \/ e.au   \in ToSet(f.authors))
    /\ (Len(f.kinds) = 0   \/ e.kind \in ToSet(f.kinds))
    /\ f.since <= e.ts
    /\ e.ts <= f.until
    /\ \A j \in DOMAIN f.tags : TagConOK(f.tags[j], e)

-----------------------------------------------------------------------------
(* Grammar *)

Lists   == {<<>>, <<1>>, <<2>>, <<1, 2>>, <<2, 1>>}    \* event values range over 1..3 (3 = in no list)
Ranks   == 0..4
EvRanks == {0, 2, 4}                                     \* created_at = 0, t, 2^64-1

(* names: empty, single letter (two of them, so that two constraints can be written as JSON), *)
(* multi-letter which is an extension of a single letter                                       *)
Names   == {"", "e", "p", "ee"}
(* values: empty, a value and an extension of it *)
Vals    == {"", "x", "xy"}

ValSeqs == {<<>>} \cup {<<v>> : v \in Vals} \cup {<<v, w>> : <<v, w>> \in {p \in Vals \X Vals : p[1] # p[2]}}

Cons(ns, vss) == {[name |-> n, vals |-> vs] : n \in ns, vs \in vss}
ConsFull  == Cons(Names, ValSeqs)                                                       \* 40
ConsSmall == Cons({"", "e", "p"}, {<<>>, <<"">>, <<"x">>, <<"xy">>, <<"x", "xy">>, <<"xy", "x">>})   \* 18

(* event tag shapes: 0 / 1 / 2 / 3 strings *)
Tag0 == {<<>>}
Tag1 == {<<n>> : n \in Names}
Tag2 == {<<n, v>> : n \in Names, v \in Vals}
Tag3(ns) == {<<n, p[1], p[2]>> : n \in ns, p \in {q \in Vals \X Vals : q[1] # q[2]}}
ShapesFull  == Tag0 \cup Tag1 \cup Tag2 \cup Tag3(Names)        \* 41
ShapesMid   == Tag0 \cup Tag1 \cup Tag2 \cup Tag3({"e"})        \* 23
(* reduced sets, most general first *)
R12 == {<<>>, <<"e">>, <<"e", "x">>, <<"e", "xy">>, <<"e", "">>, <<"ee", "x">>, <<"", "x">>, <<"p", "x">>,
        <<"e", "", "x">>, <<"e", "xy", "x">>, <<"p", "xy">>, <<"", "">>}
R8  == {<<>>, <<"e">>, <<"e", "x">>, <<"e", "xy">>, <<"ee", "x">>, <<"", "x">>, <<"p", "x">>, <<"e", "", "x">>}
R6  == {<<>>, <<"e">>, <<"e", "x">>, <<"e", "xy">>, <<"p", "x">>, <<"e", "", "x">>}
R5  == {<<>>, <<"e", "x">>, <<"e", "xy">>, <<"p", "x">>, <<"e", "", "x">>}

UpTo2(S) == {<<>>} \cup {<<a>> : a \in S} \cup {<<a, b>> : a \in S, b \in S}
Exactly3(S) == {<<a, b, c>> : a \in S, b \in S, c \in S}

(* the rest of the filter / event when a family is about tags: "free" = no other constraint, *)
(* "tight" = every other clause constrains and is satisfied on its boundary                    *)
FreeF  == [ids |-> <<>>, authors |-> <<>>, kinds |-> <<>>, since |-> 0, until |-> 4, tags |-> <<>>]
TightF == [ids |-> <<2, 1>>, authors |-> <<1>>, kinds |-> <<2, 1>>, since |-> 2, until |-> 2, tags |-> <<>>]
BaseE  == [id |-> 1, au |-> 1, kind |-> 1, ts |-> 2, tags |-> <<>>]
Bases  == {FreeF, TightF}

(* tag situations used by the list / time families: none, a satisfied one, an unsatisfied one *)
TagSit == { <<<<>>, <<>>>>,
            <<<<[name |-> "e", vals |-> <<"x">>]>>, <<<<"e", "x">>>>>>,
            <<<<[name |-> "e", vals |-> <<"x">>]>>, <<<<"e", "xy">>>>>> }

Mk(f, e) == [f |-> f, e |-> e]

(* FA: at most one constraint, rich event tags *)
FA == \E b \in Bases, ft \in ({<<>>} \cup {<<c>> : c \in ConsFull}),
         et \in (UpTo2(IF Thorough THEN ShapesFull ELSE ShapesMid) \cup Exactly3(IF Thorough THEN R12 \ {<<"", "">>, <<"p", "xy">>} ELSE R6)) :
         pair = Mk([b EXCEPT !.tags = ft], [BaseE EXCEPT !.tags = et])

(* FB: two constraints (AND over constraints), reduced event tags *)
FB == \E b \in (IF Thorough THEN Bases ELSE {FreeF}),
         c1 \in (IF Thorough THEN ConsFull ELSE ConsSmall), c2 \in (IF Thorough THEN ConsFull ELSE ConsSmall),
         et \in (IF Thorough THEN UpTo2(R12) \cup Exactly3(R5) ELSE UpTo2(R8)) :
         pair = Mk([b EXCEPT !.tags = <<c1, c2>>], [BaseE EXCEPT !.tags = et])

(* FL: the three lists, all sizes and both orders, against event values in / not in them *)
FLTimes == IF Thorough THEN {<<s, u, t>> \in {0, 2, 3} \X {1, 2, 4} \X EvRanks : TRUE} ELSE {<<0, 4, 2>>}
FL == \E i \in Lists, a \in Lists, k \in Lists, ei \in 1..3, ea \in 1..3, ek \in 1..3, tm \in FLTimes, ts \in TagSit :
         pair = Mk([ids |-> i, authors |-> a, kinds |-> k, since |-> tm[1], until |-> tm[2], tags |-> ts[1]],
                   [id |-> ei, au |-> ea, kind |-> ek, ts |-> tm[3], tags |-> ts[2]])

(* FT: the time window, every combination of ranks (incl. inverted windows), simple lists *)
ListSit == {<<<<>>, 1>>, <<<<1>>, 1>>, <<<<1>>, 2>>}         \* no constraint / satisfied / unsatisfied
FT == \E s \in Ranks, u \in Ranks, t \in EvRanks, li \in ListSit, la \in ListSit, lk \in ListSit, ts \in TagSit :
         pair = Mk([ids |-> li[1], authors |-> la[1], kinds |-> lk[1], since |-> s, until |-> u, tags |-> ts[1]],
                   [id |-> li[2], au |-> la[2], kind |-> lk[2], ts |-> t, tags |-> ts[2]])

(* FN: many constraints at once - around 32, the number of tag members the JSON form of a filter can carry (a filter made *)
(* from parts may hold more).  Every constraint has its own letter; the event satisfies all / none / all but one of them.    *)
Letters == <<"a", "b", "c", "d", "e", "f", "g", "h", "i", "j", "k", "l", "m", "n", "o", "p", "q", "r", "s", "t", "u", "v", "w", "x", "y", "z",
             "A", "B", "C", "D", "E", "F", "G", "H", "I", "J", "K", "L", "M", "N", "O", "P", "Q", "R", "S", "T", "U", "V", "W", "X", "Y", "Z">>
FNSizes == {3, 8, 16, 31, 32, 33, 40, 52}
FN == \E n \in FNSizes, miss \in {0, 1, 2, 3}, b \in Bases :
         LET cons == [j \in 1..n |-> [name |-> Letters[j], vals |-> IF j % 2 = 0 THEN <<"x">> ELSE <<"xy", "x">>]]
             sat  == CASE miss = 0 -> 1..n                     \* all satisfied
                       [] miss = 1 -> {}                       \* none (the event still has tags)
                       [] miss = 2 -> 1..(n - 1)               \* all but the last
                       [] OTHER    -> 2..n                     \* all but the first
             evt  == [j \in 1..n |-> IF j \in sat THEN <<Letters[j], "x">> ELSE <<Letters[j], "xyz">>]
         IN pair = Mk([b EXCEPT !.tags = cons], [BaseE EXCEPT !.tags = evt])

Init == FA \/ FB \/ FL \/ FT \/ FN
Next == FALSE /\ UNCHANGED pair
Spec == Init /\ [][Next]_pair

-----------------------------------------------------------------------------
(* Laws of the predicate, checked on every generated pair (the spec's own sanity) *)

F == pair.f
E == pair.e
RevSeq(s) == [i \in 1..Len(s) |-> s[Len(s) + 1 - i]]

(* AND over constraints: dropping a constraint never loses a match, and a filter matches iff *)
(* the filter without tags matches and every single-constraint filter matches                  *)
AndOverConstraints ==
    Matches(F, E) <=> /\ Matches([F EXCEPT !.tags = <<>>], E)
                      /\ \A j \in DOMAIN F.tags : Matches([FreeF EXCEPT !.tags = <<F.tags[j]>>], E)
(* OR over values: a constraint is satisfied iff one of its single-value constraints is *)
OrOverValues ==
    \A j \in DOMAIN F.tags :
        TagConOK(F.tags[j], E) <=> \E i \in DOMAIN F.tags[j].vals :
                                       TagConOK([name |-> F.tags[j].name, vals |-> <<F.tags[j].vals[i]>>], E)
(* the order of the event's tags, of list entries and of constraint values is irrelevant *)
OrderIrrelevant ==
    /\ Matches(F, E) <=> Matches(F, [E EXCEPT !.tags = RevSeq(@)])
    /\ Matches(F, E) <=> Matches([F EXCEPT !.ids = RevSeq(@), !.authors = RevSeq(@), !.kinds = RevSeq(@),
                                           !.tags = RevSeq(@)], E)
(* only the first value of an event tag counts; tags shorter than two strings never satisfy anything *)
FirstValueOnly ==
    LET cut == [i \in DOMAIN E.tags |-> IF Len(E.tags[i]) > 2 THEN SubSeq(E.tags[i], 1, 2) ELSE E.tags[i]]
        long == SelectSeq(E.tags, LAMBDA t : Len(t) >= 2)
    IN  /\ Matches(F, E) <=> Matches(F, [E EXCEPT !.tags = cut])
        /\ Matches(F, E) <=> Matches(F, [E EXCEPT !.tags = long])
(* an unconstraining filter matches everything; an inverted window matches nothing *)
Extremes ==
    /\ Matches(FreeF, E)
    /\ F.since > F.until => ~Matches(F, E)
    /\ (F.tags # <<>> /\ E.tags = <<>>) => ~Matches(F, E)
    /\ (\E j \in DOMAIN F.tags : F.tags[j].vals = <<>>) => ~Matches(F, E)

Sanity == AndOverConstraints /\ OrOverValues /\ OrderIrrelevant /\ FirstValueOnly /\ Extremes

Emit == PrintT(<<"CASE", ToJson([f |-> F, e |-> E, m |-> Matches(F, E)])>>)
=============================================================================
