SPECIFICATION Spec
CONSTANT Thorough = TRUE
CHECK_DEADLOCK FALSE
INVARIANT Sanity
INVARIANT Emit
