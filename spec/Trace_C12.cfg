SPECIFICATION Spec
CONSTANT Prop = "C12"
CHECK_DEADLOCK FALSE
POSTCONDITION Consumed
