SPECIFICATION Spec
CONSTANT Prop = "C09"
CHECK_DEADLOCK FALSE
POSTCONDITION Consumed
