SPECIFICATION Spec
CONSTANT Thorough = FALSE
CHECK_DEADLOCK FALSE
INVARIANT Sanity
INVARIANT Emit
