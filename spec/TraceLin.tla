------------------------------ MODULE TraceLin ------------------------------
(***************************************************************************)
(* Linearizability judge for C14 (DESIGN 4.8).  The trace is a sequence of  *)
(* cases; a "case" line carries the implementation's OWN sequential         *)
(* transition table for the operations of the case (entries                 *)
(* <<from node, thread, result, to node>>, nodes = paths of thread numbers) *)
(* and the abstract final state of every node; "call" / "ret" lines are the *)
(* recorded concurrent history in real-time order; the "final" line is the  *)
(* abstract state observed after all threads returned.                      *)
(*                                                                          *)
(* The history is accepted iff silent Lin(t) steps - each takes one pending *)
(* call through the table and remembers its result - can be placed so that  *)
(* every return carries the remembered result and the final state is that   *)
(* of the node reached: the operations took effect one at a time in an      *)
(* order consistent with real time, and every reader got the exact answer   *)
(* of the state after some prefix of that order.                            *)
(***************************************************************************)
EXTENDS Integers, Sequences, FiniteSets, TLC, Json, IOUtils

Rec == ndJsonDeserialize(IOEnv.TRACE)
T == 1..4

VARIABLES l, node, pend, tab, fin
vars == <<l, node, pend, tab, fin>>

Idle == [st |-> "idle", res |-> ""]
ToSet(s) == {s[i] : i \in DOMAIN s}
Entry(n, t) == CHOOSE e \in ToSet(tab) : e[1] = n /\ e[2] = t
HasEntry(n, t) == \E e \in ToSet(tab) : e[1] = n /\ e[2] = t
FinOf(n) == LET S == {f \in ToSet(fin) : f[1] = n} IN IF S = {} THEN "?" ELSE (CHOOSE f \in S : TRUE)[2]

Init == l = 1 /\ node = 0 /\ pend = [t \in T |-> Idle] /\ tab = <<>> /\ fin = <<>>

CaseLine == /\ l <= Len(Rec) /\ Rec[l].e = "case"
            /\ pend' = [t \in T |-> Idle] /\ node' = 0
            /\ tab' = Rec[l].tab /\ fin' = Rec[l].fin
            /\ l' = l + 1

Call == /\ l <= Len(Rec) /\ Rec[l].e = "call"
        /\ pend[Rec[l].t].st = "idle"
        /\ pend' = [pend EXCEPT ![Rec[l].t] = [st |-> "called", res |-> ""]]
        /\ l' = l + 1
        /\ UNCHANGED <<node, tab, fin>>

Lin(t) == /\ pend[t].st = "called"
          /\ HasEntry(node, t)
          /\ LET e == Entry(node, t) IN
               /\ pend' = [pend EXCEPT ![t] = [st |-> "done", res |-> e[3]]]
               /\ node' = e[4]
          /\ UNCHANGED <<l, tab, fin>>

Ret == /\ l <= Len(Rec) /\ Rec[l].e = "ret"
       /\ pend[Rec[l].t].st = "done"
       /\ pend[Rec[l].t].res = Rec[l].res
       /\ pend' = [pend EXCEPT ![Rec[l].t] = [st |-> "returned", res |-> ""]]
       /\ l' = l + 1
       /\ UNCHANGED <<node, tab, fin>>

Final == /\ l <= Len(Rec) /\ Rec[l].e = "final"
         /\ \A t \in T : pend[t].st \in {"idle", "returned"}
         /\ FinOf(node) = Rec[l].res
         /\ l' = l + 1
         /\ UNCHANGED <<node, pend, tab, fin>>

Next == CaseLine \/ Call \/ Ret \/ Final \/ \E t \in T : Lin(t)
Spec == Init /\ [][Next]_vars

(* acceptance: the furthest line any branch consumed (register 1), checked after the run *)
ASSUME TLCSet(1, 0)
Track == TLCSet(1, IF TLCGet(1) < l THEN l ELSE TLCGet(1))
Accepted == PrintT(ToJson([tag |-> "LIN", reached |-> TLCGet(1), len |-> Len(Rec)]))
=============================================================================
