SPECIFICATION Spec
VIEW View
CHECK_DEADLOCK FALSE
INVARIANT TypeOK
INVARIANT AtMostOnePerAddress
INVARIANT DeletedNeverRetrievable
INVARIANT EphemeralNeverRetrievable
PROPERTY MarkersMonotone
PROPERTY P_C04
PROPERTY P_C09
PROPERTY P_C10
PROPERTY P_C11
PROPERTY P_C12
PROPERTY P_C16
PROPERTY P_C18
PROPERTY P_Frame
PROPERTY P_Acc
