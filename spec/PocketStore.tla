----------------------------- MODULE PocketStore -----------------------------
(***************************************************************************)
(* API-level specification of pocket-db's Store, generative form.           *)
(*                                                                          *)
(* One action per public call; the state is the OBSERVABLE abstract state   *)
(* (retrievable set, deletion markers) plus `mode`, which makes "the first  *)
(* call after a reopen / rebuild" an edge of the state graph.  `hist` (the  *)
(* calls made so far) and `last` (the last call and its result) are hidden  *)
(* behind the VIEW: they add no behaviour, `hist` is what the edge cover    *)
(* prints, and `last` is what the clause properties look at.                *)
(*                                                                          *)
(* TLC checks on this model: the design-level invariants, and that every    *)
(* property-owned clause of PocketStoreDefs holds on every transition       *)
(* (the clauses never reject spec-conforming behaviour).                    *)
(***************************************************************************)
EXTENDS PocketStoreDefs

VARIABLES retr, delIds, delAddr, mode, acc, hist, last

vars == <<retr, delIds, delAddr, mode, acc, hist, last>>
View == <<retr, delIds, delAddr, acc>>
GenView == <<retr, delIds, delAddr>>            \* edge-cover generation (reopen/rebuild variants are added by the driver)

St  == [retr |-> retr,  delIds |-> delIds,  delAddr |-> delAddr]
StP == [retr |-> retr', delIds |-> delIds', delAddr |-> delAddr']

Init == /\ retr = {} /\ delIds = {} /\ delAddr = [a \in AddrIdx |-> -1]
        /\ mode = "live" /\ acc = {} /\ hist = <<>>
        /\ last = [c |-> [k |-> "reset", a |-> 0], res |-> "ok"]

Set(st) == /\ retr' = st.retr /\ delIds' = st.delIds /\ delAddr' = st.delAddr

Log(k, a, res) == /\ hist' = Append(hist, [k |-> k, a |-> a])
                  /\ last' = [c |-> [k |-> k, a |-> a], res |-> res]

StoreOk(i) == LET e == Ev(i) IN
    /\ Reasons(St, e) = {}
    /\ Set(PostStore(St, e))
    /\ acc' = (IF e.kind = 5 THEN acc \cup {i} ELSE acc)
    /\ mode' = "live"
    /\ Log("store", i, "ok")

StoreFail(i, r) == LET e == Ev(i) IN
    /\ r \in Reasons(St, e)
    /\ UNCHANGED <<retr, delIds, delAddr, acc>>
    /\ mode' = "live"
    /\ Log("store", i, r)

RemoveEv(i) == /\ Set(PostRemove(St, i)) /\ UNCHANGED acc /\ mode' = "live" /\ Log("remove", i, "ok")
VanishAu(a) == /\ Set(PostVanish(St, a)) /\ UNCHANGED acc /\ mode' = "live" /\ Log("vanish", a, "ok")
Reopen      == /\ UNCHANGED <<retr, delIds, delAddr, acc>> /\ mode' = "reopened" /\ Log("reopen", 0, "ok")
Rebuild     == /\ UNCHANGED <<retr, delIds, delAddr, acc>> /\ mode' = "rebuilt"  /\ Log("rebuild", 0, "ok")

Labels == {"dup", "deleted", "replaced", "invalid_delete"}

Next == \/ \E i \in Ids : StoreOk(i)
        \/ \E i \in Ids, r \in Labels : StoreFail(i, r)
        \/ \E i \in Ids : RemoveEv(i)
        \/ \E a \in Authors : VanishAu(a)
        \/ Reopen
        \/ Rebuild

Spec == Init /\ [][Next]_vars

(* ------------------------------ design-level invariants ------------------------------ *)
TypeOK == /\ retr \subseteq Ids /\ delIds \subseteq AllIds
          /\ \A a \in AddrIdx : delAddr[a] >= -1

AtMostOnePerAddress == \A a \in AddrIdx : Cardinality(Holders(retr, a)) <= 1

DeletedNeverRetrievable ==
    \A x \in retr : x \notin delIds /\ ~AddrCovered(St, Ev(x)) /\ ~Covered(acc, Ev(x))

EphemeralNeverRetrievable == \A x \in retr : ~IsEph(Ev(x).kind)

(* ------------------------------ action properties ------------------------------------ *)
MarkersMonotone ==
    [][delIds \subseteq delIds' /\ \A a \in AddrIdx : delAddr'[a] >= delAddr[a]]_vars

(* every clause holds on every transition of the generative form *)
Call == last'.c
Res  == last'.res
P_C04 == [][C04_StaysUntil(St, Call, Res, StP)]_vars
P_C09 == [][C09(St, Call, Res, StP)]_vars
P_C10 == [][C10(St, Call, Res, StP)]_vars
P_C11 == [][C11(St, Call, Res, StP, acc, acc')]_vars
P_C12 == [][C12(St, Call, Res, StP)]_vars
P_C16 == [][C16(St, Call, Res, StP)]_vars
P_C18 == [][C18(St, Call, Res, StP)]_vars
P_Frame == [][Frame(St, Call, Res, StP)]_vars
P_Acc == [][acc' = AccNext(acc, Call, Res)]_vars

(* ------------------------------ edge cover -------------------------------------------- *)
(* One line per generated transition: a shortest history to the source state followed by  *)
(* the action (TLC evaluates the action constraint for every successor it generates).     *)
EdgePrint == PrintT(<<"EDGE", ToJson([r |-> last'.res, h |-> hist'])>>)
=============================================================================
