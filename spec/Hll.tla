-------------------------------- MODULE Hll --------------------------------
(***************************************************************************)
(* HyperLogLog sketches as a join-semilattice - generative form (C20).      *)
(*                                                                          *)
(* State: NS named sketches `sk` and, as a ghost, the SET of abstract       *)
(* elements `els` each of them is the sketch of.  One action per public     *)
(* call of Hll8:                                                            *)
(*    Add(s,e)        add_element with an accepted offset (0..23)           *)
(*    AddRejected(s)  add_element with an offset >= 24: Err, nothing moves  *)
(*    Merge(s,t)      sk[s] += sk[t]         (t = s allowed)                *)
(*    RoundTrip(s)    sk[s] := from_hex_string(sk[s].to_hex_string())       *)
(*    ImportBad(s,c)  from_hex_string of a malformed string of class c:     *)
(*                    Err, nothing moves                                    *)
(*    Estimate(s)     estimate_count: returns; 0 for the empty sketch; the  *)
(*                    outcome is determined by the REGISTERS alone          *)
(*    Clear(s)        clear(): the sketch becomes the empty sketch and from *)
(*                    then on behaves exactly like Hll8::new()              *)
(*                                                                          *)
(* TLC checks (MC_Hll*.cfg) the lattice laws of C20 as invariants - with    *)
(* AllRegs = TRUE every law is evaluated with one argument taken from the   *)
(* reachable state and the others ranging over EVERY register state / every *)
(* element set of the instance, so that all pairs and triples are covered - *)
(* and as action properties.  Gen_Hll*.cfg turns the module into a          *)
(* generator: the edge cover of the state graph, one behaviour per          *)
(* transition, each step carrying the register state the specification      *)
(* expects afterwards (`exp`); the driver replays them into the real Hll8.  *)
(*                                                                          *)
(* `hist` and `last` are hidden behind the VIEW.                            *)
(***************************************************************************)
EXTENDS HllDefs, Json

CONSTANTS NS,        \* number of sketches
          AllRegs    \* TRUE: laws quantify over all register states; FALSE: over the sketches of the state

Names == 1..NS

VARIABLES sk, els, hist, last

vars    == <<sk, els, hist, last>>
View    == <<sk, els>>
GenView == sk

Tup(r) == [k \in 1..M |-> r[k - 1]]          \* register vector as a tuple (JSON array)

Init == /\ sk = [s \in Names |-> Empty]
        /\ els = [s \in Names |-> {}]
        /\ hist = <<>>
        /\ last = [op |-> "reset", s |-> 0, t |-> 0, i |-> 0, v |-> 0, c |-> "", res |-> "ok"]

(* the call is logged together with the expected outcome and the expected registers of the target *)
Log(op, s, t, i, v, c, res) ==
    LET rec == [op |-> op, s |-> s, t |-> t, i |-> i, v |-> v, c |-> c, res |-> res]
    IN  /\ last' = rec
        /\ hist' = Append(hist, rec @@ [exp |-> Tup(sk'[s])])

Add(s, e) ==
    /\ sk'  = [sk  EXCEPT ![s] = AddE(@, e)]
    /\ els' = [els EXCEPT ![s] = @ \cup {e}]
    /\ Log("add", s, 0, e[1], e[2], "", "ok")

AddRejected(s) ==
    /\ UNCHANGED <<sk, els>>
    /\ Log("addrej", s, 0, 0, 0, "", "err")

Merge(s, t) ==
    /\ sk'  = [sk  EXCEPT ![s] = MergeR(@, sk[t])]
    /\ els' = [els EXCEPT ![s] = @ \cup els[t]]
    /\ Log("merge", s, t, 0, 0, "", "ok")

RoundTrip(s) ==
    LET h == Export(sk[s]) IN
    /\ sk' = [sk EXCEPT ![s] = IF WellFormed(h) THEN Import(h) ELSE @]
    /\ UNCHANGED els
    /\ Log("rt", s, 0, 0, 0, "", ImportResult(h))

(* malformed strings, derived from the export of the sketch: wrong length, or a character that *)
(* is not a hex digit at position k (the driver sweeps k over every position of the real       *)
(* 512-character string and the character over every non-hex ASCII character)                  *)
BadClasses == {"short", "long", "empty", "double", "badhi", "badlo"}
Mutate(h, c, k) ==
    CASE c = "short"  -> SubSeq(h, 1, Len(h) - 1)
      [] c = "long"   -> Append(h, 0)
      [] c = "empty"  -> <<>>
      [] c = "double" -> h \o h
      [] c = "badhi"  -> [h EXCEPT ![2 * k + 1] = BadDigit]
      [] c = "badlo"  -> [h EXCEPT ![2 * k + 2] = BadDigit]

ImportBad(s, c) ==
    /\ \A k \in Idx : ImportResult(Mutate(Export(sk[s]), c, k)) = "err"
    /\ UNCHANGED <<sk, els>>
    /\ Log("impbad", s, 0, 0, 0, c, "err")

(* The estimate is a function of the register state and of nothing else (no history, no    *)
(* cached counters): the expected outcome is computed from sk[s] only.  That "zero" is also *)
(* "no elements" is the invariant EmptyIffNoElements.  The conformance driver checks the    *)
(* functional dependence after EVERY step of every behaviour: the live sketch and a fresh   *)
(* sketch imported from the live sketch's export have the same registers                    *)
(* (ExportImportIdentity), so they must estimate alike (SameRegistersSameEstimate in        *)
(* HllDefs, judged by Trace_Hll and by the driver's verdict).                               *)
Estimate(s) ==
    /\ UNCHANGED <<sk, els>>
    /\ Log("est", s, 0, 0, 0, "", IF sk[s] = Empty THEN "zero" ELSE "count")

(* clear(): back to the initial value of the sketch - registers AND the set it stands for.  *)
(* Because the state after clearing every sketch IS the initial state (AllClearedIsInit),   *)
(* any behaviour of this specification may follow: the driver composes                      *)
(* "behaviour ; Clear of every sketch ; behaviour" from the edge cover (reuse after clear). *)
Clear(s) ==
    /\ sk'  = [sk  EXCEPT ![s] = Empty]
    /\ els' = [els EXCEPT ![s] = {}]
    /\ Log("clear", s, 0, 0, 0, "", "ok")

Next == \/ \E s \in Names, e \in Elems : Add(s, e)
        \/ \E s \in Names : AddRejected(s)
        \/ \E s \in Names, t \in Names : Merge(s, t)
        \/ \E s \in Names : RoundTrip(s)
        \/ \E s \in Names, c \in BadClasses : ImportBad(s, c)
        \/ \E s \in Names : Estimate(s)
        \/ \E s \in Names : Clear(s)

Spec == Init /\ [][Next]_vars

(* ------------------------------- invariants -------------------------------- *)
TypeOK == /\ sk \in [Names -> Regs]
          /\ els \in [Names -> SUBSET Elems]

(* "the sketch of a union of element sets equals the merge of their sketches": every sketch *)
(* IS the sketch of the set of elements that went into it, through adds and merges alike     *)
SketchOfUnion == \A s \in Names : sk[s] = SketchOf(els[s])

EmptyIffNoElements == \A s \in Names : (sk[s] = Empty) <=> (els[s] = {})

(* a state in which every sketch is empty is the initial state: nothing else is remembered *)
AllClearedIsInit == (\A s \in Names : sk[s] = Empty) =>
                        (sk = [s \in Names |-> Empty] /\ els = [s \in Names |-> {}])

Others    == IF AllRegs THEN Regs ELSE {sk[t] : t \in Names}
OtherSets == IF AllRegs THEN SUBSET Elems ELSE {els[t] : t \in Names}

MergeIdempotent  == \A s \in Names : MergeR(sk[s], sk[s]) = sk[s]
MergeCommutative == \A s \in Names : \A q \in Others : MergeR(sk[s], q) = MergeR(q, sk[s])
MergeAssociative == \A s \in Names : \A q \in Others : \A p \in Others :
                        MergeR(MergeR(sk[s], q), p) = MergeR(sk[s], MergeR(q, p))
MergeIsJoin      == \A s \in Names : \A q \in Others :              \* least upper bound
                        /\ Leq(sk[s], MergeR(sk[s], q)) /\ Leq(q, MergeR(sk[s], q))
                        /\ (Leq(q, sk[s]) => MergeR(sk[s], q) = sk[s])
AddIdempotent    == \A s \in Names : \A e \in Elems : AddE(AddE(sk[s], e), e) = AddE(sk[s], e)
AddOrderIndependent == \A s \in Names : \A e \in Elems : \A f \in Elems :
                        AddE(AddE(sk[s], e), f) = AddE(AddE(sk[s], f), e)
AddIsMergeOfSingleton == \A s \in Names : \A e \in Elems : AddE(sk[s], e) = MergeR(sk[s], SketchOf({e}))
UnionLaw         == \A s \in Names : \A T \in OtherSets :
                        SketchOf(els[s] \cup T) = MergeR(sk[s], SketchOf(T))
ExportImportIdentity == \A s \in Names : LET h == Export(sk[s]) IN WellFormed(h) /\ Import(h) = sk[s]
MalformedRefused == \A s \in Names : \A c \in BadClasses : \A k \in Idx :
                        ~WellFormed(Mutate(Export(sk[s]), c, k))

(* every register VALUE of the real type survives the two-digit form (checked once) *)
ByteRoundTrip == \A v \in 0..255 : 16 * (v \div 16) + (v % 16) = v /\ v \div 16 \in 0..15

(* --------------------------- action properties ----------------------------- *)
Monotone   == [][last'.op # "clear" => \A s \in Names : Leq(sk[s], sk'[s])]_vars   \* registers never decrease, except by clear
ClearedIsNew == [][last'.op = "clear" => (sk'[last'.s] = Empty /\ els'[last'.s] = {})]_vars
ReAddIsNoOp == [][\A s \in Names : (last'.op = "add" /\ els'[s] = els[s]) => sk'[s] = sk[s]]_vars
OnlyTarget == [][\A s \in Names : s # last'.s => (sk'[s] = sk[s] /\ els'[s] = els[s])]_vars
RefusalsChangeNothing == [][last'.res = "err" => (sk' = sk /\ els' = els)]_vars
ReadsChangeNothing == [][last'.op \in {"est", "rt"} => (sk' = sk /\ els' = els)]_vars
MergeStep  == [][last'.op = "merge" =>
                   sk'[last'.s] = SketchOf(els[last'.s] \cup els[last'.t])]_vars

(* ------------------------------- generation -------------------------------- *)
(* One line per generated transition: a shortest behaviour to the source state followed by *)
(* the action, with the expected registers of the target after every step.                 *)
EdgePrint == PrintT(<<"CASE", ToJson(hist')>>)
=============================================================================
