---------------------------- MODULE PocketRebuild ----------------------------
(***************************************************************************)
(* Step model of Store::rebuild with a kill at every step (beyond the      *)
(* listed properties; DESIGN 11.8).  One action per yield point            *)
(* `rebuild.*` of pocket-db/src/lib.rs.  The four durable pieces are       *)
(* abstracted by what they hold with respect to the complete state S the   *)
(* store had when rebuild was called:                                      *)
(*   mm  event.map        S | none | fresh | part | full                   *)
(*   mi  lmdb             S | none | fresh | ev | evdel | evdelna | all    *)
(*   bm  event.map.bak    old | none | S      (old = a previous backup)    *)
(*   bi  lmdb.bak         old | none | S                                   *)
(* flags says what S contains (events, id markers, address markers, extra  *)
(* table rows): what a reopen shows of a half-copied store depends on it.  *)
(*                                                                         *)
(* Recoverable (invariant, holds): at every instant some map piece and     *)
(* some index piece among the four together hold S.                        *)
(* Reopen(..) is what Store::new on the directory shows after a kill - the *)
(* code has no recovery for an interrupted rebuild, so between             *)
(* `rebuild.mapmoved` and `rebuild.extra` a restarted process silently     *)
(* runs on an empty / partial / dangling store (named deviation, reported  *)
(* as LOSS lines; not a listed property - rebuild is an `unsafe` offline   *)
(* operation).                                                             *)
(***************************************************************************)
EXTENDS Naturals, Sequences, FiniteSets, TLC, Json

VARIABLES pc, mm, mi, bm, bi, flags
rvars == <<pc, mm, mi, bm, bi, flags>>

Bool01 == {0, 1}
Flags == [ev : Bool01, del : Bool01, naddr : Bool01, extra : Bool01]
Order == <<"start", "closed", "bakremoved", "mapmoved", "lmdbmoved", "newopened", "copiedone", "precommit", "copied",
           "deleted", "naddr", "extra", "synced", "returned">>

RInit(f, hadBackup) == /\ pc = "start" /\ mm = "S" /\ mi = "S" /\ flags = f
                       /\ bm = (IF hadBackup THEN "old" ELSE "none") /\ bi = (IF hadBackup THEN "old" ELSE "none")

Closed     == pc = "start"      /\ pc' = "closed"     /\ UNCHANGED <<mm, mi, bm, bi, flags>>
BakRemoved == pc = "closed"     /\ pc' = "bakremoved" /\ bm' = "none" /\ bi' = "none" /\ UNCHANGED <<mm, mi, flags>>
MapMoved   == pc = "bakremoved" /\ pc' = "mapmoved"   /\ bm' = "S" /\ mm' = "none" /\ UNCHANGED <<mi, bi, flags>>
LmdbMoved  == pc = "mapmoved"   /\ pc' = "lmdbmoved"  /\ bi' = "S" /\ mi' = "none" /\ UNCHANGED <<mm, bm, flags>>
NewOpened  == pc = "lmdbmoved"  /\ pc' = "newopened"  /\ mm' = "fresh" /\ mi' = "fresh" /\ UNCHANGED <<bm, bi, flags>>
\* the copy loop: event bytes are appended to the new map, the index entries wait in an uncommitted transaction
CopiedOne  == pc \in {"newopened", "copiedone"} /\ flags.ev = 1 /\ pc' = "copiedone" /\ mm' = "part" /\ UNCHANGED <<mi, bm, bi, flags>>
PreCommit  == pc \in {"newopened", "copiedone"} /\ (pc = "newopened" => flags.ev = 0) /\ pc' = "precommit"
              /\ mm' = (IF flags.ev = 1 THEN "full" ELSE "fresh") /\ UNCHANGED <<mi, bm, bi, flags>>
Copied     == pc = "precommit"  /\ pc' = "copied"  /\ mi' = "ev"      /\ UNCHANGED <<mm, bm, bi, flags>>
Deleted    == pc = "copied"     /\ pc' = "deleted" /\ mi' = "evdel"   /\ UNCHANGED <<mm, bm, bi, flags>>
Naddr      == pc = "deleted"    /\ pc' = "naddr"   /\ mi' = "evdelna" /\ UNCHANGED <<mm, bm, bi, flags>>
Extra      == pc = "naddr"      /\ pc' = "extra"   /\ mi' = "all"     /\ UNCHANGED <<mm, bm, bi, flags>>
Synced     == pc = "extra"      /\ pc' = "synced"   /\ UNCHANGED <<mm, mi, bm, bi, flags>>
Returned   == pc = "synced"     /\ pc' = "returned" /\ UNCHANGED <<mm, mi, bm, bi, flags>>

RNext == Closed \/ BakRemoved \/ MapMoved \/ LmdbMoved \/ NewOpened \/ CopiedOne \/ PreCommit \/ Copied \/ Deleted
         \/ Naddr \/ Extra \/ Synced \/ Returned

\* what S contains beyond a given level of the new index
Has(f, what) == \E w \in what : f[w] = 1
EmptyS(f) == ~Has(f, {"ev", "del", "naddr", "extra"})

\* what a process that is restarted on the directory sees (Store::new creates whatever is missing)
Reopen(m, i, f) ==
    CASE i = "S" /\ m = "S"        -> "same"
      [] i = "S"                   -> IF f.ev = 1 THEN "corrupt" ELSE "same"      \* index entries point into a fresh map
      [] i \in {"none", "fresh"}   -> IF EmptyS(f) THEN "same" ELSE "empty"
      [] i = "ev"                  -> IF ~Has(f, {"del", "naddr", "extra"}) THEN "same" ELSE IF f.ev = 1 THEN "partial" ELSE "empty"
      [] i = "evdel"               -> IF ~Has(f, {"naddr", "extra"}) THEN "same" ELSE IF Has(f, {"ev", "del"}) THEN "partial" ELSE "empty"
      [] i = "evdelna"             -> IF f.extra = 0 THEN "same" ELSE IF Has(f, {"ev", "del", "naddr"}) THEN "partial" ELSE "empty"
      [] OTHER                     -> "same"

\* some map piece and some index piece together hold S
Recoverable == \/ (mm = "S" /\ mi = "S") \/ (bm = "S" /\ mi = "S") \/ (bm = "S" /\ bi = "S")
               \/ (mm = "full" /\ mi = "all") \/ (EmptyS(flags))
\* where the complete state is to be found at this step: in place, or in the backup pieces (map.bak wins over map, lmdb.bak over lmdb)
InPlace == pc \in {"start", "closed", "bakremoved"}

RTypeOK == /\ pc \in {Order[k] : k \in 1..Len(Order)} /\ flags \in Flags
           /\ mm \in {"S", "none", "fresh", "part", "full"} /\ mi \in {"S", "none", "fresh", "ev", "evdel", "evdelna", "all"}
           /\ bm \in {"old", "none", "S"} /\ bi \in {"old", "none", "S"}
=============================================================================
