----------------------------- MODULE PocketQuery -----------------------------
(***************************************************************************)
(* NIP-01 match predicate and the meaning of a query answer (C05, C06,      *)
(* C17).  Variable-free; events come from the universe of PocketStoreDefs,  *)
(* filters are records over the universe's interned values:                 *)
(*   [ids, authors, kinds : sequences; tags : sequence of [name, vals];     *)
(*    since, until, limit : Int (INF = not set); screen, allow : Int]       *)
(***************************************************************************)
EXTENDS PocketStoreDefs

ToSet(s) == {s[i] : i \in DOMAIN s}

TagConOK(c, e) == \E t \in DOMAIN e.tags :
                      /\ Len(e.tags[t]) >= 2
                      /\ e.tags[t][1] = c.name
                      /\ e.tags[t][2] \in ToSet(c.vals)

Matches(f, e) ==
    /\ (Len(f.ids) = 0     \/ e.id   \in ToSet(f.ids))
    /\ (Len(f.authors) = 0 \/ e.au   \in ToSet(f.authors))
    /\ (Len(f.kinds) = 0   \/ e.kind \in ToSet(f.kinds))
    /\ f.since <= e.ts
    /\ e.ts <= f.until
    /\ \A j \in DOMAIN f.tags : TagConOK(f.tags[j], e)

(* the screening functions of the harness (vh::screen_code), by number *)
Screen(n, x) == CASE n = 0 -> "match"
                  [] n = 1 -> IF x % 2 = 1 THEN "mismatch" ELSE "match"
                  [] n = 2 -> IF x % 2 = 1 THEN "redacted" ELSE "match"
                  [] n = 3 -> "redacted"
                  [] OTHER -> IF x % 3 = 0 THEN "redacted" ELSE IF x % 3 = 1 THEN "mismatch" ELSE "match"

Answer(S, f) == {x \in S : Matches(f, Ev(x)) /\ Screen(f.screen, x) = "match"}

IsScrape(f) == Len(f.ids) = 0 /\ Len(f.authors) = 0 /\ Len(f.tags) = 0

(* Is a scrape covered by the caller's allowances for EVERY "now" in the logged interval?    *)
(* allow: 0 = scraping allowed; 1 = nothing; 2 = limit <= 2 allowed; 3 = window < 100 s      *)
MinOf(a, b) == IF a <= b THEN a ELSE b
CoveredAt(f, now) ==
    \/ f.allow = 0
    \/ f.allow = 1 /\ f.limit <= 0
    \/ f.allow = 2 /\ f.limit <= 2
    \/ f.allow = 3 /\ (f.limit <= 0 \/ (MinOf(f.until, now) >= f.since /\ MinOf(f.until, now) - f.since < 100))
Inverted(f, now) == MinOf(f.until, now) < f.since
RefusalPermitted(f, q) ==
    /\ IsScrape(f)
    /\ \/ ~CoveredAt(f, q.now[1]) \/ ~CoveredAt(f, q.now[2])
       \/ Inverted(f, q.now[1]) \/ Inverted(f, q.now[2])    \* empty windows: left free (DESIGN 5)

Sorted(out) == \A i, j \in DOMAIN out : i < j => Ev(out[i]).ts >= Ev(out[j]).ts

(* the names of the conditions of QueryOK that fail for observed result q of filter f on S *)
QueryViol(S, f, q) ==
    IF q.r = "scraper" THEN (IF RefusalPermitted(f, q) THEN {} ELSE {"refused"})
    ELSE IF q.r # "ok" THEN {"failed"}
    ELSE LET out == q.out
             os  == ToSet(out)
             ans == Answer(S, f)
         IN  IF ~(os \subseteq Ids) THEN {"foreign"}     \* an event that was never stored, or altered bytes
             ELSE
                  (IF Cardinality(os) # Len(out) THEN {"duplicate"} ELSE {})
             \cup (IF ~(os \subseteq ans) THEN {"extra"} ELSE {})
             \cup (IF ~Sorted(out) THEN {"order"} ELSE {})
             \cup (IF Cardinality(ans) <= f.limit
                   THEN (IF ans \subseteq os THEN {} ELSE {"missing"})
                   ELSE (IF Len(out) = f.limit
                            /\ \A x \in ans \ os, y \in os \cap ans : Ev(x).ts <= Ev(y).ts
                         THEN {} ELSE {"limit"}))
             \cup (IF q.red = 1 /\ ~\E x \in S : Matches(f, Ev(x)) /\ Screen(f.screen, x) = "redacted"
                   THEN {"redacted"} ELSE {})

QueryOK(S, f, q) == QueryViol(S, f, q) = {}
=============================================================================
