SPECIFICATION Spec
CHECK_DEADLOCK FALSE
CONSTANT Alpha <- AlphaQuick
CONSTANT Alpha3 <- NoAlpha
CONSTANT TamperEmit <- EmitQuick
CONSTANT TamperWide = FALSE
INVARIANT TypeOK
INVARIANT TamperIsChange
INVARIANT AcceptIffUntampered
INVARIANT DecodeInverts
INVARIANT CanonIsClean
INVARIANT AltSound
INVARIANT Emit
