------------------------------ MODULE HllDefs ------------------------------
(***************************************************************************)
(* Variable-free vocabulary of the HyperLogLog sketch of pocket-types       *)
(* (Hll8, property C20; DESIGN.md 3.8).                                     *)
(*                                                                          *)
(* A sketch is a vector of M registers holding values 0..MaxV.  The real    *)
(* type has M = 256, MaxV = 255; TLC model-checks the lattice laws on a     *)
(* small instance (MC_Hll*.cfg) and judges recorded executions of the real  *)
(* code at full size (Trace_Hll.cfg).  Both Hll.tla (generative form) and   *)
(* Trace_Hll.tla (judge) extend this module, so the operators proved on     *)
(* the design and those used on the implementation are the same.            *)
(*                                                                          *)
(* An ELEMENT is a 32-byte string; with a byte offset o in 0..23 it names   *)
(* the register IdxOf(el, o) (the byte at the offset) and the rank          *)
(* RhoOf(el, o) = 1 + number of leading zero bits after that byte (the      *)
(* position of the first 1 bit, HyperLogLog's rho).  Abstractly an element  *)
(* is the pair <<index, rho>>, rho >= 1.                                    *)
(***************************************************************************)
EXTENDS Integers, Sequences, FiniteSets, TLC

CONSTANTS M,        \* number of registers
          MaxV      \* largest register value

Idx   == 0..(M - 1)
Val   == 0..MaxV
Regs  == [Idx -> Val]
Empty == [i \in Idx |-> 0]
Elems == Idx \X (1..MaxV)               \* abstract elements <<index, rho>>

Hi(a, b) == IF a >= b THEN a ELSE b

(* --------------------------- the semilattice ----------------------------- *)
AddR(r, i, rho) == [r EXCEPT ![i] = Hi(@, rho)]
AddE(r, e)      == AddR(r, e[1], e[2])
MergeR(r, q)    == [i \in Idx |-> Hi(r[i], q[i])]
Leq(r, q)       == \A i \in Idx : r[i] <= q[i]

(* the sketch of a SET of elements: per register the largest rho, 0 if none *)
SketchOf(S) == [i \in Idx |->
                  LET vs == {e[2] : e \in {x \in S : x[1] = i}}
                  IN  IF vs = {} THEN 0 ELSE CHOOSE v \in vs : \A w \in vs : w <= v]

(* ------------------------------ hex form --------------------------------- *)
(* Two hex digits per register, high nibble first, registers in index order. *)
(* A digit is modelled by its value 0..15; anything else is "not a hex      *)
(* digit" (BadDigit).  Import is defined on well-formed strings only; every  *)
(* other string is refused.                                                  *)
BadDigit == 16
Export(r) == [k \in 1..(2 * M) |->
                LET v == r[(k - 1) \div 2] IN IF k % 2 = 1 THEN v \div 16 ELSE v % 16]
WellFormed(h) == Len(h) = 2 * M /\ \A k \in 1..Len(h) : h[k] \in 0..15
Import(h)     == [i \in Idx |-> 16 * h[2 * i + 1] + h[2 * i + 2]]
ImportResult(h) == IF WellFormed(h) THEN "ok" ELSE "err"

(* ------------------------ elements as byte strings ----------------------- *)
OffsetOK(o) == o >= 0 /\ o <= 23

LZ8(b) == IF b >= 128 THEN 0 ELSE IF b >= 64 THEN 1 ELSE IF b >= 32 THEN 2 ELSE IF b >= 16 THEN 3
          ELSE IF b >= 8 THEN 4 ELSE IF b >= 4 THEN 5 ELSE IF b >= 2 THEN 6 ELSE IF b >= 1 THEN 7 ELSE 8

IdxOf(el, o) == el[o + 1]                       \* el is a sequence of 32 bytes, 1-based

RECURSIVE ZerosFrom(_, _)
ZerosFrom(el, k) == IF k > Len(el) THEN 0
                    ELSE IF el[k] = 0 THEN 8 + ZerosFrom(el, k + 1)
                    ELSE LZ8(el[k])
RhoOf(el, o) == 1 + ZerosFrom(el, o + 2)

MaxRho(o) == 8 * (31 - o) + 1                    \* all bits after the index byte are 0

(* Register values above MaxRho(0) = 249 cannot be produced by adding elements; a register   *)
(* state is "reachable by adds" when no register exceeds it.  Export followed by import must *)
(* be the identity on (at least) these states, so their hex form must be importable; whether *)
(* import accepts the values 250..255 is left free (if it does, estimation must return).     *)
AddReachable(r) == \A i \in Idx : r[i] <= MaxRho(0)

Pow2(n) == IF n = 0 THEN 1 ELSE IF n = 1 THEN 2 ELSE IF n = 2 THEN 4 ELSE IF n = 3 THEN 8
           ELSE IF n = 4 THEN 16 ELSE IF n = 5 THEN 32 ELSE IF n = 6 THEN 64 ELSE 128

(* The concretisation used by the conformance driver: index byte ib at offset o, then   *)
(* rho-1 zero bits, then a 1 bit; every other byte is `fill` (the driver uses random    *)
(* filler, and random bits after the 1 bit - neither can matter by RhoOf / IdxOf).      *)
MkEl(ib, rho, o, fill) ==
    LET z == rho - 1                             \* leading zero bits after the index byte
        p == o + 2 + (z \div 8)                  \* 1-based position of the byte with the 1 bit
    IN  [k \in 1..32 |-> IF k = o + 1 THEN ib
                         ELSE IF k > o + 1 /\ k < p THEN 0
                         ELSE IF k = p THEN Pow2(7 - (z % 8))
                         ELSE fill]

ConcretisationLemma ==
    \A o \in 0..23 : \A rho \in 1..MaxRho(o) : \A ib \in {0, 255} : \A fill \in {1, 255} :
        LET el == MkEl(ib, rho, o, fill) IN IdxOf(el, o) = ib /\ RhoOf(el, o) = rho

(* ------------------------------ estimation ------------------------------- *)
(* Floating point is not modelled (DESIGN 9).  What C20 states about the    *)
(* estimate est of a sketch of n distinct uniformly random elements:         *)
(*   n = 0     =>  est = 0                                                   *)
(*   n >= 100  =>  |est - n| <= 0.4 n       (written over the integers)      *)
(* and that estimation RETURNS a finite count for every register state.      *)
AbsDiff(a, b) == IF a >= b THEN a - b ELSE b - a
Envelope(n, est) == /\ (n = 0 => est = 0)
                    /\ (n >= 100 => 5 * AbsDiff(est, n) <= 2 * n)
EstRange(n, top) == {e \in 0..top : Envelope(n, e)}

(* The estimate depends on the register state only: two sketches with the same registers -   *)
(* however they were obtained (adds, merges, clear, hex import) - give the same estimate, and *)
(* the all-zero state gives 0.  (r1, e1), (r2, e2) are observed (registers, estimate) pairs.  *)
SameRegistersSameEstimate(r1, e1, r2, e2) == (r1 = r2) => (e1 = e2)
EmptyEstimatesZero(r, e) == (r = Empty) => (e = 0)
=============================================================================
