----------------------------- MODULE NostrLayout -----------------------------
(***************************************************************************)
(* C19 - constructors of events, tags and filters yield faithful values or *)
(* an error, never truncation.  Integer arithmetic of the binary layouts   *)
(* (pocket-types/src/{tags,event,filter}.rs header comments):              *)
(*                                                                         *)
(*   Tags    u16 length | u16 num_tags | num_tags x u16 offset |           *)
(*           per tag: u16 count, per string: u16 len, bytes                *)
(*   Event   u32 length | kind, pad, created_at, id, pubkey, sig (144) |   *)
(*           Tags | u32 content length | content                           *)
(*   Filter  u32 length | u16 num_ids | u16 num_authors | u16 num_kinds |  *)
(*           pad, limit, since, until (32) | ids | authors | kinds | Tags  *)
(*                                                                         *)
(* A part list is described by its SHAPE only (counts and lengths, run-    *)
(* length encoded so that 65 536 tags are one group); the harness          *)
(* (layoutdrv) concretises a shape with deterministic filler bytes.        *)
(*                                                                         *)
(*   tags shape : sequence of groups [rep |-> number of equal tags,        *)
(*                 strs |-> sequence of [rep |-> number of equal strings,  *)
(*                                       len |-> byte length]]             *)
(*                                                                         *)
(* The module is a case generator (one initial state per (shape, output    *)
(* buffer length), no transitions).  `Emit` prints one CASE line per state *)
(* with the required size and the expected outcome class of the            *)
(* constructor; `Sanity` are the spec's own laws.                          *)
(***************************************************************************)
EXTENDS Integers, Sequences, FiniteSets, TLC, Json

CONSTANT Thorough        \* BOOLEAN (cfg): the larger set of shapes

VARIABLE c               \* the case: [x |-> shape, b |-> output buffer length]

-----------------------------------------------------------------------------
(* Layout arithmetic *)

U16MAX == 65535
Fits16(x) == x <= U16MAX
U16(x) == x % 65536                     \* what an `as u16` cast records

RECURSIVE SumStr(_), CntStr(_), MaxStrLen(_)
SumStr(strs)    == IF strs = <<>> THEN 0 ELSE Head(strs).rep * (2 + Head(strs).len) + SumStr(Tail(strs))
CntStr(strs)    == IF strs = <<>> THEN 0 ELSE Head(strs).rep + CntStr(Tail(strs))
MaxStrLen(strs) == IF strs = <<>> THEN 0
                   ELSE LET m == MaxStrLen(Tail(strs))
                            h == IF Head(strs).rep > 0 THEN Head(strs).len ELSE 0
                        IN  IF h > m THEN h ELSE m

TagBytes(g) == 2 + SumStr(g.strs)       \* u16 count + the strings

RECURSIVE NumTags(_), SumTags(_), MaxLen(_), MaxCnt(_)
NumTags(ts) == IF ts = <<>> THEN 0 ELSE Head(ts).rep + NumTags(Tail(ts))
SumTags(ts) == IF ts = <<>> THEN 0 ELSE Head(ts).rep * TagBytes(Head(ts)) + SumTags(Tail(ts))
MaxLen(ts)  == IF ts = <<>> THEN 0
               ELSE LET m == MaxLen(Tail(ts))
                        h == IF Head(ts).rep > 0 THEN MaxStrLen(Head(ts).strs) ELSE 0
                    IN  IF h > m THEN h ELSE m
MaxCnt(ts)  == IF ts = <<>> THEN 0
               ELSE LET m == MaxCnt(Tail(ts))
                        h == IF Head(ts).rep > 0 THEN CntStr(Head(ts).strs) ELSE 0
                    IN  IF h > m THEN h ELSE m

(* TagsSize(parts) = 4 + 2n + sum_tag (2 + sum_str (2 + len)) *)
TagsSize(ts) == 4 + 2 * NumTags(ts) + SumTags(ts)
(* offset of the last tag = the largest value written into an offset slot *)
LastOffset(ts) == IF ts = <<>> THEN 0 ELSE TagsSize(ts) - TagBytes(ts[Len(ts)])

EventSize(ts, content) == 144 + TagsSize(ts) + 4 + content
FilterSize(ni, na, nk, ts) == 32 + 32 * ni + 32 * na + 2 * nk + TagsSize(ts)

(* every value the tags layout stores in a u16 field *)
TagsFields(ts) == {TagsSize(ts), NumTags(ts), LastOffset(ts), MaxLen(ts), MaxCnt(ts)}
TagsRepresentable(ts) == \A x \in TagsFields(ts) : Fits16(x)

(* why a part list cannot be represented; the first reason that applies *)
TagsWhy(ts) == IF ~Fits16(MaxLen(ts))   THEN "tag_string_len>65535"
               ELSE IF ~Fits16(NumTags(ts)) THEN "tags_count>65535"
               ELSE IF ~Fits16(TagsSize(ts)) THEN "tags_section>65535"
               ELSE "none"

-----------------------------------------------------------------------------
(* Constructor outcomes.  "ok" = Ok(value) whose accessors return the parts; "err" = an error. *)
(* The property allows a constructor to fail on anything ("either fails or ..."); what it      *)
(* forbids is Ok for an "err" case (truncation / partial value) and a panic anywhere.          *)

Size(x) == CASE x.kind = "tags"   -> TagsSize(x.tags)
             [] x.kind = "event"  -> EventSize(x.tags, x.content)
             [] x.kind = "filter" -> FilterSize(x.nids, x.nauthors, x.nkinds, x.tags)

Why(x) == IF x.kind = "filter" /\ ~Fits16(x.nids) THEN "ids>65535"
          ELSE IF x.kind = "filter" /\ ~Fits16(x.nauthors) THEN "authors>65535"
          ELSE IF x.kind = "filter" /\ ~Fits16(x.nkinds) THEN "kinds>65535"
          ELSE TagsWhy(x.tags)

Representable(x) == Why(x) = "none"

Outcome(x, buf) == IF ~Representable(x) THEN "err"
                   ELSE IF buf < Size(x) THEN "err"            \* Err(BufferTooSmall)
                   ELSE "ok"

(* the reason reported with an "err" case: a buffer shorter than the parts need is "too small" *)
(* whether or not the parts are representable                                               *)
WhyAt(x, buf) == IF buf < Size(x) THEN "buffer_too_small" ELSE IF ~Representable(x) THEN Why(x) ELSE "none"

-----------------------------------------------------------------------------
(* Shapes *)

S(k, l) == [rep |-> k, len |-> l]
G(n, strs) == [rep |-> n, strs |-> strs]

SmallTag == {<<>>, <<S(1, 0)>>, <<S(1, 1)>>, <<S(1, 2)>>, <<S(1, 1), S(1, 0)>>, <<S(1, 0), S(1, 2)>>,
             <<S(1, 1), S(1, 2), S(1, 0)>>, <<S(3, 1)>>}
SmallGroups == {G(r, t) : r \in {1, 2}, t \in SmallTag}
SmallTags == {<<>>} \cup {<<a>> : a \in SmallGroups} \cup {<<a, b>> : a \in SmallGroups, b \in SmallGroups}
             \cup (IF Thorough THEN {<<a, b, d>> : a \in {G(1, <<>>), G(1, <<S(1, 1), S(1, 2)>>)}, b \in SmallGroups, d \in SmallGroups}
                   ELSE {})

BigLens == (65519..65537) \cup {70000, 131071, 131082} \cup (IF Thorough THEN 65500..65518 \cup {65538, 65539, 100000, 131072} ELSE {})
Name == S(1, 1)
Pair == <<S(1, 1), S(1, 2)>>

(* one string of 65 519 .. 70 000 .. bytes: alone, after a name, in the second tag, in the first of two tags *)
B1 == {<<G(1, <<S(1, l)>>)>> : l \in BigLens}
B2 == {<<G(1, <<Name, S(1, l)>>)>> : l \in BigLens}
B3 == {<<G(1, Pair), G(1, <<S(1, l)>>)>> : l \in BigLens} \cup {<<G(1, <<S(1, l)>>), G(1, Pair)>> : l \in BigLens}
(* many strings summing to 65 530 .. 65 540: 4+2+2 + 8190*(2+6) = 65 528, then one more string of x bytes *)
B4 == {<<G(1, <<S(8190, 6), S(1, x)>>)>> : x \in 0..10} \cup {<<G(1, <<S(1, x), S(8190, 6)>>)>> : x \in {3, 5, 6}}
(* many tags: 4 + 4n bytes for n empty tags (16 382 -> 65 532, 16 383 -> 65 536); 65 535 / 65 536 / 65 537 tags *)
B5 == {<<G(n, <<>>)>> : n \in {16381, 16382, 16383, 16384, 32768, 65535, 65536, 65537}}
      \cup {<<G(16381, <<>>), G(1, <<S(1, x)>>)>> : x \in 0..3}            \* 65 534 .. 65 537
(* many strings in one tag: 8 + 2k bytes for k empty strings *)
B6 == {<<G(1, <<S(k, 0)>>)>> : k \in {32763, 32764, 32765, 65535, 65536}}
      \cup {<<G(1, <<S(32762, 0), S(1, x)>>)>> : x \in 0..3}               \* 65 534 .. 65 537
(* many non-trivial tags: 4 + 11n for n tags ["a","bc"]; 5956 -> 65 520, then a tag with one string of x bytes *)
B7 == {<<G(5956, Pair), G(1, <<S(1, x)>>)>> : x \in 5..12}                 \* 65 531 .. 65 538
      \cup {<<G(1, <<S(1, x)>>), G(5956, Pair)>> : x \in {8, 9, 10}}

BigTags == B1 \cup B2 \cup B3 \cup B4 \cup B5 \cup B6 \cup B7

TagsCases == {[kind |-> "tags", tags |-> t, content |-> 0, nids |-> 0, nauthors |-> 0, nkinds |-> 0, opt |-> 0]
                : t \in SmallTags \cup BigTags}

(* events: the tags argument is a Tags value, so from_parts / new / sign_new only see representable *)
(* tags; unrepresentable ones reach the event constructor only through the JSON parser              *)
EvSmall  == {<<>>, <<G(1, <<>>)>>, <<G(1, Pair)>>, <<G(1, <<>>), G(1, Pair)>>, <<G(2, <<S(1, 0)>>), G(1, <<S(3, 1)>>)>>}
EvTags   == EvSmall \cup {t \in B1 \cup B4 \cup B5 \cup B7 : TagsSize(t) \in 65530..65540}
            \cup {<<G(1, <<S(1, 70000)>>)>>, <<G(65536, <<>>)>>, <<G(1, <<S(1, 131082)>>)>>}
Contents == {0, 1, 2, 65535, 65536, 70000}
EventCases == UNION {{[kind |-> "event", tags |-> t, content |-> n, nids |-> 0, nauthors |-> 0, nkinds |-> 0, opt |-> 0]
                         : n \in (IF TagsSize(t) < 1000 \/ Thorough THEN Contents ELSE {1, 65536})} : t \in EvTags}

(* filters: 65 535 / 65 536 ids, authors, kinds in every combination; opt = which of since / until / limit are set *)
Cnt == {0, 1, 2, 65535, 65536}
FlSmall == {<<>>, <<G(1, Pair)>>, <<G(1, <<Name>>), G(1, <<Name, S(1, 0), S(1, 2)>>)>>}
FlBig   == {<<G(1, <<Name, S(1, l)>>)>> : l \in {65521, 65522, 65523, 70000}}                     \* 65 534, 65 535, 65 536, ..
           \cup {<<G(1, <<Name, S(8190, 6), S(1, x)>>)>> : x \in {0, 1, 2, 3}}                     \* 65 533 .. 65 536
(* a second (small) tag field after a first one that almost fills the section: 20 + l (+2) bytes *)
FlBig2  == {<<G(1, <<Name, S(1, l)>>), G(1, <<Name>>)>> : l \in 65508..65520}
           \cup {<<G(1, <<Name, S(1, l)>>), G(1, <<Name, S(1, 0)>>)>> : l \in 65508..65520}
           \cup {<<G(1, <<Name>>), G(1, <<Name, S(1, l)>>)>> : l \in 65512..65518}
FilterCases ==
    {[kind |-> "filter", tags |-> t, content |-> 0, nids |-> i, nauthors |-> a, nkinds |-> k, opt |-> o]
       : t \in FlSmall, i \in {0, 1, 2}, a \in {0, 1, 2}, k \in {0, 1, 2}, o \in 0..3}
    \cup {[kind |-> "filter", tags |-> t, content |-> 0, nids |-> i, nauthors |-> a, nkinds |-> k, opt |-> 1]
            : t \in {<<>>, <<G(1, Pair)>>}, i \in Cnt, a \in Cnt, k \in Cnt}
    \cup {[kind |-> "filter", tags |-> t, content |-> 0, nids |-> i, nauthors |-> 0, nkinds |-> k, opt |-> 2]
            : t \in FlBig \cup FlBig2, i \in {0, 1}, k \in {0, 2}}
    \cup (IF Thorough THEN {[kind |-> "filter", tags |-> <<>>, content |-> 0, nids |-> i, nauthors |-> a, nkinds |-> k, opt |-> 3]
                              : i \in {65534, 65537}, a \in {0, 65534, 65537}, k \in {0, 65534, 65537, 131072}}
          ELSE {})

Cases == TagsCases \cup EventCases \cup FilterCases

(* Output buffer lengths to try for a shape *)
Special == {0, 1, 2, 3, 4, 31, 32, 143, 144, 151, 152}
K == 16
Bufs(x) ==
    LET n == Size(x)
        around(k) == {b \in (n - k)..(n + k) : b >= 0}
    IN  IF ~Representable(x)
        THEN {b \in {n - 1, n, n + 1, n + 4096, 65535, 65536, U16(n), U16(n) + 1} : b >= 0}     \* incl. the truncated length
        ELSE IF n <= 4096 THEN Special \cup around(K) \cup {n + 4096} \cup (IF Thorough THEN 0..n ELSE {})   \* thorough: EVERY shorter length
        ELSE {0, 4, 152} \cup around(IF Thorough THEN K ELSE 1) \cup {b \in {n - K, n + K, n + 4096, U16(n + 1)} : b >= 0}

Init == \E x \in Cases : \E b \in Bufs(x) : c = [x |-> x, b |-> b]
Next == FALSE /\ UNCHANGED c
Spec == Init /\ [][Next]_c

-----------------------------------------------------------------------------
(* The spec's own laws, model-checked on every (shape, buffer length) *)

X == c.x
B == c.b

(* for every Ok case every stored field fits its length field, i.e. nothing is truncated, *)
(* and the value fits the buffer                                                           *)
OkIsFaithful ==
    Outcome(X, B) = "ok" =>
        /\ \A v \in TagsFields(X.tags) : U16(v) = v
        /\ U16(X.nids) = X.nids /\ U16(X.nauthors) = X.nauthors /\ U16(X.nkinds) = X.nkinds
        /\ Size(X) <= B
        /\ Size(X) < 2147483647                       \* u32 length fields (and TLC's integers)
(* every Err is necessary: the buffer is too small or some u16 field really would be truncated *)
ErrIsNecessary ==
    Outcome(X, B) = "err" =>
        \/ B < Size(X)
        \/ \E v \in TagsFields(X.tags) : U16(v) # v
        \/ U16(X.nids) # X.nids \/ U16(X.nauthors) # X.nauthors \/ U16(X.nkinds) # X.nkinds
(* the limits on tags collapse into the section size: too many tags / strings or too long a *)
(* string always makes the section too large                                                 *)
SizeSubsumes ==
    (~Fits16(NumTags(X.tags)) \/ ~Fits16(MaxLen(X.tags)) \/ ~Fits16(MaxCnt(X.tags)) \/ ~Fits16(LastOffset(X.tags)))
        => ~Fits16(TagsSize(X.tags))
(* a larger buffer never turns Ok into Err; the owned constructors (buffer = Size) are Ok iff representable *)
BufMonotone ==
    /\ Outcome(X, B) = "ok" => Outcome(X, B + 1) = "ok"
    /\ Outcome(X, Size(X)) = (IF Representable(X) THEN "ok" ELSE "err")
    /\ Size(X) > 0 => Outcome(X, Size(X) - 1) = "err"
    /\ WhyAt(X, B) = "none" <=> Outcome(X, B) = "ok"

Sanity == OkIsFaithful /\ ErrIsNecessary /\ SizeSubsumes /\ BufMonotone

(* both sides of every boundary are in the case set (vacuity guard for the generator) *)
MinSizes == /\ TagsSize(<<>>) = 4
            /\ EventSize(<<>>, 0) = 152
            /\ FilterSize(0, 0, 0, <<>>) = 36
            /\ \E x \in TagsCases : TagsSize(x.tags) = 65535
            /\ \E x \in TagsCases : TagsSize(x.tags) = 65536
            /\ \E x \in TagsCases : NumTags(x.tags) = 65536
            /\ \E x \in TagsCases : MaxLen(x.tags) = 70000
            /\ \E x \in FilterCases : x.nids = 65535 /\ x.nauthors = 65536
ASSUME MinSizes

(* Numerals of an event text.  The kind member denotes a u16: a numeral that does not fit is refused by the parser, never  *)
(* reduced modulo 65 536 (C19: "refused rather than silently truncated"); both sides of the boundary are probed, and the   *)
(* five-digit numerals above it separately from the six- and seven-digit ones (a digit-count bound is not a range check).  *)
KindProbes == <<0, 9, 65535, 65536, 65537, 65539, 65540, 70000, 99999, 100000, 131071, 131072, 1000000>>
NumeralOutcome(v, limit) == IF v <= limit THEN "ok" ELSE "err"
KProbes == [j \in 1..Len(KindProbes) |-> [v |-> KindProbes[j], exp |-> NumeralOutcome(KindProbes[j], U16MAX)]]
ASSUME /\ \E j \in 1..Len(KProbes) : KProbes[j].exp = "ok" /\ KProbes[j].v = U16MAX
       /\ \E j \in 1..Len(KProbes) : KProbes[j].exp = "err" /\ KProbes[j].v = U16MAX + 1

Emit == PrintT(<<"CASE", ToJson([kind |-> X.kind, kprobes |-> KProbes, tags |-> X.tags, content |-> X.content,
                                 nids |-> X.nids, nauthors |-> X.nauthors, nkinds |-> X.nkinds, opt |-> X.opt,
                                 size |-> Size(X), tsize |-> TagsSize(X.tags),
                                 fits |-> Representable(X), tagsfit |-> TagsRepresentable(X.tags), why |-> Why(X),
                                 owned |-> Outcome(X, Size(X)),
                                 buf |-> B, exp |-> Outcome(X, B), whyat |-> WhyAt(X, B)])>>)
=============================================================================
