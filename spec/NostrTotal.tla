------------------------------ MODULE NostrTotal ------------------------------
(***************************************************************************)
(* C03 - every parsing entry point is total and memory-safe on arbitrary    *)
(* bytes and output-buffer sizes.                                           *)
(*                                                                          *)
(* The inputs of the property are "all byte strings".  The model spans      *)
(* them by CORRUPTION OPERATORS applied to the valid texts of the document  *)
(* models (events, filters, tag arrays, strings, hex, addresses) crossed    *)
(* with BYTE CLASSES and OUTPUT-BUFFER CLASSES; TLC enumerates every        *)
(* combination (one initial state each) and the harness sweeps each         *)
(* abstract class over ALL its concrete members (every position of every    *)
(* base text, every byte of the class, every buffer length of the class).   *)
(*                                                                          *)
(* The oracle is the property's own, deliberately weak one: every call      *)
(* returns an error or a value; never panics, aborts, hangs, writes         *)
(* outside the output buffer; consumed <= input length; a value is          *)
(* structurally well-formed (every accessor / iterator / serializer is      *)
(* total on it).  Outcome(c) states which observations are acceptable.      *)
(***************************************************************************)
EXTENDS Integers, Sequences, FiniteSets, TLC, Json

Entries == {"event", "filter", "tags", "unescape", "hex_id", "hex_pubkey", "hex_sig", "hll", "addr"}

(* how a valid base text is turned into an arbitrary byte string *)
Ops == {"valid",            \* the base text itself
        "prefix",           \* every proper prefix
        "subst",            \* one byte replaced by a member of the byte class, at every position
        "insert",           \* one byte of the class inserted at every position
        "delete",           \* one byte removed at every position
        "dup",              \* every structural token duplicated
        "swap",             \* adjacent structural tokens swapped
        "subst2",           \* two bytes replaced at once (seed-sampled position pairs)
        "splice",           \* a window of the text overwritten by a window taken from elsewhere in it
        "tail",             \* arbitrary bytes of the class appended after the text
        "junk"}             \* class-specific junk documents (deep nesting, huge numbers, too many members, ...)

ByteClasses == {"lbrace", "rbrace", "lbracket", "rbracket", "quote", "backslash", "colon", "comma",
                "digit", "letter", "hexupper", "space", "nul", "ctrl", "del", "x80", "xBF", "xC0", "xE0", "xF0", "xFF", "hash", "u"}

JunkKinds == {"nest_arrays", "nest_objects", "nest_deep", "digits_20", "digits_10000", "many_tag_members", "many_tags",
              "unterminated_string", "unterminated_escape", "unterminated_uescape", "lone_continuation",
              "truncated_multibyte", "empty", "only_space", "big_string", "u16_boundary"}

(* output buffer length classes; "needed" is what the valid base text requires *)
BufClasses == {"zero", "tiny", "hdr31_32", "hdr143_144", "min151_168", "needed_minus", "needed", "needed_plus", "large"}

HasOutBuf(e) == e \in {"event", "filter", "tags", "unescape"}

(* which byte classes / ops make sense per entry: everything, for every entry - the property    *)
(* quantifies over all byte strings - except that "junk" carries a junk kind instead of a class *)
Case(e, o, k, b) == [entry |-> e, op |-> o, cls |-> k, buf |-> b]

Cases ==
    UNION {
             {Case(e, o, k, b) : o \in {"subst", "subst2", "insert", "tail"}, k \in ByteClasses,
                                 b \in IF HasOutBuf(e) THEN {"needed", "large", "needed_minus"} ELSE {"large"}}
        \cup {Case(e, o, "none", b) : o \in {"valid", "prefix", "delete", "dup", "swap", "splice"},
                                 b \in IF HasOutBuf(e) THEN BufClasses ELSE {"large"}}
        \cup {Case(e, "junk", j, b) : j \in JunkKinds,
                                 b \in IF HasOutBuf(e) THEN {"zero", "tiny", "needed", "large"} ELSE {"large"}}
        : e \in Entries}

(* The acceptable observations of one call (the property's weak oracle) *)
Acceptable == {"err", "ok_wellformed"}
Forbidden  == {"panic", "hang", "abort", "oob_write", "consumed_gt_len", "ok_malformed"}

(* for a valid text and a sufficient buffer the parser must also SUCCEED (otherwise "always Err" *)
(* would satisfy the check vacuously) - this is the only place the oracle is stronger            *)
MustSucceed(x) == x.op = "valid" /\ x.buf \in {"needed", "needed_plus", "large"}

VARIABLE cs
Init == cs \in Cases
Next == UNCHANGED cs
Spec == Init /\ [][Next]_cs

TypeOK == cs.entry \in Entries /\ cs.op \in Ops /\ cs.buf \in BufClasses
(* sanity of the model itself: every entry meets every op, every byte class and (where it has   *)
(* an output buffer) every buffer class somewhere in Cases                                       *)
ASSUME \A e \in Entries : \A o \in Ops : \E x \in Cases : x.entry = e /\ x.op = o
ASSUME \A e \in Entries : \A k \in ByteClasses : \E x \in Cases : x.entry = e /\ x.cls = k
ASSUME \A e \in Entries : HasOutBuf(e) => \A b \in BufClasses : \E x \in Cases : x.entry = e /\ x.buf = b

Emit == PrintT(ToJson([tag |-> "CASE", entry |-> cs.entry, op |-> cs.op, cls |-> cs.cls, buf |-> cs.buf,
                       must |-> IF MustSucceed(cs) THEN 1 ELSE 0]))
=============================================================================
