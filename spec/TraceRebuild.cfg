SPECIFICATION Spec
CHECK_DEADLOCK FALSE
INVARIANT Recoverable
POSTCONDITION Consumed
