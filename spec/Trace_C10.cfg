SPECIFICATION Spec
CONSTANT Prop = "C10"
CHECK_DEADLOCK FALSE
POSTCONDITION Consumed
