SPECIFICATION Spec
INVARIANT RTypeOK
INVARIANT Recoverable
INVARIANT Loss
CHECK_DEADLOCK FALSE
