----------------------------- MODULE TraceStore -----------------------------
(***************************************************************************)
(* Judge of recorded executions of the real pocket-db Store (DESIGN 4.4).   *)
(*                                                                          *)
(* The trace (IOEnv.TRACE, ndjson) has one line per public call with the    *)
(* call, its result and the projection of the store afterwards; "reset"     *)
(* lines start independent histories.  The cursor ADOPTS the observed       *)
(* post-state as the next pre-state ("follow the implementation") and       *)
(* evaluates, on every observed transition, the clauses owned by the        *)
(* property named by the constant Prop (R4) - the same operators TLC has    *)
(* model-checked on the generative form in PocketStore.tla.  A failing      *)
(* clause is reported (one BAD line) and the walk continues, so the rest    *)
(* of the trace is still examined.                                          *)
(***************************************************************************)
EXTENDS PocketQuery

CONSTANT Prop            \* "C04" | "C09" | "C10" | "C11" | "C12" | "C16" | "C17" | "C18" | "ALL"

Rec == ndJsonDeserialize(IOEnv.TRACE)
FiltersFile == IOEnv.FILTERS
F == IF FiltersFile = "" THEN <<>> ELSE JsonDeserialize(FiltersFile)

VARIABLES l, cur, acc, rmv, ok

tvars == <<l, cur, acc, rmv, ok>>

(* observed projection -> abstract state record *)
Valid(st) == st.open = 1 /\ Len(st.delAddr) = NA /\ Len(st.ix) = 9
Abs(st) == [retr |-> ToSet(st.retr), delIds |-> ToSet(st.delIds), delAddr |-> st.delAddr]

QV(q) == [i \in DOMAIN q |-> <<q[i].r, ToSet(q[i].out), Len(q[i].out), q[i].red>>]

SumSize(S) == LET RECURSIVE Sum(_)
                  Sum(T) == IF T = {} THEN 0 ELSE LET x == CHOOSE y \in T : TRUE IN Ev(x).size + Sum(T \ {x})
              IN Sum(S)

(* ----------------------------- clause families ------------------------------------------ *)
V_C04(pst, r) == LET pre == Abs(pst)  post == Abs(r.st)  c == [k |-> r.k, a |-> r.a] IN
         (IF C04_StaysUntil(pre, c, r.res, post) THEN {} ELSE {"StaysUntil"})
    \cup (IF \A i \in DOMAIN r.st.offs : r.st.offs[i][2] = r.st.offs[i][3] THEN {} ELSE {"ReadBackOffset"})
    \cup (IF Len(r.st.corrupt) = 0 THEN {} ELSE {"ReadBackId"})
    \cup (IF r.k = "store" /\ r.res = "ok"
          THEN (IF /\ (pst.gen = r.st.gen => /\ \A i \in DOMAIN pst.offs : pst.offs[i][1] # r.off
                                             /\ r.off >= pst.end)
                   /\ r.off + Ev(r.a).size <= r.st.end
                   /\ r.st.end <= r.st.flen
                THEN {} ELSE {"FreshOffset"})
          ELSE {})
    \cup (IF pst.gen = r.st.gen /\ r.st.end < pst.end THEN {"EndMonotone"} ELSE {})

V_C09(pst, r) == LET pre == Abs(pst)  post == Abs(r.st)  c == [k |-> r.k, a |-> r.a] IN
         (IF C09_AtMostOne(post) THEN {} ELSE {"AtMostOne"})
    \cup (IF C09_Displace(pre, c, r.res, post) THEN {} ELSE {"Displace"})
    (* the address lookups agree with the retrievable set *)
    \cup (IF \A a \in AddrIdx : r.st.find[a] = -3 \/
                 (IF Holders(post.retr, a) = {} THEN r.st.find[a] = -1 ELSE r.st.find[a] \in Holders(post.retr, a))
          THEN {} ELSE {"AddressLookup"})

V_C10(pst, r) == LET pre == Abs(pst)  post == Abs(r.st)  c == [k |-> r.k, a |-> r.a] IN
    IF C10(pre, c, r.res, post) THEN {} ELSE {"ForeignHarmless"}

V_C11(pst, r) == LET pre == Abs(pst)  post == Abs(r.st)  c == [k |-> r.k, a |-> r.a] IN
    IF C11(pre, c, r.res, post, acc, AccNext(acc, c, r.res)) THEN {} ELSE {"DeletionSticks"}

V_C12(pst, r) == LET pre == Abs(pst)  post == Abs(r.st)  c == [k |-> r.k, a |-> r.a] IN
    IF r.k = "store" /\ r.res # "ok"
    THEN      (IF SameObs(pre, post) THEN {} ELSE {"FailIsStutter"})
         \cup (IF pst.find = r.st.find THEN {} ELSE {"FailChangedLookup"})
         \cup (IF pst.ix = r.st.ix THEN {} ELSE {"FailChangedCounts"})
         \cup (IF pst.extra = r.st.extra THEN {} ELSE {"FailChangedExtra"})
    ELSE {}

V_C16(pst, r) == LET pre == Abs(pst)  post == Abs(r.st)  c == [k |-> r.k, a |-> r.a] IN
    IF r.k \in {"reopen", "rebuild"}
    THEN      (IF SameObs(pre, post) THEN {} ELSE {"Transparent"})
         \cup (IF pst.find = r.st.find THEN {} ELSE {"LookupChanged"})
         \cup (IF pst.extra = r.st.extra THEN {} ELSE {"ExtraChanged"})
         \cup (IF r.k = "rebuild" /\ r.res = "ok"
               THEN (IF /\ r.st.bak = 1
                        /\ SumSize(post.retr) <= r.st.end - 8
                        /\ r.st.end - 8 <= SumSize(post.retr) + 7 * Cardinality(post.retr)
                     THEN {} ELSE {"RebuildCompacts"})
               ELSE {})
    ELSE {}

V_C17(pst, r) == LET post == Abs(r.st)  n == Cardinality(post.retr)  ix == r.st.ix IN
         (IF ix[1] = n /\ ix[2] = n /\ ix[4] = n /\ ix[5] = n THEN {} ELSE {"Accounting"})
    \cup (IF n = 0 /\ \E j \in 1..7 : ix[j] # 0 THEN {"LeakedEntries"} ELSE {})

V_C18(pst, r) == LET pre == Abs(pst)  post == Abs(r.st)  c == [k |-> r.k, a |-> r.a] IN
         (IF C18(pre, c, r.res, post) THEN {} ELSE {"RemoveExact"})
    (* an event removed earlier in this history (rmv) is accepted again when resubmitted, subject to the  *)
    (* usual rules: no refusal reason of the specification applies => the store succeeds                  *)
    \cup (IF r.k = "store" /\ r.a \in rmv /\ Reasons(pre, Ev(r.a)) = {} /\ r.res # "ok" THEN {"ResubmitRefused"} ELSE {})
    \cup (IF r.k \in {"remove", "vanish"} /\ pst.extra # r.st.extra THEN {"ExtraTouched"} ELSE {})
    (* ... and stays unretrievable until then: an event removed earlier in this history becomes retrievable again only *)
    (* by the store call that resubmits it (not by a reopen, a rebuild or any call about another event)                *)
    \cup (IF ((ToSet(r.st.retr) \ ToSet(pst.retr)) \cap rmv) \subseteq (IF r.k = "store" THEN {r.a} ELSE {}) THEN {} ELSE {"RemovedCameBack"})

(* C15: references handed out by the living store object stay valid and unchanged.  rbase = the  *)
(* distinct mapping base addresses that fresh lookups of every offset yield (interned), rok = every *)
(* held reference whose base is still current denotes unchanged bytes, nheld = references held.     *)
V_C15(pst, r) ==
         (IF Len(r.st.rbase) <= 1 THEN {} ELSE {"InconsistentBase"})
    \cup (IF r.st.rok = 1 THEN {} ELSE {"BytesChanged"})
    (* ... and what a held reference denoted is still what a fresh lookup of its offset returns (decidable even *)
    (* when the mapping has moved, which is the known finding)                                                  *)
    \cup (IF r.st.rfresh = 1 THEN {} ELSE {"DenotedBytesChanged"})
    \cup (IF /\ r.k \notin {"reopen", "rebuild"} /\ pst.nheld > 0
             /\ Len(pst.rbase) = 1 /\ Len(r.st.rbase) = 1 /\ pst.rbase # r.st.rbase
          THEN (IF r.k \in {"store", "pstore"} /\ r.st.flen > pst.flen THEN {"MovedAtGrowth"}
                ELSE {"MovedWithoutGrowth"})
          ELSE {})

(* ---- beyond the listed properties (DESIGN 3.9 / 11.8): the caller-named extra key-value tables behave  *)
(* like maps (put overwrites, delete removes, a refused put / delete changes nothing) and no store call    *)
(* touches them; the used size of the event map never shrinks within one file generation.                  *)
XKey(e) == <<e[1], e[2]>>
V_MISC(pst, r) ==
    LET pre == ToSet(pst.extra)  post == ToSet(r.st.extra) IN
         (IF r.k = "xput"
          THEN (IF r.res = "ok"
                THEN (IF post = {e \in pre : XKey(e) # <<r.x[1], r.x[2]>>} \cup {<<r.x[1], r.x[2], r.x[3]>>} THEN {} ELSE {"ExtraPut"})
                ELSE (IF post = pre THEN {} ELSE {"ExtraRefusedPutChanged"}))
          ELSE IF r.k = "xdel"
          THEN (IF r.res = "ok"
                THEN (IF post = {e \in pre : XKey(e) # <<r.x[1], r.x[2]>>} THEN {} ELSE {"ExtraDel"})
                ELSE (IF post = pre THEN {} ELSE {"ExtraRefusedDelChanged"}))
          ELSE (IF post = pre THEN {} ELSE {"ExtraTouched"}))
    \cup (IF Cardinality({XKey(e) : e \in post}) = Len(r.st.extra) THEN {} ELSE {"ExtraDuplicateKey"})
    \cup (IF pst.gen = r.st.gen /\ r.st.end < pst.end THEN {"EndShrank"} ELSE {})
    \cup (IF r.st.end <= r.st.flen THEN {} ELSE {"EndBeyondFile"})

(* queries recorded with the line (probe filters F): C17 path agreement, C12/C16 "every query" *)
V_Q17(r) == IF \A i \in DOMAIN r.q : QueryOK(ToSet(r.st.retr), F[i], r.q[i]) THEN {} ELSE {"PathsAgree"}
V_QSame(pst_q, r) == IF Len(pst_q) = Len(r.q) /\ QV(pst_q) = QV(r.q) THEN {} ELSE {"QueryChanged"}

Viol(pst, pq, r) ==
    CASE Prop = "C04" -> V_C04(pst, r)
      [] Prop = "C09" -> V_C09(pst, r)
      [] Prop = "C10" -> V_C10(pst, r)
      [] Prop = "C11" -> V_C11(pst, r)
      [] Prop = "C12" -> V_C12(pst, r) \cup (IF r.k = "store" /\ r.res # "ok" THEN V_QSame(pq, r) ELSE {})
      [] Prop = "C16" -> V_C16(pst, r) \cup (IF r.k \in {"reopen", "rebuild"} THEN V_QSame(pq, r) ELSE {})
      [] Prop = "C17" -> V_C17(pst, r) \cup V_Q17(r)
      [] Prop = "C18" -> V_C18(pst, r) \cup (IF r.k \in {"remove", "vanish"} THEN V_Q17(r) ELSE {})
      [] Prop = "C15" -> V_C15(pst, r)
      [] Prop = "MISC" -> V_MISC(pst, r)
      [] Prop = "FRAME" -> LET pre == Abs(pst)  post == Abs(r.st)  c == [k |-> r.k, a |-> r.a] IN
                               IF Frame(pre, c, r.res, post) THEN {} ELSE {"Frame"}
      [] OTHER -> {}

(* the store stopped being usable during this call *)
Unusable(r) == CASE Prop = "C16" -> IF r.k \in {"reopen", "rebuild"} THEN {"Unusable"} ELSE {}
                 [] Prop = "C04" -> IF r.k \notin {"reopen", "rebuild", "reset"} THEN {"Unusable"} ELSE {}
                 [] OTHER -> {}

(* C05: every recorded answer satisfies QueryOK w.r.t. the retrievable set observed on the same *)
(* line; "queries" lines carry a batch F[a+1 .. ], other lines the probe set F[1 .. ].          *)
ReportQ(r) == LET base == IF r.k = "queries" THEN r.a ELSE 0 IN
    \A i \in DOMAIN r.q :
        LET v == QueryViol(ToSet(r.st.retr), F[base + i], r.q[i]) IN
            IF v = {} THEN TRUE
            ELSE PrintT(ToJson([tag |-> "BADQ", l |-> l, h |-> r.h, f |-> base + i, res |-> r.q[i].r, v |-> v]))

Report(v, r) == IF v = {} THEN TRUE
                ELSE PrintT(ToJson([tag |-> "BAD", l |-> l, h |-> r.h, k |-> r.k, a |-> r.a, res |-> r.res, v |-> v]))

Init == /\ l = 1
        /\ cur = [st |-> [open |-> 0], q |-> <<>>]
        /\ acc = {}
        /\ rmv = {}
        /\ ok = TRUE

(* A reopen / rebuild that does not return a usable store is C16's business: the other judges  *)
(* stop judging the rest of that history instead of reporting its aftermath.                   *)
FailedReopen(r) == r.k \in {"reopen", "rebuild"} /\ r.res # "ok"
Skip(r) == Prop # "C16" /\ FailedReopen(r)

Step == /\ l <= Len(Rec)
        /\ LET r == Rec[l] IN
             /\ acc' = (IF r.k = "reset" THEN {}
                         ELSE IF ok /\ Valid(r.st) THEN AccNext(acc, [k |-> r.k, a |-> r.a], r.res) ELSE acc)
             /\ rmv' = (IF r.k = "reset" THEN {}
                         ELSE IF ok /\ Valid(r.st) /\ r.k \in {"remove", "vanish"}
                              THEN rmv \cup (ToSet(cur.st.retr) \ ToSet(r.st.retr)) ELSE rmv)
             /\ ok' = (IF r.k = "reset" THEN Valid(r.st) ELSE ok /\ Valid(r.st) /\ ~Skip(r))
             /\ (IF r.k # "reset" /\ ok /\ ~Skip(r)
                 THEN (IF Valid(r.st) THEN Report(Viol(cur.st, cur.q, r), r) ELSE Report(Unusable(r), r))
                 ELSE TRUE)
             /\ (IF Prop = "C05" /\ Valid(r.st) THEN ReportQ(r) ELSE TRUE)
             /\ cur' = [st |-> r.st, q |-> r.q]
             /\ l' = l + 1

Next == Step
Spec == Init /\ [][Next]_tvars

(* acceptance: every line was consumed (violations are the BAD lines printed on the way) *)
Consumed == IF TLCGet("stats").diameter = Len(Rec) + 1 THEN TRUE
            ELSE PrintT(<<"NOTCONSUMED", TLCGet("stats").diameter, Len(Rec)>>)
=============================================================================
