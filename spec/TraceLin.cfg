SPECIFICATION Spec
CHECK_DEADLOCK FALSE
CONSTRAINT Track
POSTCONDITION Accepted
