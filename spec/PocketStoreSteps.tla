-------------------------- MODULE PocketStoreSteps --------------------------
(***************************************************************************)
(* Critical-section-level model of pocket-db's write and read paths         *)
(* (DESIGN.md 3.4): one action per critical section of Store::new /         *)
(* EventStore::new, Store::store_event / EventStore::store_event,           *)
(* remove_event and the lookup path, a Crash action at every point, and     *)
(* threads.  Used for                                                        *)
(*   - the design-level check of C13 / C14 / C15 (DurableInv, HeaderInv,    *)
(*     ReaderInv, OneWinner, refinement of the API-level behaviour,         *)
(*     RefsValid), and                                                       *)
(*   - STEERING the real code: every action carries the name of the yield   *)
(*     point (pocket_db::verif::point) at which the real thread is parked   *)
(*     after it, so a path of this model is a schedule / a kill point for   *)
(*     the conformance harness (R2: steering, never judging).               *)
(*                                                                          *)
(* The event map is modelled in cells: cell 0 is the header holding the     *)
(* end marker, every event occupies one cell, the file grows by CHUNK.      *)
(***************************************************************************)
EXTENDS Integers, Sequences, FiniteSets, TLC, Json

CONSTANTS Threads,        \* set of thread ids (model values or integers)
          OpOf,           \* [Threads -> [k : {"store","remove","get"}, id : Ids]]
          Ids,            \* event ids
          CHUNK,          \* cells added by one growth step
          MAXCELLS,       \* bound on the file length
          FIXED_CREATE,   \* TRUE: an end marker below the header size is treated as "not initialised"
          COMMIT_FIRST,   \* TRUE: (seeded design error) commit the index before appending
          CRASHES,        \* max number of crashes explored
          MAY_MOVE        \* TRUE: growing the mapping may move it (mremap MAY_MOVE), as in the pinned design

None == 0
HDR == 1

VARIABLES
    \* durable
    fexists, flen, marker, cells, db,
    \* volatile
    isopen, maplen, base, wlock, pc, txn, off, snap, res, refs,
    crashes,
    \* hidden history (not in the view)
    sched

dur  == <<fexists, flen, marker, cells, db>>
vol  == <<isopen, maplen, base, wlock, pc, txn, off, snap, res, refs>>
vars == <<dur, vol, crashes, sched>>
View == <<dur, vol, crashes>>

Cell(e, ok) == [ev |-> e, ok |-> ok]
EmptyCells  == [c \in 0..MAXCELLS |-> Cell(None, FALSE)]

Init ==
    /\ fexists = FALSE /\ flen = 0 /\ marker = 0 /\ cells = EmptyCells
    /\ db = [i \in Ids |-> None]
    /\ isopen = "closed" /\ maplen = 0 /\ base = 0 /\ wlock = None
    /\ pc = [t \in Threads |-> "idle"]
    /\ txn = [t \in Threads |-> [i \in Ids |-> None]]
    /\ off = [t \in Threads |-> None]
    /\ snap = [t \in Threads |-> [i \in Ids |-> None]]
    /\ res = [t \in Threads |-> "none"]
    /\ refs = {}
    /\ crashes = 0
    /\ sched = <<>>

Step(t, point) == sched' = Append(sched, [t |-> t, p |-> point])

(* ------------------------------ opening ------------------------------------------------- *)
(* EventStore::new: open/create, size, initialise the end marker; one process-level thread.  *)
OpenCreate ==
    /\ isopen = "closed" /\ ~fexists
    /\ fexists' = TRUE /\ flen' = 0
    /\ isopen' = "created"
    /\ UNCHANGED <<marker, cells, db, maplen, base, wlock, pc, txn, off, snap, res, refs, crashes>>
    /\ Step(0, "es.new.opened")

OpenExisting ==
    /\ isopen = "closed" /\ fexists
    /\ isopen' = (IF flen < HDR \/ (FIXED_CREATE /\ marker < HDR) THEN "created" ELSE "mapped")
    /\ maplen' = flen
    /\ UNCHANGED <<fexists, flen, marker, cells, db, base, wlock, pc, txn, off, snap, res, refs, crashes>>
    /\ Step(0, "es.new.opened")

OpenSize ==
    /\ isopen = "created"
    /\ flen' = (IF flen < CHUNK THEN CHUNK ELSE flen) /\ maplen' = (IF flen < CHUNK THEN CHUNK ELSE flen)
    /\ isopen' = "sized"
    /\ UNCHANGED <<fexists, marker, cells, db, base, wlock, pc, txn, off, snap, res, refs, crashes>>
    /\ Step(0, "es.new.sized")

OpenInit ==
    /\ isopen = "sized"
    /\ marker' = HDR
    /\ isopen' = "mapped"
    /\ UNCHANGED <<fexists, flen, cells, db, maplen, base, wlock, pc, txn, off, snap, res, refs, crashes>>
    /\ Step(0, "es.new.mapped")

OpenDone ==
    /\ isopen = "mapped"
    /\ isopen' = "open"
    /\ UNCHANGED <<dur, maplen, base, wlock, pc, txn, off, snap, res, refs, crashes>>
    /\ Step(0, "new.done")

(* ------------------------------ writers ------------------------------------------------- *)
IsWriter(t) == OpOf[t].k \in {"store", "remove"}

Begin(t) ==
    /\ isopen = "open" /\ pc[t] = "idle" /\ res[t] = "none"
    /\ pc' = [pc EXCEPT ![t] = IF IsWriter(t) THEN "begin" ELSE "rbegin"]
    /\ UNCHANGED <<dur, isopen, maplen, base, wlock, txn, off, snap, res, refs, crashes>>
    /\ Step(t, IF OpOf[t].k = "store" THEN "store.begin" ELSE IF OpOf[t].k = "remove" THEN "remove.begin" ELSE "start")

Acquire(t) ==
    /\ pc[t] = "begin" /\ wlock = None
    /\ wlock' = t
    /\ txn' = [txn EXCEPT ![t] = db]
    /\ pc' = [pc EXCEPT ![t] = IF OpOf[t].k = "store" THEN "dupcheck" ELSE "rm"]
    /\ UNCHANGED <<dur, isopen, maplen, base, off, snap, res, refs, crashes>>
    /\ Step(t, IF OpOf[t].k = "store" THEN "store.txn" ELSE "remove.txn")

DupCheck(t) == LET i == OpOf[t].id IN
    /\ pc[t] = "dupcheck"
    /\ IF txn[t][i] # None
       THEN /\ pc' = [pc EXCEPT ![t] = "idle"] /\ res' = [res EXCEPT ![t] = "dup"] /\ wlock' = None
       ELSE /\ pc' = [pc EXCEPT ![t] = IF COMMIT_FIRST THEN "index" ELSE "append"] /\ UNCHANGED <<res, wlock>>
    /\ UNCHANGED <<dur, isopen, maplen, base, txn, off, snap, refs, crashes>>
    /\ Step(t, IF txn[t][i] # None THEN "end" ELSE "store.preremoved")

(* file growth: set_len, then remap (which may move the mapping: base changes) *)
GrowSetLen(t) ==
    /\ pc[t] = "append" /\ marker + 1 > maplen /\ flen = maplen /\ flen + CHUNK <= MAXCELLS
    /\ flen' = flen + CHUNK
    /\ UNCHANGED <<fexists, marker, cells, db, vol, crashes>>
    /\ Step(t, "es.grow.setlen")

GrowRemap(t) ==
    /\ pc[t] = "append" /\ flen > maplen
    /\ maplen' = flen
    /\ base' = (IF MAY_MOVE THEN base + 1 ELSE base)     \* mremap(MAY_MOVE): the address may change
    /\ UNCHANGED <<dur, isopen, wlock, pc, txn, off, snap, res, refs, crashes>>
    /\ Step(t, "es.grow.remapped")

CopyHalf(t) ==
    /\ pc[t] = "append" /\ marker + 1 <= maplen
    /\ cells' = [cells EXCEPT ![marker] = Cell(OpOf[t].id, FALSE)]
    /\ pc' = [pc EXCEPT ![t] = "copyrest"]
    /\ UNCHANGED <<fexists, flen, marker, db, isopen, maplen, base, wlock, txn, off, snap, res, refs, crashes>>
    /\ Step(t, "es.store.halfcopied")

CopyRestBump(t) ==
    /\ pc[t] = "copyrest"
    /\ cells' = [cells EXCEPT ![marker] = Cell(OpOf[t].id, TRUE)]
    /\ marker' = marker + 1
    /\ off' = [off EXCEPT ![t] = marker]
    /\ pc' = [pc EXCEPT ![t] = IF COMMIT_FIRST THEN "idle" ELSE "index"]
    /\ res' = (IF COMMIT_FIRST THEN [res EXCEPT ![t] = "ok"] ELSE res)
    /\ wlock' = (IF COMMIT_FIRST THEN None ELSE wlock)
    /\ UNCHANGED <<fexists, flen, db, isopen, maplen, base, txn, snap, refs, crashes>>
    /\ Step(t, "store.appended")

Index(t) == LET i == OpOf[t].id IN
    /\ pc[t] = "index"
    /\ txn' = [txn EXCEPT ![t][i] = IF COMMIT_FIRST THEN marker ELSE off[t]]
    /\ pc' = [pc EXCEPT ![t] = "commit"]
    /\ UNCHANGED <<dur, isopen, maplen, base, wlock, off, snap, res, refs, crashes>>
    /\ Step(t, "store.precommit")

Commit(t) ==
    /\ pc[t] = "commit"
    /\ db' = txn[t]
    /\ IF COMMIT_FIRST /\ OpOf[t].k = "store"
       THEN pc' = [pc EXCEPT ![t] = "append"] /\ UNCHANGED <<wlock, res>>
       ELSE /\ pc' = [pc EXCEPT ![t] = "idle"] /\ wlock' = None /\ res' = [res EXCEPT ![t] = "ok"]
    /\ UNCHANGED <<fexists, flen, marker, cells, isopen, maplen, base, txn, off, snap, refs, crashes>>
    /\ Step(t, IF OpOf[t].k = "store" THEN "store.committed" ELSE "remove.committed")

Rm(t) == LET i == OpOf[t].id IN
    /\ pc[t] = "rm"
    /\ txn' = [txn EXCEPT ![t][i] = None]
    /\ pc' = [pc EXCEPT ![t] = "commit"]
    /\ UNCHANGED <<dur, isopen, maplen, base, wlock, off, snap, res, refs, crashes>>
    /\ Step(t, "remove.precommit")

(* ------------------------------ readers ------------------------------------------------- *)
RBegin(t) ==
    /\ pc[t] = "rbegin"
    /\ snap' = [snap EXCEPT ![t] = db]
    /\ pc' = [pc EXCEPT ![t] = "rderef"]
    /\ UNCHANGED <<dur, isopen, maplen, base, wlock, txn, off, res, refs, crashes>>
    /\ Step(t, "read.txn")

RDeref(t) == LET i == OpOf[t].id IN
    /\ pc[t] = "rderef"
    /\ res' = [res EXCEPT ![t] = IF snap[t][i] = None THEN "absent" ELSE "found"]
    /\ refs' = (IF snap[t][i] = None THEN refs ELSE refs \cup {[off |-> snap[t][i], base |-> base]})
    /\ pc' = [pc EXCEPT ![t] = "idle"]
    /\ UNCHANGED <<dur, isopen, maplen, base, wlock, txn, off, snap, crashes>>
    /\ Step(t, "end")

(* ------------------------------ crash --------------------------------------------------- *)
Crash ==
    /\ crashes < CRASHES
    /\ isopen # "closed" \/ \E t \in Threads : pc[t] # "idle"
    /\ crashes' = crashes + 1
    /\ isopen' = "closed" /\ maplen' = 0 /\ wlock' = None /\ base' = 0 /\ refs' = {}
    /\ pc' = [t \in Threads |-> "idle"]
    /\ txn' = [t \in Threads |-> [i \in Ids |-> None]]
    /\ off' = [t \in Threads |-> None]
    /\ snap' = [t \in Threads |-> [i \in Ids |-> None]]
    /\ res' = [t \in Threads |-> IF res[t] = "none" /\ pc[t] # "idle" THEN "killed" ELSE res[t]]
    /\ UNCHANGED dur
    /\ Step(0, "CRASH")

Next ==
    \/ OpenCreate \/ OpenExisting \/ OpenSize \/ OpenInit \/ OpenDone
    \/ \E t \in Threads : \/ Begin(t) \/ Acquire(t) \/ DupCheck(t) \/ GrowSetLen(t) \/ GrowRemap(t)
                          \/ CopyHalf(t) \/ CopyRestBump(t) \/ Index(t) \/ Commit(t) \/ Rm(t)
                          \/ RBegin(t) \/ RDeref(t)
    \/ Crash

Spec == Init /\ [][Next]_vars

(* ------------------------------ properties ---------------------------------------------- *)
TypeOK == /\ marker \in 0..MAXCELLS + 1 /\ flen \in 0..MAXCELLS /\ maplen \in 0..MAXCELLS

(* C13: what is committed always points at complete event bytes below the end marker *)
DurableInv == \A i \in Ids : db[i] # None =>
                 /\ db[i] >= HDR /\ db[i] < marker /\ marker <= flen
                 /\ cells[db[i]] = Cell(i, TRUE)

(* C13: the header cell is never used for event bytes *)
HeaderInv == cells[0].ev = None

(* C14: a reader only dereferences complete bytes below the end marker *)
ReaderInv == \A t \in Threads : (pc[t] = "rderef" /\ snap[t][OpOf[t].id] # None) =>
                 LET o == snap[t][OpOf[t].id] IN o < marker /\ cells[o] = Cell(OpOf[t].id, TRUE)

(* C14: of the simultaneous submissions of one event that ran to completion, at most one     *)
(* succeeded unless a removal of it was in play                                               *)
OneWinner == \A i \in Ids :
                 (~\E t \in Threads : OpOf[t].k = "remove" /\ OpOf[t].id = i) =>
                     Cardinality({t \in Threads : OpOf[t].k = "store" /\ OpOf[t].id = i /\ res[t] = "ok"}) <= 1

(* C13/C14: the committed index changes one whole call at a time (refinement of the API level) *)
CommitAtomic == [][\/ db' = db
                   \/ \E i \in Ids : db[i] = None /\ db'[i] # None /\ \A j \in Ids \ {i} : db'[j] = db[j]
                   \/ \E i \in Ids : db'[i] = None /\ \A j \in Ids \ {i} : db'[j] = db[j]]_vars

(* C15: a reference handed out stays valid: the mapping it points into has not moved.         *)
(* EXPECTED TO FAIL for the design as it stands (mremap may move) - see DESIGN 6/C15.         *)
RefsValid == \A r \in refs : r.base = base

(* edge cover for steering: one line per transition *)
EdgePrint == PrintT(<<"EDGE", ToJson(sched')>>)
=============================================================================
