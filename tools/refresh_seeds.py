#!/usr/bin/env python3
"""After a commit to /repo some kept patches no longer apply because their context moved.  For every such patch: three-way
apply in a scratch worktree; when that is clean (no conflict markers) and pocket-db / pocket-types still build, the
refreshed diff replaces the old one.  Patches with real conflicts are listed for porting by hand."""
import glob, os, subprocess, sys
VERIF = os.path.dirname(os.path.dirname(os.path.abspath(__file__)))
TARGET = "/tmp/seedconfirm_target"


def sh(cmd, cwd):
    return subprocess.run(cmd, cwd=cwd, stdout=subprocess.PIPE, stderr=subprocess.STDOUT, text=True, env=dict(os.environ, CARGO_TARGET_DIR=TARGET))


# later fixes in /repo as (old text, new text) - used when a patch rewrote the surrounding block
REFIX = [
    # b7904fa: a deletion by address with a non-empty d no longer removes a replaceable event
    (r"if addr\.kind\.is_replaceable\(\) \{(\s*)self\s*\.remove_replaceable\((.*?)\)\?;(\s*)\} else if",
     r"if addr.kind.is_replaceable() {\1if addr.d.is_empty() {\1    self.remove_replaceable(\2)?;\1}\3} else if",
     "if addr.d.is_empty()"),
]

todo = []
for d in sorted(glob.glob(os.path.join(VERIF, "seeded", "C*"))):
    p = os.path.join(d, "patch.diff")
    if sh(["git", "apply", "--check", p], "/repo").returncode != 0:
        todo.append(d)
conflicts = []
for d in todo:
    sid = os.path.basename(d)
    wt = "/tmp/rf_" + sid
    sh(["git", "worktree", "remove", "--force", wt], "/repo")
    sh(["git", "worktree", "add", "--detach", wt, "HEAD", "-q"], "/repo")
    try:
        sh(["git", "apply", "-3", os.path.join(d, "patch.diff")], wt)
        marks = sh(["grep", "-rl", "<<<<<<<", "pocket-db/src", "pocket-types/src"], wt).stdout.strip()
        if marks:
            # take the patch's side of every conflict, then re-apply the later repository fixes that are plain textual
            # substitutions (REFIX); anything else has to be ported by hand
            import re
            ok = True
            for f in marks.splitlines():
                fp = os.path.join(wt, f)
                t = open(fp).read()
                t = re.sub(r"<<<<<<< ours\n.*?=======\n(.*?)>>>>>>> theirs\n", lambda m: m.group(1), t, flags=re.S)
                for pat, rep, marker in REFIX:
                    if marker in t:
                        continue
                    t, nsub = re.subn(pat, rep, t, flags=re.S)
                    if nsub != 1:
                        ok = False
                open(fp, "w").write(t)
            if not ok:
                conflicts.append((sid, "conflict in %s and the repository fix cannot be re-applied textually" % marks.replace("\n", " ")))
                continue
        sh(["git", "add", "-A"], wt)
        diff = sh(["git", "diff", "--cached", "HEAD"], wt).stdout
        b = sh(["cargo", "build", "--offline", "-p", "pocket-db", "--features", "verif"], wt)
        if b.returncode != 0 or not diff.strip():
            conflicts.append((sid, "does not build after the three-way apply"))
            continue
        open(os.path.join(d, "patch.diff"), "w").write(diff)
        print("refreshed", sid)
    finally:
        sh(["git", "worktree", "remove", "--force", wt], "/repo")
for sid, why in conflicts:
    print("CONFLICT", sid, why)
sys.exit(1 if conflicts else 0)
