#!/usr/bin/env python3
"""Regression over the seeded changes: every kept change must still be reported by (at least) the check of its own
property or the first check recorded in meta.json.  usage: tools/regress_seeds.py [-j N] [--seed S] [ids...]"""
import argparse, concurrent.futures as cf, glob, json, os, subprocess, sys
VERIF = os.path.dirname(os.path.dirname(os.path.abspath(__file__)))


def one(args):
    sid, seed = args
    d = os.path.join(VERIF, "seeded", sid)
    m = json.load(open(os.path.join(d, "meta.json")))
    props = m.get("detected_by") or [m["property"]]
    prop = m["property"] if m["property"] in props else props[0]
    p = subprocess.run([os.path.join(VERIF, "tools", "seedrun.py"), os.path.join(d, "patch.diff"), "--props", prop,
                        "--name", "rg" + sid.replace("-", ""), "--seed", str(seed)], stdout=subprocess.PIPE, stderr=subprocess.STDOUT, text=True)
    line = [l for l in p.stdout.splitlines() if l.startswith(prop + " rc=")]
    return sid, prop, (line[-1][:160] if line else "NO RESULT: " + p.stdout[-200:])


def main():
    ap = argparse.ArgumentParser()
    ap.add_argument("-j", type=int, default=3)
    ap.add_argument("--seed", type=int, default=1)
    ap.add_argument("ids", nargs="*")
    a = ap.parse_args()
    def masked(i):      # kept for the record, indistinguishable from a listed known finding (DESIGN 11.16)
        return "masked_by_known_finding" in json.load(open(os.path.join(VERIF, "seeded", i, "meta.json")))
    ids = a.ids or sorted(os.path.basename(os.path.dirname(p)) for p in glob.glob(os.path.join(VERIF, "seeded", "C*", "meta.json")))
    ids = [i for i in ids if a.ids or not masked(i)]
    missed = []
    with cf.ThreadPoolExecutor(max_workers=a.j) as ex:
        for sid, prop, line in ex.map(one, [(i, a.seed) for i in ids]):
            ok = " rc=1 " in line
            print("%-6s %s %s" % (sid, "DETECTED" if ok else "MISSED  ", line), flush=True)
            if not ok:
                missed.append(sid)
    print("missed: %s" % (missed or "none"))
    return 1 if missed else 0


if __name__ == "__main__":
    sys.exit(main())
