#!/usr/bin/env python3
"""Regenerate the table of seeded changes in DESIGN.md 11.5 from /verif/seeded/*/meta.json."""
import glob, json, os, re
VERIF = os.path.dirname(os.path.dirname(os.path.abspath(__file__)))
rows = []
for p in sorted(glob.glob(os.path.join(VERIF, "seeded", "C*", "meta.json"))):
    m = json.load(open(p))
    rows.append("| %s | %s | %s | %s |" % (m["id"], m["property"], m["needs"].replace("|", "/"), ", ".join(m.get("detected_by", [])) or "-"))
dp = os.path.join(VERIF, "DESIGN.md")
s = open(dp).read()
head = "| id | property | what it needs to manifest | detected by (quick tier) |\n|---|---|---|---|\n"
i = s.index(head) + len(head)
j = s.index("\n\n", i)
s = s[:i] + "\n".join(rows) + s[j:]
open(dp, "w").write(s)
print("%d rows" % len(rows))
