#!/usr/bin/env python3
"""Run checks against a seeded change without touching /repo.

usage: tools/seedrun.py PATCH.diff [--props C04,C09,...] [--tier quick] [--name tag]

Creates a scratch worktree of /repo HEAD under /tmp, applies the patch, runs the named checks with
VERIF_REPO pointing at it, prints one line per check (exit code, first VIOLATION / KNOWN-FINDING lines)
and removes the worktree and its harness build again.
"""
import argparse
import hashlib
import json
import os
import shutil
import subprocess
import sys
import time

VERIF = os.path.dirname(os.path.dirname(os.path.abspath(__file__)))


def main():
    ap = argparse.ArgumentParser()
    ap.add_argument("patch")
    ap.add_argument("--props", default="")
    ap.add_argument("--tier", default="quick")
    ap.add_argument("--name", default=None)
    ap.add_argument("--keep", action="store_true")
    ap.add_argument("--seed", default="1")
    a = ap.parse_args()
    tag = a.name or hashlib.sha256(open(a.patch, "rb").read()).hexdigest()[:8]
    wt = "/tmp/sr_%s" % tag
    subprocess.run(["git", "-C", "/repo", "worktree", "remove", "--force", wt], stdout=subprocess.DEVNULL, stderr=subprocess.DEVNULL)
    shutil.rmtree(wt, ignore_errors=True)
    subprocess.run(["git", "-C", "/repo", "worktree", "add", "--detach", wt, "HEAD", "-q"], check=True)
    shutil.copy("/repo/Cargo.lock", wt)
    r = subprocess.run(["git", "-C", wt, "apply", os.path.abspath(a.patch)], stdout=subprocess.PIPE, stderr=subprocess.STDOUT, text=True)
    if r.returncode != 0:    # context moved since the patch was made (e.g. hook lines added): three-way
        r = subprocess.run(["git", "-C", wt, "apply", "-3", os.path.abspath(a.patch)], stdout=subprocess.PIPE, stderr=subprocess.STDOUT, text=True)
    if r.returncode != 0:
        print("PATCH DOES NOT APPLY:", r.stdout)
        subprocess.run(["git", "-C", "/repo", "worktree", "remove", "--force", wt])
        return 2
    m = json.load(open(os.path.join(VERIF, "MANIFEST.json")))
    props = [p for p in a.props.split(",") if p] or [c["property_id"] for c in m["checks"]]
    env = dict(os.environ, VERIF_REPO=wt, VERIF_SEED=a.seed)
    results = {}
    for p in props:
        t0 = time.time()
        r = subprocess.run([os.path.join(VERIF, "check"), p, "--tier", a.tier], cwd=VERIF, env=env, stdout=subprocess.PIPE,
                           stderr=subprocess.PIPE, text=True)
        vio = [l for l in r.stdout.splitlines() if l.startswith("VIOLATION")]
        kf = [l for l in r.stdout.splitlines() if l.startswith("KNOWN-FINDING")]
        first = ""
        lines = r.stdout.splitlines()
        for i, l in enumerate(lines):
            if l.startswith("VIOLATION") and i + 1 < len(lines):
                first = lines[i + 1].strip()[:220]
                break
        results[p] = r.returncode
        err = ""
        if r.returncode == 2:
            err = " TOOLERR: " + (r.stderr.strip().splitlines() or ["?"])[-1][:200]
        print("%s rc=%d violations=%d known=%d %.0fs %s%s" % (p, r.returncode, len(vio), len(kf), time.time() - t0, first, err), flush=True)
    if not a.keep:
        subprocess.run(["git", "-C", "/repo", "worktree", "remove", "--force", wt])
        h = hashlib.sha256(wt.encode()).hexdigest()
        for d in ("harness_" + h[:10], "evidence_" + h[:6], "replays_" + h[:6]):
            shutil.rmtree(os.path.join(VERIF, "work", d), ignore_errors=True)
        import glob
        for d in glob.glob(os.path.join(VERIF, "work", "*_" + h[:6])):
            shutil.rmtree(d, ignore_errors=True)
    return 0


if __name__ == "__main__":
    sys.exit(main())
