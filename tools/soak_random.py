#!/usr/bin/env python3
"""Soak of the store-level judges over many seeded random universes on the CURRENT tree (false-alarm hunt):
tools/soak_random.py FIRST COUNT.  Prints every rejected line; exit 0."""
import json, os, random, sys
VERIF = os.path.dirname(os.path.dirname(os.path.abspath(__file__)))
sys.path.insert(0, os.path.join(VERIF, "lib")); sys.path.insert(0, os.path.join(VERIF, "checks"))
import common as C, storelib as S, filters as F, store as ST

first, count = int(sys.argv[1]), int(sys.argv[2])
bindir = C.build_harness("dev", bins=["storedrv"])
wd = C.workdir("SOAK")
nbad = 0
for sd in range(first, first + count):
    uname = "r%d" % sd
    upath = S.universe_path(uname)
    u = json.load(open(upath))
    rnd = random.Random(sd)
    hs = [S.random_history(u, rnd, 40) for _ in range(30)]
    for h in hs[::2]:
        for _ in range(3):
            h.insert(rnd.randint(0, len(h)), ST.extra_ops(rnd))
    fpath = os.path.join(wd, "filters_%s.json" % uname)
    json.dump(F.probe_filters(u), open(fpath, "w"))
    tf = S.run_storedrv(bindir, upath, hs, wd, uname, filters_path=fpath, extra=True)
    for prop in ("C04", "C09", "C10", "C11", "C12", "C16", "C17", "C18"):
        bad, lines = S.judge(prop, upath, tf, fpath)
        for b in bad[:3]:
            nbad += 1
            ops = [[r["k"], r["a"]] for r in S.history_of(b["trace"], b["h"]) if r["k"] != "reset"]
            print("BAD %s universe %s: %s at %s(%s) -> %s in %s" % (prop, uname, b["clauses"], b["k"], b["a"], b["res"], ops[:30]), flush=True)
    print("universe %s done" % uname, flush=True)
print("soak finished: %d rejected lines" % nbad)
