#!/usr/bin/env python3
"""Confirm a seeded change myself before keeping it (brief: 'Keep a change only after you have confirmed all of
that yourself in a scratch worktree'):  the patch applies to /repo HEAD, the workspace builds with and without the
verif feature, the 58 existing tests pass with it, the demonstration fails with it and passes without it.
On success writes /verif/seeded/<id>/{patch.diff, demo.rs, meta.json}.

usage: tools/confirm_seed.py <id> <property> <patch> <demo.rs> "<what it needs to manifest>" [--detected-by C12,C14]
"""
import argparse
import json
import os
import re
import shutil
import subprocess
import sys

VERIF = os.path.dirname(os.path.dirname(os.path.abspath(__file__)))
TARGET = os.environ.get("SEEDCONFIRM_TARGET", "/tmp/seedconfirm_target")   # set per job to confirm several changes in parallel


def sh(cmd, cwd, env=None, timeout=1800):
    e = dict(os.environ, CARGO_TARGET_DIR=TARGET, CARGO_NET_OFFLINE="true")
    if env:
        e.update(env)
    p = subprocess.run(cmd, cwd=cwd, env=e, stdout=subprocess.PIPE, stderr=subprocess.STDOUT, text=True, timeout=timeout)
    return p.returncode, p.stdout


def passed_failed(out):
    p = f = 0
    for m in re.finditer(r"test result: \w+\. (\d+) passed; (\d+) failed", out):
        p += int(m.group(1))
        f += int(m.group(2))
    return p, f


def main():
    ap = argparse.ArgumentParser()
    ap.add_argument("id")
    ap.add_argument("prop")
    ap.add_argument("patch")
    ap.add_argument("demo")
    ap.add_argument("needs")
    ap.add_argument("--detected-by", default="")
    ap.add_argument("--features", default="")
    a = ap.parse_args()
    wt = "/tmp/sc_%s" % a.id
    subprocess.run(["git", "-C", "/repo", "worktree", "remove", "--force", wt], stdout=subprocess.DEVNULL, stderr=subprocess.DEVNULL)
    subprocess.run(["git", "-C", "/repo", "worktree", "add", "--detach", wt, "HEAD", "-q"], check=True)
    shutil.copy("/repo/Cargo.lock", wt)
    ran = []
    try:
        rc, out = sh(["git", "apply", os.path.abspath(a.patch)], wt)
        if rc != 0:
            print("FAIL: patch does not apply:", out)
            return 1
        demo_src = open(a.demo).read()
        crate = "pocket-db" if "pocket_db" in demo_src else "pocket-types"
        rc1, o1 = sh(["cargo", "build", "--offline", "-p", "pocket-db", "--features", "verif"], wt)
        rc2, o2 = sh(["cargo", "build", "--offline", "--workspace"], wt)
        ran += ["cargo build --offline -p pocket-db --features verif -> rc %d" % rc1, "cargo build --offline --workspace -> rc %d" % rc2]
        if rc1 or rc2:
            print("FAIL: does not build", (o1 + o2)[-1500:])
            return 1
        rc, out = sh(["cargo", "test", "--workspace", "--offline"], wt)
        p, f = passed_failed(out)
        ran.append("cargo test --workspace --offline (change applied) -> %d passed, %d failed" % (p, f))
        if rc != 0 or f != 0 or p != 58:
            print("FAIL: existing tests with the change: %d passed %d failed rc=%d" % (p, f, rc))
            return 1
        tdir = os.path.join(wt, crate, "tests")
        os.makedirs(tdir, exist_ok=True)
        shutil.copy(a.demo, os.path.join(tdir, "seed_demo.rs"))
        feat = ["--features", a.features] if a.features else []
        rc, out = sh(["cargo", "test", "--offline", "-p", crate, "--test", "seed_demo"] + feat, wt)
        p1, f1 = passed_failed(out)
        ran.append("demo with the change -> rc %d, %d passed, %d failed" % (rc, p1, f1))
        if rc == 0:
            print("FAIL: the demonstration passes WITH the change")
            return 1
        rc, out = sh(["git", "apply", "-R", os.path.abspath(a.patch)], wt)
        rc, out = sh(["cargo", "test", "--offline", "-p", crate, "--test", "seed_demo"] + feat, wt)
        p2, f2 = passed_failed(out)
        ran.append("demo without the change -> rc %d, %d passed, %d failed" % (rc, p2, f2))
        if rc != 0:
            print("FAIL: the demonstration fails WITHOUT the change:", out[-800:])
            return 1
        d = os.path.join(VERIF, "seeded", a.id)
        os.makedirs(d, exist_ok=True)
        if os.path.abspath(a.patch) != os.path.join(d, "patch.diff"):
            shutil.copy(a.patch, os.path.join(d, "patch.diff"))
        if os.path.abspath(a.demo) != os.path.join(d, "demo.rs"):
            shutil.copy(a.demo, os.path.join(d, "demo.rs"))
        head = subprocess.run(["git", "-C", "/repo", "log", "--format=%h", "-1"], capture_output=True, text=True).stdout.strip()
        json.dump(dict(id=a.id, property=a.prop, needs=a.needs, demo_goes_in="%s/tests/" % crate, demo_features=a.features,
                       confirmed_against_repo_commit=head, ran=ran,
                       detected_by=[x for x in a.detected_by.split(",") if x]), open(os.path.join(d, "meta.json"), "w"), indent=1)
        print("OK %s: %s" % (a.id, "; ".join(ran[-3:])))
        return 0
    finally:
        subprocess.run(["git", "-C", "/repo", "worktree", "remove", "--force", wt], stdout=subprocess.DEVNULL, stderr=subprocess.DEVNULL)


if __name__ == "__main__":
    sys.exit(main())
