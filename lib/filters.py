"""Abstract filters over a universe (interned values); the harness concretises them."""
import json

INF = 2000000000


def flt(ids=(), authors=(), kinds=(), tags=(), since=0, until=INF, limit=INF, screen=0, allow=0):
    return dict(ids=list(ids), authors=list(authors), kinds=list(kinds),
                tags=[dict(name=n, vals=list(v)) for (n, v) in tags],
                since=since, until=until, limit=limit, screen=screen, allow=allow)


def probe_filters(u):
    """C17 self-derived probes: for every event its id; its author; author+kind; each of its
    single-letter tag values alone, with its author, with its kind; a time window around it."""
    out, seen = [], set()

    def add(f):
        k = json.dumps(f, sort_keys=True)
        if k not in seen:
            seen.add(k)
            out.append(f)

    strs = [bytes.fromhex(s) for s in u["strs"]]
    for e in u["events"]:
        add(flt(ids=[e["id"]]))
        add(flt(authors=[e["au"]]))
        add(flt(authors=[e["au"]], kinds=[e["kind"]]))
        for t in e["tags"]:
            if len(t) >= 2 and len(strs[t[0]]) == 1 and strs[t[0]].isalpha():
                add(flt(tags=[(t[0], [t[1]])]))
                add(flt(authors=[e["au"]], tags=[(t[0], [t[1]])]))
                add(flt(kinds=[e["kind"]], tags=[(t[0], [t[1]])]))
        add(flt(since=max(0, e["ts"] - 1), until=e["ts"] + 1))
        add(flt(kinds=[e["kind"]], since=e["ts"], until=e["ts"]))
    return out
