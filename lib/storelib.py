"""Store-level conformance: edge covers from TLC, replay into the real Store, trace judging."""
import concurrent.futures as cf
import hashlib
import json
import os
import random
import re
import subprocess
import time

from common import (tlc_json_lines, NCPU, SPEC, UNIV, WORK, ToolError, ensure_dirs, log, model_check, run_tlc, tlc_counts)
import universe as U

RE_EDGE = re.compile(r'^<<"EDGE", "(.*)">>$')
RE_BAD = re.compile(r'^<<"BAD", (\d+), (-?\d+), "(\w+)", (-?\d+), "(.*)", \{(.*)\}>>$')


def file_hash(*paths):
    h = hashlib.sha256()
    for p in paths:
        h.update(open(p, "rb").read())
    return h.hexdigest()[:16]


def universe_path(name):
    """curated universes are committed under universes/; random ones are generated into work/"""
    if name in U.CURATED:
        p = os.path.join(UNIV, name + ".json")
        want = json.dumps(U.CURATED[name]().to_json())
        if not os.path.exists(p) or open(p).read() != want:
            with open(p, "w") as f:
                f.write(want)
        return p
    ensure_dirs()
    p = os.path.join(WORK, "universe_%s.json" % name)
    if name.startswith("exp"):
        # run-time universe (depends on the wall clock); name exp<unix time>
        import glob
        for q in glob.glob(os.path.join(WORK, "universe_exp*.json")):
            try:
                if time.time() - os.path.getmtime(q) > 3600:
                    os.remove(q)
            except OSError:
                pass
        U.u_exp(int(name[3:])).write(p)
        return p
    U.u_random(int(name[1:]) if name.startswith("r") else int(name)).write(p)
    return p


def edges_path(uname):
    up = universe_path(uname)
    hh = file_hash(up, os.path.join(SPEC, "PocketStore.tla"), os.path.join(SPEC, "PocketStoreDefs.tla"),
                   os.path.join(SPEC, "Gen_PocketStore.cfg"))
    return os.path.join(WORK, "edges_%s_%s.ndjson" % (uname, hh))


def gen_edges(uname, timeout=1800):
    """Edge cover of the generative spec: one history per transition of the abstract state graph
    (depends on /verif/spec and the universe only, so it is cached in work/)."""
    ep = edges_path(uname)
    if os.path.exists(ep):
        return ep
    ensure_dirs()
    t0 = time.time()
    raw = ep + ".raw"
    rc, _ = run_tlc("PocketStore.tla", "Gen_PocketStore.cfg", env={"UNIVERSE": universe_path(uname)}, workers=1,
                    timeout=timeout, heap="6g", out_path=raw)
    n = 0
    okline = False
    with open(raw) as f, open(ep + ".tmp", "w") as g:
        for line in f:
            m = RE_EDGE.match(line.rstrip("\n"))
            if m:
                s = m.group(1).replace('\\"', '"').replace("\\\\", "\\")
                g.write(s + "\n")
                n += 1
            elif "Model checking completed. No error has been found." in line:
                okline = True
    os.remove(raw)
    if not okline or n == 0:
        raise ToolError("edge generation for universe %s failed" % uname)
    os.rename(ep + ".tmp", ep)
    for old in os.listdir(WORK):          # drop covers of earlier versions of this universe / spec
        if old.startswith("edges_%s_" % uname) and os.path.join(WORK, old) != ep:
            try:
                os.remove(os.path.join(WORK, old))
            except OSError:
                pass
    log("[gen] %s: %d edges in %.1fs" % (uname, n, time.time() - t0))
    return ep


def sample_edges(uname, k, rnd, pred=None, frac=0.5, all_if_leq=0):
    """k seed-sampled histories of the edge cover (all of them if k is None or >= size).  Every edge
    carries the result the specification gives its last call; `pred(result, history)` selects the
    edges that exercise the property at hand: up to frac*k of the sample is drawn from those, the
    rest uniformly from all edges (stratified sampling - the cover itself is unchanged)."""
    ep = gen_edges(uname)
    with open(ep) as f:
        lines = f.readlines()
    total = len(lines)
    if k is None or k >= total or total <= all_if_leq:      # small covers are replayed completely, whatever the tier
        return [json.loads(l)["h"] for l in lines], total
    chosen = set()
    if pred is not None:
        rel = [i for i, l in enumerate(lines) if pred(*(lambda e: (e["r"], e["h"]))(json.loads(l)))]
        want = min(len(rel), int(k * frac))
        chosen.update(rnd.sample(rel, want))
    rest = [i for i in range(total) if i not in chosen]
    chosen.update(rnd.sample(rest, k - len(chosen)))
    return [json.loads(lines[i])["h"] for i in sorted(chosen)], total


def with_variants(hist, rnd, p_reopen=0.15, p_rebuild=0.08, n_events=0, p_cont=0.25):
    """the edge cover is generated without the `mode` component; the driver adds the
    'first call after reopen / rebuild' variants by inserting the call before the last one.
    A quarter of the histories also get a short seeded continuation (and the last call once more): shortest paths never
    contain failing or redundant calls, so state hidden behind the abstract state (caches, bytes left in the map by
    refused stores, removed events at the tail of the map) is only reached by going on after the edge."""
    out = [hist]
    if n_events and hist and rnd.random() < p_cont:
        cont = []
        for _ in range(rnd.randint(2, 4)):
            r = rnd.random()
            if r < 0.6:
                cont.append({"k": "store", "a": rnd.randint(1, n_events)})
            elif r < 0.8:
                cont.append({"k": "remove", "a": rnd.randint(1, n_events)})
            elif r < 0.9:
                cont.append({"k": "reopen", "a": 0})
            else:
                cont.append({"k": "rebuild", "a": 0})
        out.append(hist + cont + [hist[-1]])
    r = rnd.random()
    if len(hist) >= 1 and r < p_reopen:
        out.append(hist[:-1] + [{"k": "reopen", "a": 0}] + hist[-1:])
    elif len(hist) >= 1 and r < p_reopen + p_rebuild:
        out.append(hist[:-1] + [{"k": "rebuild", "a": 0}] + hist[-1:])
    return out


def random_history(u, rnd, length, p=None, p_alt=0.0, p_starved=0.0):
    """seeded random history over universe dict u (p_alt: share of resubmissions of a stored event with another signature)"""
    n = u["n"]
    ops = []
    for _ in range(length):
        r = rnd.random()
        if p_alt and rnd.random() < p_alt:
            ops.append({"k": "salt", "a": rnd.randint(1, n)})
            continue
        if p_starved and rnd.random() < p_starved:
            ops.append({"k": "sstore", "a": rnd.randint(1, n)})
            continue
        if r < 0.70:
            ops.append({"k": "store", "a": rnd.randint(1, n)})
        elif r < 0.82:
            ops.append({"k": "remove", "a": rnd.randint(1, n)})
        elif r < 0.86:
            ops.append({"k": "vanish", "a": rnd.randint(1, u["nauthors"])})
        elif r < 0.94:
            ops.append({"k": "reopen", "a": 0})
        else:
            ops.append({"k": "rebuild", "a": 0})
    return ops


# ------------------------------------------------------------------------------------------------
# replay into the real store
# ------------------------------------------------------------------------------------------------

def run_storedrv(bindir, upath, histories, wd, tag, filters_path=None, extra=False, shards=None, timeout=900, on_disk=False):
    """histories: list of op lists.  Returns list of trace file paths (one per shard)."""
    shards = shards or min(NCPU, max(1, len(histories) // 50))
    files = []
    per = (len(histories) + shards - 1) // shards
    procs = []
    hid = 0
    for s in range(shards):
        chunk = histories[s * per:(s + 1) * per]
        if not chunk:
            continue
        hp = os.path.join(wd, "%s_h%d.ndjson" % (tag, s))
        tp = os.path.join(wd, "%s_t%d.ndjson" % (tag, s))
        with open(hp, "w") as f:
            for ops in chunk:
                f.write(json.dumps({"id": hid, "ops": ops}) + "\n")
                hid += 1
        cmd = [os.path.join(bindir, "storedrv"), "--universe", upath, "--hist", hp, "--out", tp]
        if filters_path:
            cmd += ["--filters", filters_path]
        if extra:
            cmd.append("--extra")
        if on_disk:
            # the stores of these histories live on the disk file system of /verif (not on tmpfs): what a mapping shows of
            # bytes written beyond the end of its file differs between file systems
            dd = os.path.join(wd, "disk")
            os.makedirs(dd, exist_ok=True)
            cmd += ["--tmp", dd]
        procs.append((subprocess.Popen(cmd, stdout=subprocess.PIPE, stderr=subprocess.STDOUT), hp, tp, cmd))
        files.append(tp)
    t0 = time.time()
    for p, hp, tp, cmd in procs:
        try:
            out, _ = p.communicate(timeout=max(1, timeout - (time.time() - t0)))
        except subprocess.TimeoutExpired:
            p.kill()
            p.communicate()
            _isolate_failure(cmd, hp, tp, "timeout")
            continue
        if p.returncode != 0:
            _isolate_failure(cmd, hp, tp, "exit %s: %s" % (p.returncode, (out or b"")[-300:]))
    return files


def run_storedrv2(bindir, upath, histories, wd, tag, filters_path, no_probe=False, shards=None, timeout=1800):
    """like run_storedrv, for query checks: the filters file feeds explicit `queries` ops (no_probe)
    or is executed after every call"""
    shards = shards or min(NCPU, max(1, len(histories) // 50))
    files, procs = [], []
    per = (len(histories) + shards - 1) // shards
    hid = 0
    for s in range(shards):
        chunk = histories[s * per:(s + 1) * per]
        if not chunk:
            continue
        hp = os.path.join(wd, "%s_h%d.ndjson" % (tag, s))
        tp = os.path.join(wd, "%s_t%d.ndjson" % (tag, s))
        with open(hp, "w") as f:
            for ops in chunk:
                f.write(json.dumps({"id": hid, "ops": ops}) + "\n")
                hid += 1
        cmd = [os.path.join(bindir, "storedrv"), "--universe", upath, "--hist", hp, "--out", tp, "--filters", filters_path]
        if no_probe:
            cmd.append("--no-probe")
        procs.append((subprocess.Popen(cmd, stdout=subprocess.PIPE, stderr=subprocess.STDOUT), hp, tp, cmd))
        files.append(tp)
    t0 = time.time()
    for p, hp, tp, cmd in procs:
        try:
            out, _ = p.communicate(timeout=max(1, timeout - (time.time() - t0)))
        except subprocess.TimeoutExpired:
            p.kill()
            p.communicate()
            _isolate_failure(cmd, hp, tp, "timeout")
            continue
        if p.returncode != 0:
            _isolate_failure(cmd, hp, tp, "exit %s: %s" % (p.returncode, (out or b"")[-300:]))
    return files


def _isolate_failure(cmd, hp, tp, why):
    """A crash / hang of the code under test inside a batch: re-run the batch one history at a
    time so that it costs one history, which is recorded as a line with res = "crash"."""
    log("[storedrv] batch failed (%s); isolating" % why)
    lines = open(hp).read().splitlines()
    with open(tp, "w") as out:
        for i, l in enumerate(lines):
            h1 = hp + ".one"
            t1 = tp + ".one"
            with open(h1, "w") as f:
                f.write(l + "\n")
            c = list(cmd)
            c[c.index("--hist") + 1] = h1
            c[c.index("--out") + 1] = t1
            try:
                p = subprocess.run(c, stdout=subprocess.PIPE, stderr=subprocess.STDOUT, timeout=120)
                good = p.returncode == 0
            except subprocess.TimeoutExpired:
                good = False
            if good:
                out.write(open(t1).read())
            else:
                hid = json.loads(l)["id"]
                # keep what was written before the crash, then a crash marker line
                part = open(t1).read().splitlines() if os.path.exists(t1) else []
                part = [x for x in part if x.endswith("}")]
                for x in part:
                    out.write(x + "\n")
                out.write(json.dumps({"h": hid, "k": "crash", "a": 0, "res": "crash", "off": -1, "x": [-1, "", ""],
                                      "st": {"open": 0, "retr": [], "corrupt": [], "delIds": [], "delAddr": [],
                                             "find": [], "ix": [], "end": -1, "flen": -1, "gen": 0, "offs": [],
                                             "extra": [], "bak": 0}, "q": []}) + "\n")
            for x in (h1, t1):
                if os.path.exists(x):
                    os.remove(x)


# ------------------------------------------------------------------------------------------------
# judging traces with TLC
# ------------------------------------------------------------------------------------------------

def judge_one(prop, upath, tpath, filters_path=""):
    n = sum(1 for _ in open(tpath))
    if n == 0:
        return [], 0
    rc, out = run_tlc("TraceStore.tla", "Trace_%s.cfg" % prop,
                      env={"UNIVERSE": upath, "TRACE": tpath, "FILTERS": filters_path or ""},
                      workers=1, timeout=1200, heap="3g", deque=True, stack="1g")
    if "NOTCONSUMED" in out or "Model checking completed" not in out:
        raise ToolError("trace judge %s did not consume %s:\n%s" % (prop, tpath, out[-2500:]))
    gen, dist = tlc_counts(out)
    if dist != n + 1:
        raise ToolError("trace judge %s: %d states for %d lines" % (prop, dist, n))
    bad = []
    for r in tlc_json_lines(out, "BAD"):
        bad.append(dict(line=r["l"], h=r["h"], k=r["k"], a=r["a"], res=r["res"], clauses=sorted(r["v"]), trace=tpath))
    return bad, n


def judge(prop, upath, tfiles, filters_path=""):
    bad, lines = [], 0
    with cf.ThreadPoolExecutor(max_workers=min(8, NCPU)) as ex:
        for b, n in ex.map(lambda t: judge_one(prop, upath, t, filters_path), tfiles):
            bad += b
            lines += n
    return bad, lines


def history_of(tpath, h):
    """the recorded lines of history h in a trace file"""
    out = []
    with open(tpath) as f:
        for l in f:
            if '"h":%d,' % h in l:
                r = json.loads(l)
                if r["h"] == h:
                    out.append(r)
    return out


def abstract_key(st):
    return (tuple(st.get("retr", [])), tuple(st.get("delIds", [])), tuple(st.get("delAddr", [])))


def scan_traces(tfiles, nontrivial):
    """distinct (pre-state, call, result) triples, and how many are non-trivial by the predicate
    nontrivial(pre_line_or_None, line) -> bool.  Also returns a few sample histories."""
    seen, nt = set(), set()
    calls = 0
    samples = []
    hists = 0
    for t in tfiles:
        prev = None
        cur = []
        with open(t) as f:
            for l in f:
                r = json.loads(l)
                if r["k"] == "reset":
                    hists += 1
                    if cur and len(samples) < 3:
                        samples.append(cur)
                    cur = []
                    prev = r
                    continue
                calls += 1
                key = (abstract_key(prev["st"]) if prev else None, r["k"], r["a"], r["res"])
                seen.add(key)
                if nontrivial(prev, r):
                    nt.add(key)
                if len(cur) < 12:
                    cur.append([r["k"], r["a"], r["res"]])
                prev = r
        if cur and len(samples) < 3:
            samples.append(cur)
    return dict(calls=calls, histories=hists, distinct=len(seen), distinct_nontrivial=len(nt), samples=samples)
