"""Common machinery of the /verif checks: building the harness from /repo's working tree,
running TLC (model checking, generation, trace validation), evidence and verdict plumbing."""
import fcntl
import hashlib
import json
import os
import random
import re
import shutil
import subprocess
import sys
import time

VERIF = os.path.dirname(os.path.dirname(os.path.abspath(__file__)))
SPEC = os.path.join(VERIF, "spec")
HARNESS = os.path.join(VERIF, "harness")
WORK = os.path.join(VERIF, "work")
EVID = os.path.join(VERIF, "evidence")
REPLAYS = os.path.join(VERIF, "replays")
UNIV = os.path.join(VERIF, "universes")
TLA_CP = "/opt/veriftools/tla/tla2tools.jar:/opt/veriftools/tla/CommunityModules-deps.jar"
NCPU = os.cpu_count() or 8


class ToolError(Exception):
    pass


def log(*a):
    print(*a, file=sys.stderr, flush=True)


def seed_from_env():
    try:
        return int(os.environ.get("VERIF_SEED", "1"))
    except ValueError:
        return 1


def ensure_dirs():
    for d in (WORK, EVID, REPLAYS):
        os.makedirs(d, exist_ok=True)


_WORKDIRS = []


def workdir(name):
    d = os.path.join(WORK, name + run_tag())
    shutil.rmtree(d, ignore_errors=True)
    os.makedirs(d)
    _WORKDIRS.append(d)
    return d


def drop_workdirs():
    """thorough runs leave gigabytes of traces behind: remove them once the verdict is written (replay files and evidence
    live elsewhere); quick-tier directories are small and are kept for inspection until the next run"""
    for d in _WORKDIRS:
        shutil.rmtree(d, ignore_errors=True)
    del _WORKDIRS[:]


# ------------------------------------------------------------------------------------------------
# harness build (always from /repo's current working tree; path dependencies)
# ------------------------------------------------------------------------------------------------

def repo_root():
    """/repo, or a scratch worktree when VERIF_REPO is set (used to try fixes and seeded changes
    without touching /repo; registered checks always run against /repo)."""
    return os.path.abspath(os.environ.get("VERIF_REPO", "/repo"))


def harness_dir():
    repo = repo_root()
    if repo == "/repo":
        return HARNESS
    # a private copy of the harness crate whose path dependencies point at the scratch tree
    tag = hashlib.sha256(repo.encode()).hexdigest()[:10]
    d = os.path.join(WORK, "harness_" + tag)
    os.makedirs(d, exist_ok=True)
    subprocess.run(["rsync", "-a", "--delete", "--exclude", "target", "--exclude", "Cargo.toml",
                    HARNESS + "/", d + "/"], check=True)
    toml = open(os.path.join(HARNESS, "Cargo.toml")).read().replace('"/repo/', '"%s/' % repo)
    tp = os.path.join(d, "Cargo.toml")
    if not os.path.exists(tp) or open(tp).read() != toml:
        open(tp, "w").write(toml)
    return d


def run_tag():
    repo = repo_root()
    return "" if repo == "/repo" else "_" + hashlib.sha256(repo.encode()).hexdigest()[:6]


def build_harness(profile="dev", bins=None):
    """cargo build the harness against the current working tree of the repository; returns the
    directory with the binaries.  Serialised by flock."""
    ensure_dirs()
    hd = harness_dir()
    lock = open(os.path.join(WORK, "build%s.lock" % run_tag()), "w")
    fcntl.flock(lock, fcntl.LOCK_EX)
    try:
        lockfile = os.path.join(hd, "Cargo.lock")
        if not os.path.exists(lockfile):
            shutil.copy(os.path.join(repo_root(), "Cargo.lock"), lockfile)
        cmd = ["cargo", "build", "--offline", "--quiet"]
        if profile == "release":
            cmd.append("--release")
        for b in (bins or []):
            cmd += ["--bin", b]
        env = dict(os.environ, CARGO_NET_OFFLINE="true", RUSTFLAGS=os.environ.get("RUSTFLAGS", "") + " -Awarnings")
        t0 = time.time()
        p = subprocess.run(cmd, cwd=hd, env=env, stdout=subprocess.PIPE, stderr=subprocess.STDOUT, text=True)
        if p.returncode != 0:
            raise ToolError("harness build failed:\n" + p.stdout[-4000:])
        log("[build] %s profile built in %.1fs" % (profile, time.time() - t0))
    finally:
        fcntl.flock(lock, fcntl.LOCK_UN)
        lock.close()
    return os.path.join(hd, "target", "release" if profile == "release" else "debug")


# ------------------------------------------------------------------------------------------------
# TLC
# ------------------------------------------------------------------------------------------------

def tlc_cmd(heap="4g", deque=False, stack=None):
    cmd = ["java", "-XX:+UseParallelGC", "-Xmx" + heap]
    if stack:
        cmd.append("-Xss" + stack)
    if deque:
        cmd.append("-Dtlc2.tool.queue.IStateQueue=StateDeque")
    cmd += ["-cp", TLA_CP, "tlc2.TLC"]
    return cmd


def run_tlc(module, cfg, env=None, workers=4, timeout=600, heap="4g", deque=False, stack=None, metadir=None,
            extra=None, out_path=None):
    """Run TLC; returns (returncode, output text).  `module`/`cfg` are file names under spec/."""
    ensure_dirs()
    md = metadir or os.path.join(WORK, "md_%d_%d" % (os.getpid(), random.randrange(1 << 30)))
    cmd = tlc_cmd(heap, deque, stack) + ["-workers", str(workers), "-metadir", md, "-cleanup", "-noGenerateSpecTE",
                                        "-config", os.path.join(SPEC, cfg)] + (extra or []) + [os.path.join(SPEC, module)]
    e = dict(os.environ)
    e.pop("JAVA_TOOL_OPTIONS", None)
    if env:
        e.update(env)
    try:
        if out_path:
            with open(out_path, "w") as f:
                p = subprocess.run(cmd, cwd=SPEC, env=e, stdout=f, stderr=subprocess.STDOUT, timeout=timeout)
            rc, out = p.returncode, None
        else:
            p = subprocess.run(cmd, cwd=SPEC, env=e, stdout=subprocess.PIPE, stderr=subprocess.STDOUT, text=True,
                               timeout=timeout)
            rc, out = p.returncode, p.stdout
    except subprocess.TimeoutExpired:
        shutil.rmtree(md, ignore_errors=True)
        raise ToolError("TLC timed out after %ds on %s/%s" % (timeout, module, cfg))
    shutil.rmtree(md, ignore_errors=True)
    return rc, out


def tlc_json_lines(out, tag):
    """records printed by a spec with PrintT(ToJson([tag |-> ..., ...])): TLC prints the JSON text as one
    TLA+ string literal per line"""
    recs = []
    prefix = '"{'
    for line in out.splitlines() if isinstance(out, str) else out:
        line = line.rstrip("\n")
        if line.startswith(prefix) and line.endswith('}"'):
            try:
                r = json.loads(json.loads(line))
            except ValueError:
                try:
                    r = json.loads(line[1:-1].replace('\\"', '"').replace("\\\\", "\\"))
                except ValueError:
                    continue
            if r.get("tag") == tag:
                recs.append(r)
    return recs


RE_STATES = re.compile(r"(\d+) states generated, (\d+) distinct states found")


def tlc_counts(out):
    m = None
    for m in RE_STATES.finditer(out):
        pass
    if not m:
        return 0, 0
    return int(m.group(1)), int(m.group(2))


def model_check(module, cfg, env, workers=8, timeout=900, heap="6g"):
    """Model-check; returns dict(states, transitions, ok, out).  A property/invariant violation of
    the SPEC itself is a tool error (the design-level model must hold before it can judge code)."""
    t0 = time.time()
    rc, out = run_tlc(module, cfg, env=env, workers=workers, timeout=timeout, heap=heap, extra=["-coverage", "1"])
    gen, dist = tlc_counts(out)
    ok = "Model checking completed. No error has been found." in out
    if not ok:
        raise ToolError("model check of %s/%s did not pass:\n%s" % (module, cfg, out[-3000:]))
    # vacuity: every action of Next must have been taken at least once (coverage lines "<Action ...>: n:m")
    never = []
    for m in re.finditer(r"^<(\w+) line \d+, col \d+ to line \d+, col \d+ of module (\w+)>: (\d+):(\d+)", out, re.M):
        if m.group(1) not in ("Init",) and int(m.group(4)) == 0:
            never.append(m.group(1))
    return dict(states=dist, transitions=gen, wall=time.time() - t0, never_taken=sorted(set(never)))


# ------------------------------------------------------------------------------------------------
# Evidence / verdicts
# ------------------------------------------------------------------------------------------------

def load_known():
    p = os.path.join(VERIF, "known_findings.json")
    if not os.path.exists(p):
        return []
    return json.load(open(p)).get("findings", [])


class Verdict:
    """Collects violations, matches them against known findings, writes replay + evidence files,
    prints the interface lines and computes the exit code."""

    def __init__(self, prop, tier, seed, level):
        self.prop, self.tier, self.seed, self.level = prop, tier, seed, level
        self.t0 = time.time()
        self.violations = []   # dicts: {key, what, replay(dict)}
        self.coverage = {}
        self.assumptions = []
        self.notes = {}

    def violation(self, key, what, replay):
        """key: a stable identifier of the failing input class (matched against known findings)"""
        self.violations.append(dict(key=key, what=what, replay=replay))

    def finish(self):
        ensure_dirs()
        known = [k for k in load_known() if k.get("property") == self.prop and k.get("status") == "known"]
        new, hit = [], {}
        for v in self.violations:
            k = next((k for k in known if re.fullmatch(k["match"], v["key"])), None)
            if k is None:
                new.append(v)
            else:
                hit.setdefault(k["id"], (k, v))
        for kid, (k, v) in sorted(hit.items()):
            print("KNOWN-FINDING: property=%s %s (%s)" % (self.prop, k["what"], v["key"]))
        written = 0
        seen = set()
        for v in new:
            if v["key"] in seen and written >= 3:
                continue
            seen.add(v["key"])
            if written >= 10:
                break
            dig = hashlib.sha256(json.dumps(v["replay"], sort_keys=True).encode()).hexdigest()[:12]
            rdir = REPLAYS if not run_tag() else os.path.join(WORK, "replays" + run_tag())
            os.makedirs(rdir, exist_ok=True)
            path = os.path.join(rdir, "%s-%s.json" % (self.prop, dig))
            with open(path, "w") as f:
                json.dump(dict(property=self.prop, key=v["key"], what=v["what"], replay=v["replay"]), f, indent=1)
            print("VIOLATION property=%s replay=%s" % (self.prop, path))
            print("  " + v["what"][:400])
            written += 1
        ev = dict(property_id=self.prop, tier=self.tier, seed=self.seed, level=self.level,
                  coverage=self.coverage, assumptions=self.assumptions, wall_s=round(time.time() - self.t0, 2),
                  violations=len(new))
        ev["coverage"].setdefault("known_findings_hit", sorted(hit.keys()))
        if self.notes:
            ev["coverage"]["notes"] = self.notes
        evdir = EVID if not run_tag() else os.path.join(WORK, "evidence" + run_tag())
        os.makedirs(evdir, exist_ok=True)
        with open(os.path.join(evdir, "%s.json" % self.prop), "w") as f:
            json.dump(ev, f, indent=1)
        sys.stdout.flush()
        if self.tier == "thorough" and not new:
            drop_workdirs()
        return 1 if new else 0


def main_wrapper(fn):
    """Run a check function; tool errors exit 2 (never reported as violations)."""
    try:
        rc = fn()
    except ToolError as e:
        print("TOOL-ERROR: %s" % e, file=sys.stderr)
        sys.exit(2)
    except (KeyboardInterrupt, SystemExit):
        raise
    except BaseException:
        # a bug in the checking machinery is a tool error, never a verdict about the code under test
        import traceback
        traceback.print_exc()
        print("TOOL-ERROR: internal error in the check", file=sys.stderr)
        sys.exit(2)
    sys.exit(rc)
