"""Universe generator: concrete nostr events + their abstract records.

One source of truth for both sides of the conformance checks:
  * TLC reads the universe with JsonDeserialize(IOEnv.UNIVERSE) (spec/PocketStoreDefs.tla)
  * the Rust harness builds the concrete binary events from the same file.

Every byte string used anywhere (tag names, tag values, d values) is *interned*: equality of
interned indices in the spec is byte equality in the implementation.  String index 0 is always "".

Abstract derivations made here (and nowhere else):
  d     : value of the first tag named "d" (its 2nd string) or -1
  dels  : for kind-5 events, the ordered list of well-formed deletion targets
          ("e" tags with a 64-hex id -> id index; "a" tags with kind:pubkey:d -> address)
  addr  : index into `addrs` of the event's replaceable address, or 0 (= none)
"""
import hashlib
import json
import random

INF = 2000000000  # abstract "u64::MAX" for until / "no limit" markers


def sha(b):
    return hashlib.sha256(b).digest()


def is_repl(k):
    return k == 0 or k == 3 or 10000 <= k < 20000


def is_eph(k):
    return 20000 <= k < 30000


def is_param(k):
    return 30000 <= k < 40000


HEXCH = set(b"0123456789abcdefABCDEF")


class Universe:
    def __init__(self, name, nauthors=2, nabsent=1, tscale=1):
        self.name = name
        self.tscale = tscale     # concrete created_at = ts * tscale (times beyond 32 bits with small integers in the spec)
        self.strs = [b""]
        self.sidx = {b"": 0}
        self.nauthors = nauthors
        self.pubkeys = [sha(b"author:%d" % a) for a in range(1, nauthors + 1)]
        self.events = []  # concrete+abstract dicts
        self.nabsent = nabsent
        self.absent_ids = [sha(b"absent:%s:%d" % (name.encode(), i)) for i in range(1, nabsent + 1)]
        self.addrs = []  # list of (kind, au, d)  1-based index in TLA; 0 = none
        self.aidx = {}
        self._pending = []

    # -- interning -------------------------------------------------------------------------
    def s(self, b):
        if isinstance(b, str):
            b = b.encode()
        if b not in self.sidx:
            self.sidx[b] = len(self.strs)
            self.strs.append(b)
        return self.sidx[b]

    def addr(self, kind, au, d):
        key = (kind, au, d)
        if key not in self.aidx:
            self.addrs.append(key)
            self.aidx[key] = len(self.addrs)
        return self.aidx[key]

    # -- event construction ----------------------------------------------------------------
    def ev_id(self, n):
        """concrete id of event number n (1-based); numbers beyond the events are absent ids"""
        return sha(b"event:%s:%d" % (self.name.encode(), n))

    def add(self, au, kind, ts, tags=(), clen=0):
        """tags: list of lists of bytes/str; special forms:
             ("e", ("ev", n))        -> hex id of event n (may be > number of events: absent id)
             ("a", ("addr", kind, au, dbytes))
             ("p", ("pk", au))
        """
        self._pending.append(dict(au=au, kind=kind, ts=ts, tags=list(tags), clen=clen))
        return len(self._pending)

    def _conc(self, x):
        if isinstance(x, tuple):
            if x[0] == "ev":
                n = x[1]
                if n == "absent":          # the first id beyond the events of this universe
                    n = len(self._pending) + 1
                return self.ev_id(n).hex().encode()
            if x[0] == "pk":
                return self.pubkeys[x[1] - 1].hex().encode()
            if x[0] == "addr":
                d = x[3] if isinstance(x[3], bytes) else x[3].encode()
                return b"%d:%s:" % (x[1], self.pubkeys[x[2] - 1].hex().encode()) + d
            raise ValueError(x)
        return x if isinstance(x, bytes) else x.encode()

    def finish(self):
        n = len(self._pending)
        idmap = {self.ev_id(i).hex().encode(): i for i in range(1, n + 1)}
        # absent ids get numbers n+1..n+nabsent and the same derivation as events
        for j in range(1, self.nabsent + 1):
            idmap[self.ev_id(n + j).hex().encode()] = n + j
        pkmap = {pk.hex().encode(): a + 1 for a, pk in enumerate(self.pubkeys)}
        for i, p in enumerate(self._pending, start=1):
            ctags = [[self._conc(x) for x in t] for t in p["tags"]]
            # abstract d
            d = -1
            for t in ctags:
                if len(t) >= 1 and t[0] == b"d":
                    d = self.s(t[1]) if len(t) >= 2 else -1
                    break
            kind = p["kind"]
            if is_repl(kind):
                a = self.addr(kind, p["au"], 0)
            elif is_param(kind) and d >= 0:
                a = self.addr(kind, p["au"], d)
            else:
                a = 0
            dels = []
            if kind == 5:
                for t in ctags:
                    if len(t) >= 2 and t[0] == b"e":
                        v = t[1]
                        if len(v) == 64 and all(c in HEXCH for c in v):
                            tid = idmap.get(v.lower(), None)
                            if tid is None:
                                raise ValueError("e tag names an id outside the universe")
                            dels.append(dict(t="e", id=tid, addr=0, aau=0))
                    elif len(t) >= 2 and t[0] == b"a":
                        parts = t[1].split(b":", 2)
                        if len(parts) == 3:
                            try:
                                ks = parts[0].decode()
                                if not ks.isdigit():
                                    raise ValueError
                                k = int(ks)
                                if k > 65535:
                                    raise ValueError
                            except Exception:
                                continue
                            pk = parts[1]
                            if len(pk) == 64 and all(c in HEXCH for c in pk):
                                aau = pkmap.get(pk.lower(), 0)
                                if aau == 0:
                                    raise ValueError("a tag names an unknown author")
                                ai = self.addr(k, aau, self.s(parts[2]))
                                dels.append(dict(t="a", id=0, addr=ai, aau=aau))
            size = 144 + (4 + 2 * len(ctags) + sum(2 + sum(2 + len(x) for x in t) for t in ctags)) + 4 + p["clen"]
            self.events.append(dict(
                id=i, au=p["au"], kind=kind, ts=p["ts"], d=d, addr=a, dels=dels,
                tags=[[self.s(x) for x in t] for t in ctags],
                clen=p["clen"], size=size,
                idhex=self.ev_id(i).hex(),
            ))
        self._pending = []
        return self

    # -- output ----------------------------------------------------------------------------
    def to_json(self):
        n = len(self.events)
        s_p = self.s(b"p")
        pk_sidx = [self.s(pk.hex()) for pk in self.pubkeys]
        return dict(
            name=self.name,
            tscale=self.tscale,
            s_p=s_p,
            pk_sidx=pk_sidx,
            n=n,
            nids=n + self.nabsent,
            nauthors=self.nauthors,
            pubkeys=[pk.hex() for pk in self.pubkeys],
            idhex=[self.ev_id(i).hex() for i in range(1, n + self.nabsent + 1)],
            strs=[b.hex() for b in self.strs],
            addrs=[dict(kind=k, au=a, d=d) for (k, a, d) in self.addrs],
            events=self.events,
        )

    def write(self, path):
        with open(path, "w") as f:
            json.dump(self.to_json(), f)
        return path


# ------------------------------------------------------------------------------------------------
# Curated universes (mirrored 1:1 as TLC constants through the JSON file)
# ------------------------------------------------------------------------------------------------

def u_core():
    """General universe: regular / replaceable / parameterised / ephemeral / gift-wrap events and
    deletion requests naming own, foreign and absent ids and addresses (C04 C12 C16 C17 C18 and the
    design-level invariants)."""
    u = Universe("core", nauthors=2, nabsent=1)
    A, B = 1, 2
    u.add(A, 1, 10, [["t", "x"], ["client", "c"]], clen=20)                # 1 regular
    u.add(B, 1, 11, [["t", "x"], ["t", "y"]], clen=0)                      # 2 regular, other author
    u.add(A, 0, 10, [], clen=300)                                           # 3 replaceable v1
    u.add(A, 0, 20, [], clen=0)                                             # 4 replaceable v2: the smallest possible event (152 bytes)
    u.add(A, 30000, 10, [["d", "x"]], clen=700)                             # 5 param x v1
    u.add(A, 30000, 20, [["d", "x"]], clen=1)                               # 6 param x v2
    u.add(A, 30000, 15, [["d", "y"]], clen=8)                               # 7 param y
    u.add(A, 20000, 12, [["t", "x"]], clen=3)                               # 8 ephemeral
    u.add(B, 1059, 13, [["p", ("pk", A)]], clen=40)                         # 9 gift-wrap to A by B
    u.add(A, 5, 30, [["e", ("ev", 1)]], clen=0)                             # 10 A deletes own 1
    u.add(B, 5, 31, [["e", ("ev", 2)], ["e", ("ev", 1)]], clen=0)           # 11 B: own 2, then foreign 1
    u.add(A, 5, 15, [["a", ("addr", 30000, A, "x")]], clen=0)               # 12 A deletes addr x as of 15
    u.add(A, 5, 12, [["a", ("addr", 30000, A, "x")]], clen=0)               # 13 A deletes addr x as of 12
    u.add(A, 5, 32, [["e", ("ev", 15)]], clen=0)                            # 14 A deletes an absent id
    return u.finish()


def u_c09():
    """Replaceable addresses: neighbours in author, kind, d (NUL padding, long common prefixes),
    kinds on the class boundaries, three timestamps with a tie."""
    u = Universe("c09", nauthors=2, nabsent=1)
    A, B = 1, 2
    long1 = b"L" * 182 + b"one"
    long2 = b"L" * 182 + b"two"
    u.add(A, 30000, 10, [["d", "x"]], clen=10)          # 1
    u.add(A, 30000, 20, [["d", "x"], ["expiration", "1"]], clen=11)          # 2 newer at same address; NIP-40 expiration long past
    u.add(A, 30000, 20, [["d", "x"]], clen=12)          # 3 tie with 2
    u.add(A, 30000, 15, [["d", b"x\x00"]], clen=13)     # 4 d differs by a trailing NUL
    u.add(A, 30000, 15, [["d", ""]], clen=14)           # 5 empty d
    u.add(A, 30000, 12, [["d", long1]], clen=15)        # 6 long d
    u.add(A, 30000, 18, [["d", long2]], clen=16)        # 7 long d, same 182-byte prefix
    u.add(B, 30000, 14, [["d", "x"]], clen=17)          # 8 other author
    u.add(A, 30001, 14, [["d", "x"]], clen=18)          # 9 other kind
    u.add(A, 10000, 10, [], clen=19)                    # 10 replaceable
    u.add(A, 10000, 20, [["expiration", "1000"]], clen=20)  # 11 replaceable newer; expired long ago
    u.add(A, 19999, 15, [], clen=21)                    # 12 replaceable boundary kind
    u.add(A, 9999, 15, [["d", "x"]], clen=22)           # 13 regular (just below)
    u.add(A, 40000, 15, [["d", "x"]], clen=23)          # 14 regular (just above the param range)
    u.add(A, 3, 15, [], clen=24)                        # 15 replaceable kind 3
    u.add(B, 10000, 30, [], clen=25)                    # 16 replaceable other author
    return u.finish()


def u_c10():
    """Deletion requests mixing own / foreign / absent / malformed targets in every position."""
    u = Universe("c10", nauthors=2, nabsent=1)
    A, B = 1, 2
    u.add(A, 1, 10, [["t", "x"]], clen=5)                                    # 1 victim (A)
    u.add(A, 30000, 10, [["d", "x"]], clen=6)                                # 2 victim param (A)
    u.add(A, 10000, 10, [], clen=7)                                          # 3 victim repl (A)
    u.add(B, 1, 11, [], clen=8)                                              # 4 B's own
    u.add(B, 30000, 11, [["d", "x"]], clen=9)                                # 5 B's own param
    u.add(B, 5, 20, [["e", ("ev", 1)]], clen=0)                              # 6 foreign only
    u.add(B, 5, 21, [["e", ("ev", 4)], ["e", ("ev", 1)]], clen=0)            # 7 own, foreign
    u.add(B, 5, 22, [["e", ("ev", 1)], ["e", ("ev", 4)]], clen=0)            # 8 foreign, own
    u.add(B, 5, 23, [["a", ("addr", 30000, A, "x")]], clen=0)                # 9 foreign address
    u.add(B, 5, 24, [["a", ("addr", 30000, B, "x")], ["a", ("addr", 10000, A, "")]], clen=0)  # 10 own addr, foreign addr
    u.add(B, 5, 25, [["e", "zz"], ["a", "nonsense"], ["e", ("ev", "absent")], ["e", ("ev", 1)]], clen=0)  # 11 malformed, absent, foreign
    u.add(B, 5, 26, [["e", ("ev", 4)], ["a", ("addr", 30000, B, "x")]], clen=0)  # 12 all own (legit)
    u.add(A, 1059, 12, [["p", ("pk", B)]], clen=4)                             # 13 A's gift-wrap addressed to B
    u.add(B, 5, 28, [["e", ("ev", 13)]], clen=0)                               # 14 B (the recipient, not the author) asks to delete it
    return u.finish()


def u_c12x():
    """Deletion requests that fail late: after 258 effective targets, and after an effective first tag through an LMDB
    key-size error (marker key of an own address whose d value has 480 bytes)."""
    u = Universe("c12x", nauthors=2, nabsent=1)
    A, B = 1, 2
    u.add(A, 1, 10, [["t", "x"]], clen=5)                                    # 1 foreign (A)
    u.add(B, 1, 11, [], clen=8)                                              # 2 B's own
    u.add(B, 30000, 11, [["d", "x"]], clen=9)                                # 3 B's own param
    # 4: 258 effective own / absent targets, then a foreign one (fails at its 259th tag)
    u.add(B, 5, 27, [["e", ("ev", 2)], ["a", ("addr", 30000, B, "x")]] + [["e", ("ev", "absent")]] * 256 + [["e", ("ev", 1)]], clen=0)
    # 5: all targets own, but the second one's marker key exceeds LMDB's key size
    u.add(B, 5, 29, [["e", ("ev", 2)], ["a", ("addr", 30000, B, "k" * 480)]], clen=0)
    u.add(B, 5, 30, [["e", ("ev", 2)]], clen=0)                              # 6 plain own deletion
    u.add(B, 62, 31, [["relay", "ALL_RELAYS"]], clen=0)                      # 7 a NIP-62 request-to-vanish event (stored like any event)
    u.add(B, 5, 32, [["e", ("ev", 7)]], clen=0)                              # 8 B deletes its own vanish request (7 is refused afterwards)
    return u.finish()


def u_c11():
    """Several deletion requests per id / address at different times, the events they cover and
    newer ones they do not."""
    u = Universe("c11", nauthors=2, nabsent=1)
    A, B = 1, 2
    u.add(A, 30000, 10, [["d", "x"]], clen=5)                    # 1 at x, t=10
    u.add(A, 30000, 20, [["d", "x"]], clen=6)                    # 2 at x, t=20
    u.add(A, 30000, 30, [["d", "x"]], clen=7)                    # 3 at x, t=30
    u.add(A, 10000, 10, [], clen=8)                              # 4 repl t=10
    u.add(A, 10000, 25, [], clen=9)                              # 5 repl t=25
    u.add(A, 1, 10, [], clen=10)                                 # 6 regular
    u.add(A, 5, 25, [["a", ("addr", 30000, A, "x")]], clen=0)    # 7 delete x as of 25
    u.add(A, 5, 15, [["a", ("addr", 30000, A, "x")]], clen=0)    # 8 delete x as of 15 (older request)
    u.add(A, 5, 20, [["a", ("addr", 10000, A, "")]], clen=0)     # 9 delete repl as of 20
    u.add(A, 5, 12, [["a", ("addr", 10000, A, "")]], clen=0)     # 10 delete repl as of 12 (older)
    u.add(A, 5, 40, [["e", ("ev", 6)]], clen=0)                  # 11 delete 6 by id
    u.add(A, 5, 41, [["e", ("ev", 6)], ["e", ("ev", 1)]], clen=0)  # 12 delete 6 and 1 by id
    return u.finish()


def u_sz():
    """Map-geometry universe: tagless regular events whose sizes put the end of the map just before, exactly on and just
    after a growth-chunk boundary (dev profile: 2048-byte chunks, 8-byte header, 152-byte minimal event), an
    ephemeral event and a multi-chunk event.  Not used for an edge cover: driven by targeted histories."""
    u = Universe("sz", nauthors=2, nabsent=1)
    A, B = 1, 2
    for k in range(-10, 11):
        u.add(A if k % 2 == 0 else B, 1, 100 + k, [], clen=1888 + k)        # 1..21: first store ends at 2048 + k
    u.add(A, 20000, 50, [], clen=1888)                                      # 22 ephemeral, ends exactly on the boundary
    u.add(B, 1, 60, [], clen=4096 - 152)                                    # 23 exactly two chunks long
    u.add(B, 1, 61, [], clen=5000)                                          # 24 multi-chunk
    u.add(A, 1, 62, [], clen=0)                                             # 25 minimal
    u.add(A, 1, 63, [["t", "x"]], clen=65535)                               # 26 content length just below 2^16
    u.add(B, 1, 64, [], clen=65536 + 40)                                    # 27 content longer than 2^16 bytes
    u.add(A, 20000, 51, [], clen=10)                                        # 28 a second ephemeral event of the same author and kind
    return u.finish()


def u_c09b():
    """Address derivation corner cases: several d tags (the first one is the address; all are indexed), no d tag (no address),
    an empty tag before the d tag, the empty d value, regular and neighbouring kinds carrying the same d value."""
    u = Universe("c09b", nauthors=2, nabsent=1)
    A, B = 1, 2
    u.add(A, 30000, 10, [["d", "x"], ["d", "y"]], clen=5)          # 1 address x (also indexed under y)
    u.add(A, 30000, 20, [["d", "y"]], clen=6)                      # 2 address y
    u.add(A, 30000, 15, [["t", "x"]], clen=7)                      # 3 no d tag: no address
    u.add(A, 30000, 12, [["d", ""]], clen=8)                       # 4 address with the empty d value
    u.add(A, 30000, 5, [[], ["d", "x"]], clen=9)                   # 5 empty tag before the d tag: address x, older than 1
    u.add(A, 1, 30, [["d", "x"]], clen=10)                         # 6 regular kind carrying d = x
    u.add(A, 30001, 30, [["d", "x"]], clen=11)                     # 7 neighbouring kind, same d, newer
    u.add(A, 30000, 25, [["d", "x"]], clen=12)                     # 8 newer at x
    u.add(A, 5, 40, [["a", ("addr", 30000, A, "y")]], clen=0)      # 9 deletes address y (not 1, whose address is x)
    u.add(B, 30000, 11, [["d", "x"]], clen=13)                     # 10 other author at x
    return u.finish()


def u_c10b():
    """Foreign deletion requests against the legacy replaceable kinds 0 / 3 and against another author's stored
    deletion request."""
    u = Universe("c10b", nauthors=2, nabsent=1)
    A, B = 1, 2
    u.add(A, 0, 10, [], clen=5)                                              # 1 A's profile
    u.add(A, 3, 10, [["p", ("pk", B)]], clen=6)                              # 2 A's contact list
    u.add(B, 5, 30, [["a", ("addr", 0, A, "")]], clen=0)                     # 3 B names A's kind-0 address
    u.add(B, 5, 31, [["a", ("addr", 3, A, "")]], clen=0)                     # 4 B names A's kind-3 address
    u.add(A, 5, 20, [["e", ("ev", "absent")]], clen=0)                       # 5 a deletion request by A (stored event of kind 5)
    u.add(B, 5, 32, [["e", ("ev", 5)]], clen=0)                              # 6 B names A's stored deletion request
    u.add(B, 0, 11, [], clen=7)                                              # 7 B's own profile
    u.add(B, 5, 33, [["a", ("addr", 0, B, "")], ["e", ("ev", 5)]], clen=0)   # 8 own address first, then A's deletion request
    return u.finish()


def u_c09c():
    """Ties and class boundaries: two events at one address with EQUAL created_at (replaceable and parameterized; the ids
    decide nothing in the store's rules, and both submission orders occur in the edge cover), same-d pairs of kinds on both
    sides of every class boundary (9999 / 10000, 19999 / 20000 is ephemeral, 39999 / 40000)."""
    u = Universe("c09c", nauthors=1, nabsent=1)
    A = 1
    u.add(A, 10000, 50, [], clen=5)                       # 1 replaceable
    u.add(A, 10000, 50, [], clen=6)                       # 2 same address, same created_at
    u.add(A, 30000, 50, [["d", "t"]], clen=7)             # 3 parameterized
    u.add(A, 30000, 50, [["d", "t"]], clen=8)             # 4 same address, same created_at
    u.add(A, 40000, 10, [["d", "x"]], clen=9)             # 5 regular kind just above the parameterized range
    u.add(A, 40000, 20, [["d", "x"]], clen=10)            # 6 same d, newer: both stay
    u.add(A, 39999, 15, [["d", "x"]], clen=11)            # 7 last parameterized kind, same d
    u.add(A, 9999, 5, [], clen=12)                        # 8 regular kind just below the replaceable range
    u.add(A, 9999, 6, [], clen=13)                        # 9 newer: both stay
    u.add(A, 19999, 7, [], clen=14)                       # 10 last replaceable kind
    u.add(A, 19999, 8, [], clen=15)                       # 11 displaces 10
    u.add(A, 10001, 0, [], clen=16)                       # 12 a holder dated at the epoch (created_at = 0)
    u.add(A, 10001, 5, [], clen=17)                       # 13 displaces 12
    return u.finish()


def u_c09d():
    """Index-key shapes around displacement: a longer single-letter tag value before a short d value in one event (keys are
    built per tag in a fixed-width field), and an address that already carries a deletion marker OLDER than its holders."""
    u = Universe("c09d", nauthors=1, nabsent=1)
    A = 1
    u.add(A, 30003, 10, [["t", "nostrdev"], ["d", "a"]], clen=18)      # 1 a longer single-letter value BEFORE a short d value
    u.add(A, 30003, 20, [["d", "a"]], clen=19)                         # 2 displaces 1
    u.add(A, 5, 3, [["a", ("addr", 30003, A, "a")]], clen=0)           # 3 a deletion of that address OLDER than both versions
    u.add(A, 30003, 15, [["e", "abcdefgh"], ["t", "xy"], ["d", "a"], ["p", "q"]], clen=20)   # 4 between them in time, descending value lengths
    u.add(A, 10003, 10, [["e", "longervalue"], ["t", "s"]], clen=21)   # 5 replaceable with the same shape
    u.add(A, 10003, 20, [["t", "s"]], clen=22)                         # 6 displaces 5
    return u.finish()


def u_c10c():
    """Deletion requests whose a tags name kinds that have no addresses (regular, just above the parameterized range):
    the marker is recorded, no event is covered."""
    u = Universe("c10c", nauthors=2, nabsent=1)
    A, B = 1, 2
    u.add(A, 1, 10, [], clen=5)                                        # 1 A's note
    u.add(A, 1, 12, [["d", "note"]], clen=6)                           # 2 A's note carrying a d tag
    u.add(A, 5, 20, [["a", ("addr", 1, A, "")]], clen=0)               # 3 A names "1:A:" - covers nothing
    u.add(A, 5, 21, [["a", ("addr", 1, A, "note")]], clen=0)           # 4 A names "1:A:note" - covers nothing
    u.add(B, 1, 11, [], clen=7)                                        # 5 B's note
    u.add(B, 5, 22, [["a", ("addr", 1, A, "")]], clen=0)               # 6 B names A's "1:A:"
    u.add(A, 40000, 10, [["d", "x"]], clen=8)                          # 7 kind 40000 with a d tag
    u.add(A, 5, 30, [["a", ("addr", 40000, A, "x")]], clen=0)          # 8 A names "40000:A:x" - covers nothing
    return u.finish()


def u_qv():
    """Tag-value geometry for queries: index keys hold a tag value in a fixed 182-byte field (zero-padded / cut), so values
    that differ only by trailing NULs or beyond byte 182 share a key and the query must still tell them apart; tags that
    come after an empty or name-only tag; a multi-letter name that extends a letter."""
    u = Universe("qv", nauthors=2, nabsent=1)
    A, B = 1, 2
    L = b"v" * 182
    u.add(A, 1, 10, [["t", "abc"]], clen=5)                          # 1
    u.add(A, 1, 11, [["t", b"abc\x00"]], clen=6)                     # 2 same value + NUL
    u.add(B, 1, 12, [["t", L + b"1"]], clen=7)                       # 3 long value
    u.add(B, 1, 13, [["t", L + b"2"]], clen=8)                       # 4 same first 182 bytes
    u.add(A, 1, 14, [[], ["t", "abc"]], clen=9)                      # 5 an empty tag first
    u.add(A, 7, 15, [["t"], ["t", "abc"], ["p", ("pk", B)]], clen=10)  # 6 a name-only tag first
    u.add(B, 1, 16, [["tt", "abc"]], clen=11)                        # 7 two-letter name
    u.add(B, 1059, 17, [["p", ("pk", A)], ["t", L]], clen=12)        # 8 exactly 182 bytes
    u.add(A, 1, 18, [["t", "ab"], ["u", "abc"]], clen=13)            # 9 prefix value; same value under another letter
    u.add(A, 3, 19, [["p", ("pk", B)], ["t", "abc"]], clen=14)       # 10 replaceable kind, two authors with the same tag values
    u.add(B, 3, 20, [["p", ("pk", B)], ["t", "abc"]], clen=15)       # 11
    u.add(A, 1, 21, [["E", "abc"], ["K", "1"]], clen=16)             # 12 upper-case single-letter tags (NIP-22 style)
    u.add(B, 1, 22, [["E", "abc"], ["e", "abc"]], clen=17)           # 13 upper and lower case of one letter
    return u.finish()


def u_c10d():
    """Foreign e targets of an addressable kind, and requests that also carry NIP-09 k tags (the kind of the target as the
    requester claims it): neither makes a foreign target deletable."""
    u = Universe("c10d", nauthors=2, nabsent=1)
    A, B = 1, 2
    u.add(B, 1, 10, [], clen=5)                                              # 1 B's note
    u.add(B, 30000, 11, [["d", "art"]], clen=6)                              # 2 B's addressable event
    u.add(A, 5, 20, [["e", ("ev", 1)], ["k", "30023"]], clen=0)              # 3 A names B's note, claims another kind
    u.add(A, 5, 21, [["e", ("ev", 2)]], clen=0)                              # 4 A names B's addressable event by id
    u.add(A, 5, 22, [["e", ("ev", 2)], ["k", "30000"]], clen=0)              # 5 ... with the matching k tag
    u.add(A, 1, 9, [], clen=7)                                               # 6 A's own note
    u.add(A, 5, 23, [["e", ("ev", 6)], ["k", "1"]], clen=0)                  # 7 own target with its k tag (effective)
    u.add(A, 5, 24, [["k", "1"], ["e", ("ev", 1)]], clen=0)                  # 8 k tag first, then B's note
    # a NIP-26 delegation tag naming B as the delegator (the store cannot check the token): A's request stays A's request
    u.add(A, 5, 25, [["delegation", ("pk", B), "kind=5", "00" * 64], ["e", ("ev", 1)]], clen=0)   # 9
    u.add(A, 5, 5, [["e", ("ev", 1)]], clen=0)                                # 10 a request dated BEFORE the foreign note it names
    u.add(A, 5, 6, [["a", ("addr", 30000, B, "art")]], clen=0)                # 11 ... and before the foreign address's event
    return u.finish()


def u_c10f():
    """e tags with relay, marker and an AUTHOR HINT (NIP-10 style, five strings): whatever the hint claims, ownership is the
    stored target's pubkey."""
    u = Universe("c10f", nauthors=2, nabsent=1)
    A, B = 1, 2
    u.add(B, 1, 10, [], clen=5)                                                              # 1 B's note
    u.add(B, 30000, 11, [["d", "art"]], clen=6)                                              # 2 B's addressable event
    u.add(A, 1, 9, [], clen=7)                                                               # 3 A's own note
    u.add(A, 5, 26, [["e", ("ev", 1), "wss://r.example", "", ("pk", A)]], clen=0)            # 4 B's note, hint = the requester
    u.add(A, 5, 27, [["e", ("ev", 2), "", "mention", ("pk", B)]], clen=0)                    # 5 B's addressable event, true hint
    u.add(A, 5, 28, [["e", ("ev", 3), "", "", ("pk", B)], ["e", ("ev", 1), "", "", ("pk", A)]], clen=0)   # 6 own target with a
    #                                                                        false hint first, then B's note claimed as A's
    return u.finish()


def u_c14b():
    """A deletion request with many targets (first and last one the requester's own stored events, absent ids in between):
    one store call with a long run of index updates inside one transaction (used by the concurrency check)."""
    u = Universe("c14b", nauthors=2, nabsent=1)
    A, B = 1, 2
    u.add(B, 1, 10, [], clen=5)                                                                  # 1 first target
    u.add(B, 1, 11, [], clen=6)                                                                  # 2 last target
    u.add(B, 5, 30, [["e", ("ev", 1)]] + [["e", ("ev", "absent")]] * 130 + [["e", ("ev", 2)]], clen=0)   # 3 the request (132 tags)
    u.add(A, 1, 12, [], clen=7)                                                                  # 4 bystander
    return u.finish()


def u_c10e():
    """Events of other authors that REFER to a deleted event (reposts kind 6 / 16, a reaction, a reply): deleting one's own
    event never removes them."""
    u = Universe("c10e", nauthors=2, nabsent=1)
    A, B = 1, 2
    u.add(B, 1, 10, [], clen=5)                                        # 1 B's note
    u.add(A, 6, 11, [["e", ("ev", 1)], ["p", ("pk", B)]], clen=6)      # 2 A reposts it
    u.add(A, 16, 12, [["e", ("ev", 1)], ["k", "1"]], clen=7)           # 3 A's generic repost
    u.add(A, 7, 13, [["e", ("ev", 1)]], clen=1)                        # 4 A's reaction
    u.add(B, 5, 20, [["e", ("ev", 1)]], clen=0)                        # 5 B deletes its own note
    u.add(B, 6, 14, [["e", ("ev", 1)]], clen=8)                        # 6 B's own repost of its note (not named by 5: stays as well)
    u.add(A, 1, 15, [["e", ("ev", 1)], ["p", ("pk", B)]], clen=9)      # 7 A's reply
    return u.finish()


def u_c12y():
    """Refused requests / events whose refusal comes AFTER something else of theirs looked removable: a gift wrap named by
    its recipient together with a foreign note; a replaceable event whose id was marked deleted before it arrived."""
    u = Universe("c12y", nauthors=3, nabsent=1)
    R, O, T = 1, 2, 3
    u.add(T, 1059, 10, [["p", ("pk", R)]], clen=5)                     # 1 gift wrap from a throw-away key to R
    u.add(O, 1, 11, [], clen=6)                                        # 2 somebody else's note
    u.add(R, 5, 20, [["e", ("ev", 1)], ["e", ("ev", 2)]], clen=0)      # 3 R names the wrap and the foreign note: refused
    u.add(R, 5, 21, [["e", ("ev", 1)]], clen=0)                        # 4 R names the wrap alone
    u.add(R, 10000, 10, [], clen=7)                                    # 5 P: the standing version
    u.add(R, 10000, 20, [], clen=8)                                    # 6 N: a newer version ...
    u.add(R, 5, 15, [["e", ("ev", 6)]], clen=0)                        # 7 ... whose id R deletes (possibly before N arrives)
    u.add(R, 30000, 10, [["d", "x"]], clen=9)                          # 8 the same for an addressable kind
    u.add(R, 30000, 20, [["d", "x"]], clen=10)                         # 9
    u.add(R, 5, 16, [["e", ("ev", 9)]], clen=0)                        # 10
    return u.finish()


def u_c09t():
    """Times beyond 32 bits of seconds (concrete created_at = 3 x the listed value, i.e. about 4.5e9): an index key or a
    comparison that keeps only 32 bits of the time confuses newer and older."""
    u = Universe("c09t", nauthors=1, nabsent=1, tscale=3)
    A = 1
    T = 1500000000
    u.add(A, 10000, T + 10, [], clen=5)                                # 1 holder
    u.add(A, 10000, T + 5, [], clen=6)                                 # 2 older: refused while 1 stands
    u.add(A, 10000, T + 20, [], clen=7)                                # 3 newer: displaces
    u.add(A, 30000, T + 10, [["d", "x"]], clen=8)                      # 4
    u.add(A, 30000, T + 5, [["d", "x"]], clen=9)                       # 5
    u.add(A, 5, T + 7, [["a", ("addr", 30000, A, "x")]], clen=0)       # 6 deletes x as of T+7: covers 5, not 4
    u.add(A, 1, T + 1, [["t", "x"]], clen=10)                          # 7 regular
    u.add(A, 10000, 100, [], clen=11)                                  # 8 an old 32-bit time at the same address
    return u.finish()


def u_many():
    """One author with several hundred events (more than any plausible internal page or result ceiling) and a second author:
    queries without a limit return all of them, vanish removes all of them.  Used with fixed histories only (no edge cover)."""
    u = Universe("many", nauthors=2, nabsent=1)
    A, B = 1, 2
    for i in range(1, 521):
        u.add(A, 1, i, [["t", "x"]] if i % 2 == 0 else [], clen=i % 7)
    u.add(B, 1, 600, [["t", "x"]], clen=3)
    u.add(B, 1, 5, [], clen=4)
    u.add(B, 1059, 601, [["p", ("pk", A)]], clen=5)
    return u.finish()


def u_c18b():
    """An event with several hundred tags: two multi-letter (not indexed) tags first, then 260 p tags with distinct values -
    removal has to take out every tag-index entry it put in, however many there are and whatever stands before them."""
    u = Universe("c18b", nauthors=2, nabsent=1)
    A, B = 1, 2
    many = [["client", "x"], ["alt", "y"]] + [["p", "v%03d" % i] for i in range(260)] + [["t", "last"]]
    u.add(A, 1, 10, many, clen=5)                                      # 1
    u.add(B, 1, 11, [["p", "v259"], ["t", "last"]], clen=6)            # 2 shares the last values
    u.add(A, 1, 12, [], clen=7)                                        # 3
    return u.finish()


def u_c11c():
    """Address deletion of events whose d tag stands AFTER a tag with fewer than two strings (a NIP-70 "-" marker, an empty
    tag, a name-only tag): the address is still the first d tag's value, and the deletion has to find the event."""
    u = Universe("c11c", nauthors=1, nabsent=1)
    A = 1
    u.add(A, 30000, 10, [["-"], ["d", "post"]], clen=5)                # 1
    u.add(A, 5, 20, [["a", ("addr", 30000, A, "post")]], clen=0)       # 2 deletes the address as of 20
    u.add(A, 30000, 5, [[], ["d", "post"], ["t", "x"]], clen=6)        # 3 older, an empty tag first
    u.add(A, 30000, 30, [["x"], ["d", "post"]], clen=7)                # 4 newer than the request: stays
    u.add(A, 30000, 12, [["-"], ["t", "x"], ["d", "other"]], clen=8)   # 5 another address
    return u.finish()


def u_c18c():
    """Vanish and gift wraps whose p value only LOOKS like the vanished key in the 182-byte index key (the key followed by NUL, a
    value that has the key as a prefix): they do not name it and stay."""
    u = Universe("c18c", nauthors=2, nabsent=1)
    A, B = 1, 2
    pa = u.pubkeys[A - 1].hex().encode()
    u.add(B, 1059, 10, [["p", pa + b"\x00"]], clen=5)                 # 1 the key followed by NUL: not A
    u.add(B, 1059, 11, [["p", ("pk", A)]], clen=6)                     # 2 a gift wrap to A
    u.add(A, 1, 12, [["t", "x"]], clen=7)                              # 3 A's note
    u.add(B, 1059, 13, [["p", pa + b"ff"]], clen=8)                    # 4 the key as a prefix of a longer value: not A
    u.add(B, 1, 14, [["p", ("pk", A)]], clen=9)                        # 5 B's note mentioning A: not a gift wrap, stays
    return u.finish()


def u_c11b():
    """Deletion requests with several targets where an earlier-listed address is already covered, and addresses
    whose d value contains the ':' separator."""
    u = Universe("c11b", nauthors=2, nabsent=1)
    A, B = 1, 2
    u.add(A, 30000, 10, [["d", "u:v"]], clen=5)                                              # 1 d contains ':'
    u.add(A, 30000, 10, [["d", "u"]], clen=6)                                                # 2 the prefix address
    u.add(A, 5, 20, [["a", ("addr", 30000, A, "u:v")]], clen=0)                              # 3 deletes u:v
    u.add(A, 30000, 10, [["d", "x"]], clen=7)                                                # 4
    u.add(A, 1, 10, [], clen=8)                                                              # 5 regular
    u.add(A, 5, 25, [["a", ("addr", 30000, A, "x")]], clen=0)                                # 6 deletes x as of 25
    u.add(A, 5, 15, [["a", ("addr", 30000, A, "x")], ["e", ("ev", 5)], ["a", ("addr", 30000, A, "u")]], clen=0)  # 7 x (older), then 5 and u
    u.add(A, 5, 25, [["a", ("addr", 30000, A, "x")], ["e", ("ev", 5)]], clen=0)              # 8 x (same time as 6), then 5
    u.add(A, 30000, 1900000050, [["d", "z"]], clen=9)                                        # 9 dated far in the future
    u.add(A, 5, 1900000100, [["a", ("addr", 30000, A, "z")]], clen=0)                        # 10 deletes z as of a time beyond it
    return u.finish()


def u_c18():
    """Removal / vanish targets: authors with zero to many events across kinds; gift-wraps naming the
    author first, as a later tag, as a non-first value, and other kinds with the same p tag."""
    u = Universe("c18", nauthors=3, nabsent=1)
    A, B, C = 1, 2, 3
    u.add(A, 1, 10, [["t", "x"]], clen=5)                                      # 1
    u.add(A, 0, 11, [], clen=6)                                                # 2 repl
    u.add(A, 30000, 12, [["d", "x"]], clen=7)                                  # 3 param
    u.add(B, 1, 13, [["p", ("pk", A)]], clen=8)                                # 4 kind 1 with p=A (not a gift-wrap)
    u.add(B, 1059, 14, [["p", ("pk", A)]], clen=9)                             # 5 gift-wrap p=A first
    u.add(B, 1059, 15, [["t", "x"], ["p", ("pk", A)]], clen=10)                # 6 gift-wrap p=A as later tag
    u.add(B, 1059, 16, [["p", ("pk", C), ("pk", A)]], clen=11)                 # 7 p=C, A only as non-first value
    u.add(B, 1059, 17, [["p", ("pk", C)]], clen=12)                            # 8 gift-wrap to C
    u.add(A, 20000, 18, [], clen=13)                                           # 9 ephemeral by A
    u.add(A, 5, 30, [["e", ("ev", 1)]], clen=0)                                # 10 A deletes 1
    u.add(B, 20001, 19, [["t", "x"]], clen=1)                                  # 11 ephemeral by B
    u.add(A, 1, 20, [["e", "x"], ["q", "x"], ["t", "x"], ["-"], ["r", "y"]], clen=2)  # 12 same value under several letters; a name-only tag before another tag
    u.add(B, 1059, 21, [["p", ("pk", C)], ["p", ("pk", A)]], clen=3)                  # 13 gift-wrap naming A in a second p tag
    u.add(C, 1, 1900000000, [["t", "y"]], clen=4)                                     # 14 dated in the future
    return u.finish()


def u_q():
    """Query universe (C05): ties at every cut, several values per letter on one event, replaceable and
    parameterised kinds, displaced and deleted leftovers."""
    u = Universe("q", nauthors=2, nabsent=1)
    A, B = 1, 2
    u.add(A, 1, 10, [["t", "x"]], clen=3)                                  # 1
    u.add(A, 1, 10, [["t", "y"]], clen=4)                                  # 2  tie with 1
    u.add(A, 1, 11, [["t", "x"], ["t", "y"]], clen=5)                      # 3  two values for one letter
    u.add(B, 1, 20, [["t", "x"], ["u", "x"]], clen=6)                      # 4
    u.add(B, 7, 20, [["t", "y"]], clen=7)                                  # 5  tie with 4
    u.add(A, 7, 11, [["u", "y", "x"], ["tt", "x"]], clen=8)                # 6  value only in 3rd position; 2-letter name
    u.add(A, 30000, 10, [["d", "x"], ["t", "x"]], clen=9)                  # 7
    u.add(A, 30000, 20, [["d", "x"], ["t", "x"]], clen=10)                 # 8  replaces 7
    u.add(B, 1, 11, [["t", ""], ["u"]], clen=11)                           # 9  empty value; tag with a name only
    u.add(A, 5, 30, [["e", ("ev", 2)]], clen=0)                            # 10 deletes 2
    u.add(A, 0, 10, [], clen=12)                                           # 11 replaceable
    u.add(A, 0, 20, [["t", "y"]], clen=13)                                 # 12 replaces 11
    u.add(B, 1, 10, [["t", "x"]], clen=14)                                 # 13 third event at time 10
    u.add(B, 1, 12, [["t", "x"], ["t", "x"]], clen=15)                     # 14 repeated identical tag
    u.add(A, 30000, 12, [["d", "y"], ["t", "y"]], clen=16)                 # 15 same author and kind as 7/8, other d value
    u.add(B, 1, 1900000000, [["t", "x"]], clen=17)                         # 16 dated in the future
    u.add(B, 1, 11, [["t", "x"], ["tt", "y"]], clen=18)                    # 17 same second as 3 (which is reachable through both t values)
    u.s("zz")   # a value no event has
    u.s("w")    # a tag letter no event has
    return u.finish()


def u_c16():
    """Reopen / rebuild: address markers with empty, NUL-terminated, long and binary d values, id markers
    of absent events, leftovers of removed / replaced events."""
    u = Universe("c16", nauthors=2, nabsent=1)
    A, B = 1, 2
    longd = b"M" * 182 + b"tail-beyond-182"
    u.add(A, 30000, 10, [["d", b"x\x00"]], clen=5)                                  # 1 d ends in NUL
    u.add(A, 30000, 10, [["d", "x"]], clen=6)                                       # 2 d without it
    u.add(A, 30000, 10, [["d", longd]], clen=7)                                     # 3 long d
    u.add(A, 30000, 10, [["d", b"\xc3\xa9\x01"]], clen=8)                           # 4 binary-ish d
    u.add(A, 5, 20, [["a", ("addr", 30000, A, b"x\x00")]], clen=0)                  # 5 marker, d ends in NUL
    u.add(A, 5, 21, [["a", ("addr", 30000, A, longd)]], clen=0)                     # 6 marker, long d
    u.add(A, 5, 22, [["a", ("addr", 30000, A, b"\xc3\xa9\x01")], ["e", ("ev", 12)]], clen=0)  # 7 marker binary d + absent id
    u.add(A, 5, 23, [["a", ("addr", 10000, A, "")]], clen=0)                        # 8 marker, empty d
    u.add(B, 1, 11, [["t", "x"], ["expiration", "5"]], clen=2000)                   # 9 large regular event, NIP-40 expiration long past
    u.add(A, 30000, 10, [["d", "x:y"]], clen=3)                                     # 10 d containing the address separator
    u.add(A, 5, 24, [["a", ("addr", 30000, A, "x:y")], ["a", ("addr", 30000, A, ":")]], clen=0)  # 11 markers for d = "x:y" and ":"
    u.add(A, 10002, 10, [], clen=4)                                                 # 12 a replaceable event ...
    u.add(A, 5, 20, [["a", ("addr", 10002, A, "xyz")]], clen=0)                     # 13 ... and a marker naming its kind with a NON-empty d
    return u.finish()


def u_exp(now):
    """run-time universe: NIP-40 expiration tags that run out DURING the history (now+2 s), created_at values around the
    wall clock.  The store has no notion of expiry or of the wall clock, so every listed property must hold across the
    moment the tags run out."""
    u = Universe("exp%d" % now)
    A, B = 1, 2
    soon = str(now + 2)
    u.add(A, 1, now - 50, [["expiration", soon]], clen=10)                       # 1 regular, expires soon
    u.add(A, 30000, now - 40, [["d", "x"], ["expiration", soon]], clen=10)       # 2 addressable, expires soon
    u.add(A, 1, now - 60, [["t", "x"]], clen=10)                                 # 3 plain target
    u.add(A, 5, now - 30, [["e", ("ev", 3)], ["expiration", soon]], clen=0)      # 4 deletion request that itself expires
    u.add(A, 10000, now - 20, [["expiration", soon]], clen=10)                   # 5 replaceable, expires soon
    u.add(A, 30000, now - 45, [["d", "x"]], clen=10)                             # 6 older at the address of 2
    u.add(B, 1, now - 10, [["t", "x"], ["expiration", soon]], clen=10)           # 7 other author
    u.add(B, 1, now + 1, [["t", "x"]], clen=10)                                  # 8 created_at one second ahead of the clock
    u.add(A, 62, now - 5, [["relay", "ALL_RELAYS"], ["expiration", soon]], clen=0)  # 9 vanish request that expires
    u.add(A, 1, now - 1, [["expiration", str(now - 1)]], clen=10)                # 10 expired a moment ago
    return u.finish()


CURATED = dict(c10f=u_c10f, c18c=u_c18c, c11c=u_c11c, c18b=u_c18b, c09d=u_c09d, many=u_many, c09t=u_c09t, c10e=u_c10e, c12y=u_c12y, c14b=u_c14b, c10d=u_c10d, qv=u_qv, c09c=u_c09c, c10c=u_c10c, c16=u_c16, c11b=u_c11b, c12x=u_c12x, c09b=u_c09b, c10b=u_c10b, sz=u_sz, core=u_core, c09=u_c09, c10=u_c10, c11=u_c11, c18=u_c18, q=u_q)


# ------------------------------------------------------------------------------------------------
# Random byte-level universes (sizes and values TLC's curated constants cannot reach)
# ------------------------------------------------------------------------------------------------

NASTY_D = [b"", b"x", b"x\x00", b"x\x00\x00", b"D" * 182, b"D" * 183, b"P" * 182 + b"a" * 118,
           b"P" * 182 + b"b" * 118, "é".encode(), b"y"]
KINDS = [0, 1, 3, 4, 1059, 9999, 10000, 19999, 20000, 29999, 30000, 39999, 40000, 65535]
CLENS = [0, 1, 7, 8, 100, 1900, 2048, 5000]


NASTY_VALS = [b"x", b"y", b"T" * 200, b"T" * 182 + b"z", b"", b"x:y", b"a]b", b"q\"uote", "é".encode(), b"x\x00"]
LETTERS = ["t", "p", "e", "q", "r", "client", "-", "tt", "E", "T", "K"]


def u_random(seed, n=14, nauthors=2, param_bias=True):
    """Seeded byte-level universe with deliberately nasty values: d values with NUL / ':' / > 182 bytes / shared prefixes,
    kinds on every class boundary, ties, NIP-40 expiration tags (past and future), future-dated events, the minimal event,
    events larger than two pages, one value under several letters, name-only and empty tags, gift-wraps with several p tags,
    deletion requests with own / foreign / absent targets and (rarely) hundreds of tags."""
    rnd = random.Random(seed)
    u = Universe("r%d" % seed, nauthors=nauthors, nabsent=1)
    plan = []
    for i in range(1, n + 1):
        au = rnd.randint(1, nauthors)
        r = rnd.random()
        ts = rnd.choice([0, 10, 10, 11, 12, 15, 20, 20, 30, 1900000000])
        if r < 0.30:
            kind = rnd.choice([30000, 30000, 39999, 30001])
            dv = rnd.choice(NASTY_D + [b"x:y", b":"])
            tags = [["d", dv]]
            x = rnd.random()
            if x < 0.08:
                tags = [[]] + tags                                   # an empty tag before the d tag
            elif x < 0.16:
                tags.append(["d", rnd.choice(NASTY_D)])              # a second d tag (the first one is the address)
            elif x < 0.22:
                tags = [["t", "x"]]                                  # no d tag at all: no address
            elif x < 0.28:
                tags = [["d"]]                                       # a d tag without a value
            if rnd.random() < 0.3:
                tags.append(["t", rnd.choice(["x", "y"])])
        elif r < 0.45:
            kind = rnd.choice([0, 3, 10000, 19999])
            tags = []
        elif r < 0.65:
            kind = rnd.choice([1, 4, 9999, 40000, 1059, 65535, 62, 6, 16, 7])
            tags = []
            if kind in (6, 16, 7) and i > 1:
                tags.append(["e", ("ev", rnd.randint(1, i - 1))])   # a repost / reaction referring to an earlier event
            if kind == 62:
                tags.append(["relay", "ALL_RELAYS"])
            if kind in (1, 40000) and rnd.random() < 0.3:
                tags.append(["d", rnd.choice(NASTY_D)])              # a regular kind carrying a d tag
            shared = rnd.choice(NASTY_VALS)
            for _ in range(rnd.randint(0, 4) if rnd.random() < 0.9 else rnd.randint(8, 30)):
                name = rnd.choice(LETTERS)
                if rnd.random() < 0.12:
                    tags.append([name] if rnd.random() < 0.5 else [])          # name-only / empty tag
                else:
                    tg = [name, shared if rnd.random() < 0.4 else rnd.choice(NASTY_VALS)]
                    if rnd.random() < 0.15:
                        tg += [rnd.choice(NASTY_VALS)] * rnd.randint(1, 2)     # further strings (relay hint, marker)
                    tags.append(tg)
            if kind == 1059:
                tags.append(["p", ("pk", rnd.randint(1, nauthors))])
                if rnd.random() < 0.4:
                    tags.append(["p", ("pk", rnd.randint(1, nauthors))])
        elif r < 0.72:
            kind = rnd.choice([20000, 29999])
            tags = []
        else:
            kind = 5
            tags = None  # filled below (needs the other events)
        if tags is not None and rnd.random() < 0.12:
            tags.append(["expiration", rnd.choice(["1", "1000", "99999999999"])])
        plan.append((au, kind, ts, tags))
    for i, (au, kind, ts, tags) in enumerate(plan, start=1):
        if tags is None:
            tags = []

            def other_id():
                # an event id is the hash of the event's own content: a request can never name itself
                while True:
                    t = rnd.randint(1, n + 1)
                    if t != i:
                        return t
            ntags = rnd.randint(1, 3)
            for _ in range(ntags):
                if rnd.random() < 0.5:
                    tags.append(["e", ("ev", other_id())])
                else:
                    cands = [(p[0], p[1], p[3]) for p in plan if p[3] is not None and (is_repl(p[1]) or is_param(p[1]) or
                                                                                     (rnd.random() < 0.25 and p[1] != 5))]
                    if not cands:
                        tags.append(["e", ("ev", other_id())])
                        continue
                    cau, ckind, ctags = rnd.choice(cands)
                    if rnd.random() < 0.75:
                        cau = au  # mostly own targets, sometimes foreign
                    d = b""
                    dts = [t for t in ctags if len(t) >= 2 and t[0] == "d"]
                    if dts and (is_param(ckind) or rnd.random() < 0.5):
                        d = dts[0][1]
                        d = d if isinstance(d, bytes) else d.encode()
                        if len(d) > 400:
                            d = b"x"  # the marker key would exceed LMDB's 511-byte key limit
                    elif is_repl(ckind) and rnd.random() < 0.15:
                        d = b"x"      # a replaceable kind named with a non-empty d
                    tags.append(["a", ("addr", ckind, cau, d)])
            if rnd.random() < 0.2:
                # NIP-09 k tags (the kinds the requester says the targets have), anywhere in the list
                tags.insert(rnd.randint(0, len(tags)), ["k", rnd.choice(["1", "5", "30000", "30023", "0"])])
            if rnd.random() < 0.06 and tags[0][0] == "e":
                # a long request: hundreds of (repeated) targets; its last tag may be foreign
                tags = tags[:1] + [tags[0]] * rnd.choice([255, 256, 300]) + tags[1:]
            ts = rnd.choice([12, 15, 20, 25, 40])
        clen = rnd.choice(CLENS + [9000, 20000] if rnd.random() < 0.3 else CLENS)
        u.add(au, kind, ts, tags, clen=clen)
    return u.finish()


if __name__ == "__main__":
    import sys
    name = sys.argv[1]
    out = sys.argv[2]
    if name in CURATED:
        CURATED[name]().write(out)
    else:
        u_random(int(name)).write(out)
