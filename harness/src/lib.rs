//! Shared code of the conformance harness: universe loading, concrete event / filter
//! construction (bytes laid out by hand, so that store-level checks do not depend on the
//! constructors and parsers that other properties are about), and the projection of a `Store`
//! through its public read API.

use pocket_db::{InnerError, ScreenResult, Store};
use pocket_types::{Addr, Event, Filter, Id, Kind, OwnedEvent, Pubkey};
use serde::Deserialize;
use serde_json::{json, Value};
use std::collections::HashMap;
use std::panic::{catch_unwind, AssertUnwindSafe};
use std::path::{Path, PathBuf};

pub mod codec;

pub const INF: i64 = 2_000_000_000;

pub fn hex(b: &[u8]) -> String {
    let mut s = String::with_capacity(b.len() * 2);
    for x in b {
        s.push_str(&format!("{:02x}", x));
    }
    s
}

pub fn unhex(s: &str) -> Vec<u8> {
    let b = s.as_bytes();
    assert!(b.len() % 2 == 0);
    let v = |c: u8| -> u8 {
        match c {
            b'0'..=b'9' => c - b'0',
            b'a'..=b'f' => c - b'a' + 10,
            b'A'..=b'F' => c - b'A' + 10,
            _ => panic!("bad hex in harness input"),
        }
    };
    (0..b.len() / 2).map(|i| v(b[2 * i]) * 16 + v(b[2 * i + 1])).collect()
}

pub fn silence_panics() {
    std::panic::set_hook(Box::new(|_| {}));
}

// ---------------------------------------------------------------------------------------------
// Universe
// ---------------------------------------------------------------------------------------------

#[derive(Deserialize, Debug, Clone)]
pub struct UAddr {
    pub kind: u16,
    pub au: usize,
    pub d: usize,
}

#[derive(Deserialize, Debug, Clone)]
pub struct UEvent {
    pub id: usize,
    pub au: usize,
    pub kind: u16,
    pub ts: u64,
    pub tags: Vec<Vec<usize>>,
    pub clen: usize,
    pub size: usize,
}

#[derive(Deserialize, Debug, Clone)]
pub struct UniverseFile {
    pub name: String,
    pub n: usize,
    pub nids: usize,
    pub nauthors: usize,
    pub pubkeys: Vec<String>,
    pub idhex: Vec<String>,
    pub strs: Vec<String>,
    pub addrs: Vec<UAddr>,
    pub events: Vec<UEvent>,
    /// concrete created_at = ts * tscale (0 / absent = 1): lets a universe reach beyond 32 bits of seconds while the
    /// specification keeps small integers (TLC's are 32-bit); order and equality of times are preserved
    #[serde(default)]
    pub tscale: u64,
}

pub struct Universe {
    pub f: UniverseFile,
    pub strs: Vec<Vec<u8>>,
    pub pubkeys: Vec<[u8; 32]>,
    pub ids: Vec<[u8; 32]>,
    pub events: Vec<OwnedEvent>, // index i-1 for event i
    pub idmap: HashMap<[u8; 32], usize>,
}

fn arr32(v: &[u8]) -> [u8; 32] {
    let mut a = [0u8; 32];
    a.copy_from_slice(v);
    a
}

/// Tags section laid out by hand (see pocket-types/src/tags.rs header comment)
pub fn build_tags(tags: &[Vec<Vec<u8>>]) -> Vec<u8> {
    let n = tags.len();
    let mut out = vec![0u8; 4 + 2 * n];
    for (i, t) in tags.iter().enumerate() {
        let off = out.len() as u16;
        out[4 + 2 * i..4 + 2 * i + 2].copy_from_slice(&off.to_ne_bytes());
        out.extend_from_slice(&(t.len() as u16).to_ne_bytes());
        for s in t {
            out.extend_from_slice(&(s.len() as u16).to_ne_bytes());
            out.extend_from_slice(s);
        }
    }
    let len = out.len();
    assert!(len <= 65535, "harness universe: tags section too large");
    out[0..2].copy_from_slice(&(len as u16).to_ne_bytes());
    out[2..4].copy_from_slice(&(n as u16).to_ne_bytes());
    out
}

/// Event laid out by hand (see pocket-types/src/event.rs header comment)
pub fn build_event(
    id: &[u8; 32],
    kind: u16,
    pubkey: &[u8; 32],
    sig: &[u8; 64],
    tags: &[u8],
    created_at: u64,
    content: &[u8],
) -> OwnedEvent {
    let len = 144 + tags.len() + 4 + content.len();
    let mut b = Vec::with_capacity(len);
    b.extend_from_slice(&(len as u32).to_ne_bytes());
    b.extend_from_slice(&kind.to_ne_bytes());
    b.extend_from_slice(&[0, 0]);
    b.extend_from_slice(&created_at.to_ne_bytes());
    b.extend_from_slice(id);
    b.extend_from_slice(pubkey);
    b.extend_from_slice(sig);
    b.extend_from_slice(tags);
    b.extend_from_slice(&(content.len() as u32).to_ne_bytes());
    b.extend_from_slice(content);
    OwnedEvent(b)
}

impl Universe {
    pub fn load<P: AsRef<Path>>(p: P) -> Universe {
        let txt = std::fs::read_to_string(p).expect("universe file");
        let f: UniverseFile = serde_json::from_str(&txt).expect("universe json");
        let strs: Vec<Vec<u8>> = f.strs.iter().map(|s| unhex(s)).collect();
        let pubkeys: Vec<[u8; 32]> = f.pubkeys.iter().map(|s| arr32(&unhex(s))).collect();
        let ids: Vec<[u8; 32]> = f.idhex.iter().map(|s| arr32(&unhex(s))).collect();
        let mut events = Vec::new();
        let mut idmap = HashMap::new();
        for (i, id) in ids.iter().enumerate() {
            idmap.insert(*id, i + 1);
        }
        for e in f.events.iter() {
            let tags: Vec<Vec<Vec<u8>>> = e
                .tags
                .iter()
                .map(|t| t.iter().map(|s| strs[*s].clone()).collect())
                .collect();
            let tb = build_tags(&tags);
            let mut sig = [0u8; 64];
            for (j, x) in sig.iter_mut().enumerate() {
                *x = (e.id as u8).wrapping_mul(7).wrapping_add(j as u8);
            }
            let content: Vec<u8> = (0..e.clen).map(|j| b'a' + ((j + e.id) % 26) as u8).collect();
            let ev = build_event(&ids[e.id - 1], e.kind, &pubkeys[e.au - 1], &sig, &tb, e.ts * f.tscale.max(1), &content);
            assert_eq!(ev.0.len(), e.size, "universe size mismatch for event {}", e.id);
            events.push(ev);
        }
        Universe { f, strs, pubkeys, ids, events, idmap }
    }

    pub fn n(&self) -> usize {
        self.f.n
    }

    pub fn ev(&self, i: usize) -> &Event {
        &self.events[i - 1]
    }

    pub fn id(&self, i: usize) -> Id {
        Id::from_bytes(self.ids[i - 1])
    }

    pub fn pk(&self, a: usize) -> Pubkey {
        Pubkey::from_bytes(self.pubkeys[a - 1])
    }

    pub fn addr(&self, a: usize) -> Addr {
        let ua = &self.f.addrs[a - 1];
        Addr { kind: Kind::from_u16(ua.kind), author: self.pk(ua.au), d: self.strs[ua.d].clone() }
    }

    /// index of an event returned by the store (by id and exact bytes); -4 = not an event of the
    /// universe, -5 = id known but bytes differ
    pub fn index_of(&self, e: &Event) -> i64 {
        let id: [u8; 32] = *e.id();
        match self.idmap.get(&id) {
            Some(i) if *i <= self.n() => {
                if self.events[*i - 1].0.as_slice() == e.as_bytes() {
                    *i as i64
                } else {
                    -5
                }
            }
            _ => -4,
        }
    }
}

// ---------------------------------------------------------------------------------------------
// Abstract filters -> concrete
// ---------------------------------------------------------------------------------------------

#[derive(Deserialize, Debug, Clone)]
pub struct TagCon {
    pub name: usize,
    pub vals: Vec<usize>,
}

/// A filter over the universe's interned values.  `authors` entries beyond the universe's
/// authors denote an unknown key; since/until/limit use INF for "not set / maximum".
#[derive(Deserialize, Debug, Clone)]
pub struct AFilter {
    pub ids: Vec<usize>,
    pub authors: Vec<usize>,
    pub kinds: Vec<u16>,
    pub tags: Vec<TagCon>,
    pub since: i64,
    pub until: i64,
    pub limit: i64,
    #[serde(default)]
    pub screen: i64, // 0 = all match; k>0 screening function number (see `screen_fn`)
    #[serde(default)]
    pub allow: i64, // 0 = allow_scraping; 1 = nothing allowed; 2 = limited_to 2; 3 = max_seconds 100
}

pub fn unknown_pubkey() -> [u8; 32] {
    [0xEE; 32]
}

pub fn build_filter(u: &Universe, f: &AFilter) -> Vec<u8> {
    let mut tags: Vec<Vec<Vec<u8>>> = Vec::new();
    for c in f.tags.iter() {
        let mut t = vec![u.strs[c.name].clone()];
        for v in c.vals.iter() {
            t.push(u.strs[*v].clone());
        }
        tags.push(t);
    }
    let tb = build_tags(&tags);
    let len = 32 + 32 * f.ids.len() + 32 * f.authors.len() + 2 * f.kinds.len() + tb.len();
    let mut b = Vec::with_capacity(len);
    b.extend_from_slice(&(len as u32).to_ne_bytes());
    b.extend_from_slice(&(f.ids.len() as u16).to_ne_bytes());
    b.extend_from_slice(&(f.authors.len() as u16).to_ne_bytes());
    b.extend_from_slice(&(f.kinds.len() as u16).to_ne_bytes());
    b.extend_from_slice(&[0, 0]);
    let limit: u32 = if f.limit >= INF { u32::MAX } else { f.limit as u32 };
    b.extend_from_slice(&limit.to_ne_bytes());
    let sc = u.f.tscale.max(1);
    let since: u64 = if f.since >= INF { u64::MAX } else { f.since as u64 * sc };
    let until: u64 = if f.until >= INF { u64::MAX } else { f.until as u64 * sc };
    b.extend_from_slice(&since.to_ne_bytes());
    b.extend_from_slice(&until.to_ne_bytes());
    for i in f.ids.iter() {
        b.extend_from_slice(&u.ids[*i - 1]);
    }
    for a in f.authors.iter() {
        if *a >= 1 && *a <= u.pubkeys.len() {
            b.extend_from_slice(&u.pubkeys[*a - 1]);
        } else {
            b.extend_from_slice(&unknown_pubkey());
        }
    }
    for k in f.kinds.iter() {
        b.extend_from_slice(&k.to_ne_bytes());
    }
    b.extend_from_slice(&tb);
    b
}

/// Screening functions, by number; all are functions of the event's universe index only so that
/// the specification can evaluate them too: 0 all match; 1 odd ids mismatch; 2 odd ids redacted;
/// 3 everything redacted; 4 ids divisible by 3 redacted, others with id % 3 == 1 mismatch.
pub fn screen_code(screen: i64, idx: i64) -> ScreenResult {
    match screen {
        0 => ScreenResult::Match,
        1 => {
            if idx % 2 == 1 {
                ScreenResult::Mismatch
            } else {
                ScreenResult::Match
            }
        }
        2 => {
            if idx % 2 == 1 {
                ScreenResult::Redacted
            } else {
                ScreenResult::Match
            }
        }
        3 => ScreenResult::Redacted,
        _ => {
            if idx % 3 == 0 {
                ScreenResult::Redacted
            } else if idx % 3 == 1 {
                ScreenResult::Mismatch
            } else {
                ScreenResult::Match
            }
        }
    }
}

/// Run one query; returns (res, out, redacted, now_lo, now_hi)
pub fn run_query(u: &Universe, store: &Store, f: &AFilter) -> Value {
    let fb = build_filter(u, f);
    let (allow_scraping, limited_to, max_seconds) = match f.allow {
        0 => (true, 0u32, 0u64),
        1 => (false, 0, 0),
        2 => (false, 2, 0),
        _ => (false, 0, 100),
    };
    let now_lo = pocket_types::Time::now().as_u64() as i64;
    let r = catch_unwind(AssertUnwindSafe(|| {
        let filter: &Filter = unsafe { Filter::delineate(&fb).expect("harness filter") };
        let screen = f.screen;
        let res = store.find_events(filter, allow_scraping, limited_to, max_seconds, |e| {
            screen_code(screen, u.index_of(e))
        });
        match res {
            Ok((evs, red)) => {
                let out: Vec<i64> = evs.iter().map(|e| u.index_of(e)).collect();
                ("ok".to_string(), out, red)
            }
            Err(e) => match e.inner {
                InnerError::Scraper => ("scraper".to_string(), vec![], false),
                other => (format!("err:{:?}", other), vec![], false),
            },
        }
    }));
    let now_hi = pocket_types::Time::now().as_u64() as i64;
    match r {
        Ok((res, out, red)) => json!({"r": res, "out": out, "red": if red {1} else {0}, "now": [now_lo, now_hi]}),
        Err(_) => json!({"r": "panic", "out": [], "red": 0, "now": [now_lo, now_hi]}),
    }
}

// ---------------------------------------------------------------------------------------------
// Driving a store and projecting it
// ---------------------------------------------------------------------------------------------

pub const EXTRA_TABLES: [&str; 2] = ["xa", "xb"];

pub struct Driver<'u> {
    pub u: &'u Universe,
    pub dir: PathBuf,
    pub store: Option<Store>,
    pub offs: Vec<(u64, usize)>, // every offset returned in this file generation, with the event
    pub gen: i64,
    pub extra: bool,
    /// C15: references handed out by the current store object: (address, offset, event, base id)
    pub held: Vec<(usize, u64, usize, usize)>,
    /// distinct mapping base addresses (address of a reference minus its offset), in order of appearance
    pub bases: std::cell::RefCell<Vec<usize>>,
}

pub fn classify(e: &pocket_db::Error) -> String {
    match &e.inner {
        InnerError::Duplicate => "dup".into(),
        InnerError::Deleted => "deleted".into(),
        InnerError::Replaced => "replaced".into(),
        InnerError::InvalidDelete => "invalid_delete".into(),
        other => {
            let s = format!("{:?}", other);
            let s: String = s.chars().take(60).collect();
            format!("err:{}", s)
        }
    }
}

/// Really close the LMDB environment of a store directory (after the Store was dropped).  heed
/// keeps every environment open in a process-wide registry until `prepare_for_closing`; opening the
/// path again hands out that same environment (or, with different options, returns it inside the
/// BadOpenOptions error), which gives us a handle to close it with.
pub fn close_env(dir: &Path) {
    use pocket_db::heed::{EnvOpenOptions, Error as HeedError};
    let lm = dir.join("lmdb");
    if !lm.is_dir() {
        return;
    }
    let r = unsafe { EnvOpenOptions::new().open(&lm) };
    let env = match r {
        Ok(env) => env,
        Err(HeedError::BadOpenOptions { env, .. }) => env,
        Err(_) => return,
    };
    env.prepare_for_closing().wait();
}

/// Copy the durable files of a store directory (what survives a kill of the process): the event
/// map and the LMDB data file.  lock.mdb is not copied: LMDB re-initialises it whenever it obtains
/// the exclusive lock, which is what happens after a real kill.
pub fn image_dir(src: &Path, dst: &Path) -> std::io::Result<()> {
    // what a kill leaves behind: EVERY regular file of the store directory and of lmdb/ as it is at this instant (not only
    // event.map and data.mdb: a stamp, guard or journal file a change introduces is part of the image too), except LMDB's
    // lock file, which is process state re-initialised by the next opener
    std::fs::create_dir_all(dst.join("lmdb"))?;
    for sub in ["", "lmdb"] {
        let d = if sub.is_empty() { src.to_owned() } else { src.join(sub) };
        let rd = match std::fs::read_dir(&d) {
            Ok(rd) => rd,
            Err(_) => continue,
        };
        for ent in rd.flatten() {
            let name = ent.file_name();
            if sub == "lmdb" && name == "lock.mdb" {
                continue;
            }
            if ent.file_type().map(|t| t.is_file()).unwrap_or(false) {
                let to = if sub.is_empty() { dst.join(&name) } else { dst.join(sub).join(&name) };
                std::fs::copy(ent.path(), to)?;
            }
        }
    }
    if !src.join("lmdb").exists() {
        let _ = std::fs::remove_dir(dst.join("lmdb"));
    }
    Ok(())
}

impl<'u> Driver<'u> {
    pub fn open(u: &'u Universe, dir: &Path, extra: bool) -> Result<Driver<'u>, String> {
        let names: Vec<&'static str> = if extra { EXTRA_TABLES.to_vec() } else { vec![] };
        let r = catch_unwind(AssertUnwindSafe(|| Store::new(dir, names)));
        match r {
            Ok(Ok(s)) => Ok(Driver { u, dir: dir.to_owned(), store: Some(s), offs: vec![], gen: 0, extra, held: vec![], bases: std::cell::RefCell::new(vec![]) }),
            Ok(Err(e)) => Err(format!("err:{:?}", e.inner)),
            Err(_) => Err("panic".into()),
        }
    }

    fn names(&self) -> Vec<&'static str> {
        if self.extra {
            EXTRA_TABLES.to_vec()
        } else {
            vec![]
        }
    }

    pub fn u(&self) -> &'u Universe {
        self.u
    }

    pub fn st(&self) -> &Store {
        self.store.as_ref().expect("store open")
    }

    /// store event number i; returns (res, offset or -1)
    pub fn store_ev(&mut self, i: usize) -> (String, i64) {
        let ev = self.u.ev(i);
        let st = self.st();
        let r = catch_unwind(AssertUnwindSafe(|| st.store_event(ev)));
        match r {
            Ok(Ok(off)) => {
                self.offs.push((off, i));
                self.take_refs(off, i);
                ("ok".into(), off as i64)
            }
            Ok(Err(e)) => (classify(&e), -1),
            Err(_) => ("panic".into(), -1),
        }
    }

    /// store_event while every LMDB reader slot is taken (read transactions of other clients; opened here on this thread,
    /// the environment runs with NO_TLS): whatever the call answers, an error must have left nothing behind (C12)
    pub fn store_ev_starved(&mut self, i: usize) -> (String, i64) {
        let mut readers = vec![];
        {
            let st = self.st();
            for _ in 0..4096 {
                match catch_unwind(AssertUnwindSafe(|| st.read_txn())) {
                    Ok(Ok(t)) => readers.push(t),
                    _ => break,
                }
            }
        }
        let ev = self.u.ev(i);
        let r = {
            let st = self.st();
            catch_unwind(AssertUnwindSafe(|| st.store_event(ev)))
        };
        // SAFETY of lifetimes: the read transactions borrow the store; they are dropped before anything else happens
        drop(readers);
        match r {
            Ok(Ok(off)) => {
                self.offs.push((off, i));
                self.take_refs(off, i);
                ("ok".into(), off as i64)
            }
            Ok(Err(e)) => (classify(&e), -1),
            Err(_) => ("panic".into(), -1),
        }
    }

    /// Resubmission of a stored event as ANOTHER valid copy: same id (the id does not cover the signature, and BIP-340
    /// signing is randomised), other signature bytes.  It is the same event: the store answers as for any resubmission
    /// and keeps the copy it has.  Only issued while the event is retrievable (otherwise the call is skipped).
    pub fn store_alt(&mut self, i: usize) -> String {
        let st = self.st();
        let present = matches!(catch_unwind(AssertUnwindSafe(|| st.has_event(self.u.id(i)))), Ok(Ok(true)));
        if !present {
            return "skipped".into();
        }
        let mut bytes = self.u.ev(i).as_bytes().to_vec();
        for b in bytes[80..144].iter_mut() {
            *b ^= 0x5A;
        }
        let alt = pocket_types::OwnedEvent(bytes);
        match catch_unwind(AssertUnwindSafe(|| st.store_event(&alt))) {
            Ok(Ok(_)) => "ok".into(),
            Ok(Err(e)) => classify(&e),
            Err(_) => "panic".into(),
        }
    }

    fn base_id(&self, base: usize) -> usize {
        let mut bases = self.bases.borrow_mut();
        match bases.iter().position(|b| *b == base) {
            Some(p) => p,
            None => {
                bases.push(base);
                bases.len() - 1
            }
        }
    }

    /// C15: obtain references to the event just stored through every API that hands them out (by
    /// offset, by id, from a query) and remember their addresses
    fn take_refs(&mut self, off: u64, i: usize) {
        let mut ptrs: Vec<usize> = vec![];
        {
            let st = self.st();
            let u = self.u;
            let _ = catch_unwind(AssertUnwindSafe(|| {
                if let Ok(e) = st.get_event_by_offset(off) {
                    ptrs.push(e.as_bytes().as_ptr() as usize);
                }
                if let Ok(Some(e)) = st.get_event_by_id(u.id(i)) {
                    if e.as_bytes() == u.ev(i).as_bytes() {
                        ptrs.push(e.as_bytes().as_ptr() as usize);
                    }
                }
                let f = AFilter { ids: vec![i], authors: vec![], kinds: vec![], tags: vec![], since: 0, until: INF, limit: INF, screen: 0, allow: 0 };
                let fb = build_filter(u, &f);
                if let Ok(filter) = unsafe { Filter::delineate(&fb) } {
                    if let Ok((evs, _)) = st.find_events(filter, true, 0, 0, |_| ScreenResult::Match) {
                        for e in evs {
                            ptrs.push(e.as_bytes().as_ptr() as usize);
                        }
                    }
                }
                // ... and through the address lookups, when the event is the one its address resolves to
                let ev = u.ev(i);
                let k = ev.kind();
                if k.is_replaceable() {
                    if let Ok(Some(e)) = st.find_replaceable_event(ev.pubkey(), k) {
                        if e.as_bytes() == ev.as_bytes() {
                            ptrs.push(e.as_bytes().as_ptr() as usize);
                        }
                    }
                } else if k.is_parameterized_replaceable() {
                    if let Ok(tags) = ev.tags() {
                        if let Some(d) = tags.get_value(b"d") {
                            let addr = Addr { kind: k, author: ev.pubkey(), d: d.to_vec() };
                            if let Ok(Some(e)) = st.find_parameterized_replaceable_event(&addr) {
                                if e.as_bytes() == ev.as_bytes() {
                                    ptrs.push(e.as_bytes().as_ptr() as usize);
                                }
                            }
                        }
                    }
                }
            }));
        }
        let map_base = ptrs.first().map(|p| p.wrapping_sub(off as usize));
        for p in ptrs {
            // all of them denote the copy at `off` unless the event was stored more than once
            let base = p.wrapping_sub(off as usize);
            if Some(base) != map_base && !self.offs.iter().any(|(o, j)| *j == i && Some(p.wrapping_sub(*o as usize)) == map_base) {
                // a reference that does not point into the event map at all (some other memory the store owns): FOREIGN
                // references are compared on every observation, whatever the map does
                self.held.push((p, off, i, usize::MAX));
                continue;
            }
            let b = self.base_id(base);
            self.held.push((p, off, i, b));
        }
    }

    /// store several events from concurrently running threads while this thread holds references
    pub fn pstore(&mut self, evs: &[usize]) -> String {
        let st = self.store.as_ref().expect("store open");
        let u = self.u;
        let results: Vec<(usize, Result<Result<u64, pocket_db::Error>, ()>)> = std::thread::scope(|s| {
            let hs: Vec<_> = evs
                .iter()
                .map(|i| {
                    let i = *i;
                    s.spawn(move || (i, catch_unwind(AssertUnwindSafe(|| st.store_event(u.ev(i)))).map_err(|_| ())))
                })
                .collect();
            hs.into_iter().map(|h| h.join().unwrap_or((0, Err(())))).collect()
        });
        let mut labels = vec![];
        for (i, r) in results {
            match r {
                Ok(Ok(off)) => {
                    self.offs.push((off, i));
                    self.take_refs(off, i);
                    labels.push("ok".to_string());
                }
                Ok(Err(e)) => labels.push(classify(&e)),
                Err(()) => labels.push("panic".to_string()),
            }
        }
        labels.join(",")
    }

    pub fn remove(&mut self, i: usize) -> String {
        let id = self.u.id(i);
        let st = self.st();
        match catch_unwind(AssertUnwindSafe(|| st.remove_event(id))) {
            Ok(Ok(())) => "ok".into(),
            Ok(Err(e)) => classify(&e),
            Err(_) => "panic".into(),
        }
    }

    /// vanish author a: the request event only needs to carry the pubkey
    pub fn vanish(&mut self, a: usize) -> String {
        let tb = build_tags(&[]);
        let req = build_event(&[0x77; 32], 62, &self.u.pubkeys[a - 1], &[0; 64], &tb, 1, b"");
        let st = self.st();
        match catch_unwind(AssertUnwindSafe(|| st.vanish(&req))) {
            Ok(Ok(())) => "ok".into(),
            Ok(Err(e)) => classify(&e),
            Err(_) => "panic".into(),
        }
    }

    /// cold = really close the LMDB environment in between (what a process restart does);
    /// warm = drop the Store and open it again (heed hands out the still-open environment)
    pub fn reopen_mode(&mut self, cold: bool) -> String {
        self.held.clear(); // the store object ends here
        self.store = None;
        if cold {
            close_env(&self.dir);
        }
        self.reopen_inner()
    }

    pub fn reopen(&mut self) -> String {
        self.held.clear();
        self.store = None; // drop: unmaps the event map
        self.reopen_inner()
    }

    /// drop the store and close its environment
    pub fn close(&mut self) {
        self.store = None;
        close_env(&self.dir);
    }

    fn reopen_inner(&mut self) -> String {
        let dir = self.dir.clone();
        let names = self.names();
        match catch_unwind(AssertUnwindSafe(|| Store::new(&dir, names))) {
            Ok(Ok(s)) => {
                self.store = Some(s);
                "ok".into()
            }
            Ok(Err(e)) => format!("err:{:?}", e.inner),
            Err(_) => "panic".into(),
        }
    }

    pub fn rebuild(&mut self) -> String {
        self.held.clear();
        let s = self.store.take().expect("store open");
        match catch_unwind(AssertUnwindSafe(|| unsafe { s.rebuild() })) {
            Ok(Ok(ns)) => {
                self.store = Some(ns);
                self.offs.clear();
                self.gen += 1;
                "ok".into()
            }
            Ok(Err(e)) => {
                // the store object was consumed; try to get a usable one back so the history can go on
                let r = format!("err:{:?}", e.inner);
                let dir = self.dir.clone();
                let names = self.names();
                if let Ok(Ok(ns)) = catch_unwind(AssertUnwindSafe(|| Store::new(&dir, names))) {
                    self.store = Some(ns);
                }
                r.chars().take(70).collect()
            }
            Err(_) => {
                let dir = self.dir.clone();
                let names = self.names();
                if let Ok(Ok(ns)) = catch_unwind(AssertUnwindSafe(|| Store::new(&dir, names))) {
                    self.store = Some(ns);
                }
                "panic".into()
            }
        }
    }

    pub fn extra_put(&mut self, t: usize, k: &[u8], v: &[u8]) -> String {
        let st = self.st();
        let r = catch_unwind(AssertUnwindSafe(|| -> Result<(), String> {
            let table = st.extra_table(EXTRA_TABLES[t]).ok_or("notable")?;
            let mut txn = st.write_txn().map_err(|e| format!("{:?}", e.inner))?;
            table.put(&mut txn, k, v).map_err(|e| format!("{:?}", e))?;
            txn.commit().map_err(|e| format!("{:?}", e))?;
            Ok(())
        }));
        match r {
            Ok(Ok(())) => "ok".into(),
            Ok(Err(e)) => format!("err:{}", e),
            Err(_) => "panic".into(),
        }
    }

    pub fn extra_del(&mut self, t: usize, k: &[u8]) -> String {
        let st = self.st();
        let r = catch_unwind(AssertUnwindSafe(|| -> Result<(), String> {
            let table = st.extra_table(EXTRA_TABLES[t]).ok_or("notable")?;
            let mut txn = st.write_txn().map_err(|e| format!("{:?}", e.inner))?;
            let _ = table.delete(&mut txn, k).map_err(|e| format!("{:?}", e))?;
            txn.commit().map_err(|e| format!("{:?}", e))?;
            Ok(())
        }));
        match r {
            Ok(Ok(())) => "ok".into(),
            Ok(Err(e)) => format!("err:{}", e),
            Err(_) => "panic".into(),
        }
    }

    /// The projection of the store through public read APIs (DESIGN 4.3)
    /// C15 observations: the distinct base addresses that fresh lookups of every offset ever returned
    /// yield now (ids into `bases`; -1 for an address never seen before), and whether every held
    /// reference whose base is still current denotes unchanged bytes (stale ones are never dereferenced)
    pub fn ref_obs(&self) -> (Vec<i64>, i64, i64) {
        let st = match self.store.as_ref() {
            Some(s) => s,
            None => return (vec![], 1, 0),
        };
        let mut cur: Vec<i64> = vec![];
        for (off, _i) in self.offs.iter() {
            if let Ok(Ok(e)) = catch_unwind(AssertUnwindSafe(|| st.get_event_by_offset(*off))) {
                let b = (e.as_bytes().as_ptr() as usize).wrapping_sub(*off as usize);
                let id = self.base_id(b) as i64;
                if !cur.contains(&id) {
                    cur.push(id);
                }
            }
        }
        let mut ok = 1;
        let mut checked = 0;
        for (p, _off, i, b) in self.held.iter() {
            if *b == usize::MAX {
                let exp = self.u.ev(*i).as_bytes();
                let got = unsafe { std::slice::from_raw_parts(*p as *const u8, exp.len()) };
                checked += 1;
                if got != exp {
                    ok = 0;
                }
            }
        }
        if cur.len() == 1 && cur[0] >= 0 {
            for (p, _off, i, b) in self.held.iter() {
                if *b as i64 == cur[0] {
                    let exp = self.u.ev(*i).as_bytes();
                    let got = unsafe { std::slice::from_raw_parts(*p as *const u8, exp.len()) };
                    checked += 1;
                    if got != exp {
                        ok = 0;
                    }
                }
            }
        }
        (cur, ok, checked)
    }

    pub fn project(&self) -> Value {
        if self.store.is_none() {
            return json!({"open": 0, "retr": [], "corrupt": [], "delIds": [], "delAddr": [], "find": [],
                "ix": [], "end": -1, "flen": -1, "gen": self.gen, "offs": [], "extra": [], "bak": 0});
        }
        let u = self.u;
        let st = self.st();
        let r = catch_unwind(AssertUnwindSafe(|| {
            let mut retr = vec![];
            let mut corrupt = vec![];
            for i in 1..=u.n() {
                let id = u.id(i);
                let has = st.has_event(id);
                let got = st.get_event_by_id(id);
                match (has, got) {
                    (Ok(false), Ok(None)) => {}
                    (Ok(true), Ok(Some(e))) => {
                        retr.push(i);
                        if e.as_bytes() != u.ev(i).as_bytes() {
                            corrupt.push(i);
                        }
                    }
                    (Ok(true), _) => {
                        retr.push(i);
                        corrupt.push(i);
                    }
                    _ => corrupt.push(i),
                }
            }
            let mut del_ids = vec![];
            for i in 1..=u.f.nids {
                match st.event_is_deleted(u.id(i)) {
                    Ok(true) => del_ids.push(i as i64),
                    Ok(false) => {}
                    Err(_) => del_ids.push(-(i as i64)),
                }
            }
            let mut del_addr = vec![];
            let mut find = vec![];
            for a in 1..=u.f.addrs.len() {
                let addr = u.addr(a);
                del_addr.push(match st.naddr_is_deleted_asof(&addr) {
                    Ok(Some(t)) => {
                        let sc = u.f.tscale.max(1);
                        let t = if t.as_u64() % sc == 0 { t.as_u64() / sc } else { t.as_u64() };
                        if t >= INF as u64 { INF } else { t as i64 }
                    }
                    Ok(None) => -1,
                    Err(_) => -2,
                });
                let k = addr.kind;
                let fr = if k.is_replaceable() {
                    if addr.d.is_empty() { Some(st.find_replaceable_event(addr.author, k)) } else { None }
                } else if k.is_parameterized_replaceable() {
                    Some(st.find_parameterized_replaceable_event(&addr))
                } else {
                    None
                };
                find.push(match fr {
                    None => -3,
                    Some(Ok(None)) => -1,
                    Some(Ok(Some(e))) => u.index_of(e),
                    Some(Err(_)) => -2,
                });
            }
            let (ix, end, extra_counts) = match st.stats() {
                Ok(s) => {
                    let x = &s.index_stats;
                    (
                        vec![
                            x.i_index_entries as i64, x.ci_index_entries as i64, x.tc_index_entries as i64,
                            x.ac_index_entries as i64, x.akc_index_entries as i64, x.atc_index_entries as i64,
                            x.ktc_index_entries as i64, x.deleted_index_entries as i64,
                            x.deleted_naddr_index_entries as i64,
                        ],
                        s.event_bytes as i64,
                        x.custom_entries.len(),
                    )
                }
                Err(_) => (vec![], -2, 0),
            };
            let _ = extra_counts;
            let flen = std::fs::metadata(self.dir.join("event.map")).map(|m| m.len() as i64).unwrap_or(-1);
            let mut offs = vec![];
            for (off, i) in self.offs.iter() {
                let got = match st.get_event_by_offset(*off) {
                    Ok(e) => {
                        if e.as_bytes() == u.ev(*i).as_bytes() { *i as i64 } else { -5 }
                    }
                    Err(_) => -2,
                };
                offs.push(json!([*off as i64, *i as i64, got]));
            }
            let mut extra = vec![];
            if self.extra {
                if let Ok(txn) = st.read_txn() {
                    for (ti, name) in EXTRA_TABLES.iter().enumerate() {
                        if let Some(t) = st.extra_table(name) {
                            if let Ok(it) = t.iter(&txn) {
                                for kv in it {
                                    match kv {
                                        Ok((k, v)) => extra.push(json!([ti as i64, hex(k), hex(v)])),
                                        Err(_) => extra.push(json!([ti as i64, "ERR", "ERR"])),
                                    }
                                }
                            }
                        } else {
                            extra.push(json!([ti as i64, "MISSING", "MISSING"]));
                        }
                    }
                }
            }
            let bak = if self.dir.join("event.map.bak").exists() && self.dir.join("lmdb.bak").exists() { 1 } else { 0 };
            let (rbase, rok, rchecked) = self.ref_obs();
            // what every held reference denoted when it was handed out is still what the store has at that offset
            // (looked up afresh, so this holds or fails whether or not the mapping has moved since)
            let mut rfresh = 1;
            for (_p, off, i, _b) in self.held.iter() {
                match catch_unwind(AssertUnwindSafe(|| st.get_event_by_offset(*off).map(|e| e.as_bytes() == u.ev(*i).as_bytes()))) {
                    Ok(Ok(true)) => {}
                    _ => rfresh = 0,
                }
            }
            let held_bases: Vec<i64> = {
                let mut v: Vec<i64> = self.held.iter().map(|h| h.3 as i64).collect();
                v.sort();
                v.dedup();
                v
            };
            json!({"rbase": rbase, "rok": rok, "rfresh": rfresh, "rchecked": rchecked, "held": held_bases, "nheld": self.held.len() as i64,
                   "open": 1, "retr": retr, "corrupt": corrupt, "delIds": del_ids, "delAddr": del_addr, "find": find,
                   "ix": ix, "end": end, "flen": flen, "gen": self.gen, "offs": offs, "extra": extra, "bak": bak})
        }));
        match r {
            Ok(v) => v,
            Err(_) => json!({"open": 2, "retr": [], "corrupt": [], "delIds": [], "delAddr": [], "find": [],
                "ix": [], "end": -1, "flen": -1, "gen": self.gen, "offs": [], "extra": [], "bak": 0}),
        }
    }

    pub fn probes(&self, filters: &[AFilter]) -> Value {
        if self.store.is_none() {
            return json!([]);
        }
        let st = self.st();
        Value::Array(filters.iter().map(|f| run_query(self.u, st, f)).collect())
    }
}
