//! Codec-side helpers (filled in by the codec checks)
