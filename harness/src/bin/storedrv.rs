//! storedrv: replay histories into real stores and record ndjson traces with the projection
//! of the store after every public call.
//!
//! usage: storedrv --universe U.json --hist H.ndjson --out T.ndjson [--filters F.json] [--extra]
//!                 [--tmp DIR]

use serde_json::{json, Value};
use std::io::{BufRead, BufWriter, Write};
use vh::{AFilter, Driver, Universe};

fn arg(args: &[String], name: &str) -> Option<String> {
    args.iter().position(|a| a == name).and_then(|i| args.get(i + 1).cloned())
}

fn main() {
    let args: Vec<String> = std::env::args().collect();
    let upath = arg(&args, "--universe").expect("--universe");
    let hpath = arg(&args, "--hist").expect("--hist");
    let opath = arg(&args, "--out").expect("--out");
    let extra = args.iter().any(|a| a == "--extra");
    // --no-probe: the filters file is only used by explicit "queries" ops
    let probe_all = !args.iter().any(|a| a == "--no-probe");
    let tmp = arg(&args, "--tmp").unwrap_or_else(|| {
        if std::path::Path::new("/dev/shm").is_dir() { "/dev/shm".into() } else { "/tmp".into() }
    });
    let filters: Vec<AFilter> = match arg(&args, "--filters") {
        Some(p) => serde_json::from_str(&std::fs::read_to_string(p).expect("filters file")).expect("filters json"),
        None => vec![],
    };
    vh::silence_panics();
    let u = Universe::load(&upath);
    let hf = std::io::BufReader::new(std::fs::File::open(&hpath).expect("hist file"));
    let mut out = BufWriter::new(std::fs::File::create(&opath).expect("out file"));

    for (hn, line) in hf.lines().enumerate() {
        let line = line.expect("read");
        if line.trim().is_empty() {
            continue;
        }
        let hv: Value = serde_json::from_str(&line).expect("history json");
        // a history is either a bare array of ops or {"id":n,"ops":[..]}
        let (hid, ops) = match &hv {
            Value::Array(a) => (hn as i64, a.clone()),
            Value::Object(o) => (o["id"].as_i64().unwrap_or(hn as i64), o["ops"].as_array().expect("ops").clone()),
            _ => panic!("bad history line"),
        };
        let td = tempfile::Builder::new().prefix("pvh").tempdir_in(&tmp).expect("tempdir");
        let dir = td.path().join("store");
        std::fs::create_dir(&dir).expect("mkdir");
        let mut d = match Driver::open(&u, &dir, extra) {
            Ok(d) => d,
            Err(e) => {
                writeln!(out, "{}", json!({"h": hid, "k": "reset", "a": 0, "res": e, "off": -1,
                    "x": [-1, "", ""], "st": json!({"open": 0}), "q": []})).unwrap();
                continue;
            }
        };
        let emit = |out: &mut BufWriter<std::fs::File>, d: &Driver, k: &str, a: i64, res: &str, off: i64, x: Value| {
            let st = d.project();
            let q = if k == "queries" {
                // an explicit batch of queries: filters[a .. x[0]]
                let to = (x[0].as_i64().unwrap_or(0).max(0) as usize).min(filters.len());
                let from = (a.max(0) as usize).min(to);
                d.probes(&filters[from..to])
            } else if filters.is_empty() || !probe_all {
                json!([])
            } else {
                d.probes(&filters)
            };
            writeln!(out, "{}", json!({"h": hid, "k": k, "a": a, "res": res, "off": off, "x": x, "st": st, "q": q})).unwrap();
        };
        emit(&mut out, &d, "reset", 0, "ok", -1, json!([-1, "", ""]));
        for op in ops.iter() {
            let k = op["k"].as_str().expect("op kind");
            let a = op.get("a").and_then(|v| v.as_i64()).unwrap_or(0);
            let mut x = json!([-1, "", ""]);
            let (res, off) = if d.store.is_none() {
                ("closed".to_string(), -1)
            } else {
                match k {
                    "store" => d.store_ev(a as usize),
                    // store with every LMDB reader slot taken; recorded as an ordinary store call (kout below)
                    "sstore" => d.store_ev_starved(a as usize),
                    "remove" => (d.remove(a as usize), -1),
                    "vanish" => (d.vanish(a as usize), -1),
                    "reopen" => (d.reopen_mode(a == 0), -1), // a = 0: cold (environment closed), 1: warm
                    "rebuild" => (d.rebuild(), -1),
                    "xput" => {
                        let key = op["key"].as_str().unwrap_or("");
                        let val = op["val"].as_str().unwrap_or("");
                        x = json!([a, key, val]);
                        (d.extra_put(a as usize, &vh::unhex(key), &vh::unhex(val)), -1)
                    }
                    "xdel" => {
                        let key = op["key"].as_str().unwrap_or("");
                        x = json!([a, key, ""]);
                        (d.extra_del(a as usize, &vh::unhex(key)), -1)
                    }
                    "nop" => ("ok".to_string(), -1),
                    // the same event submitted again with another signature (same id); to the specification a stuttering step
                    "salt" => (d.store_alt(a as usize), -1),
                    "sleep" => {
                        // wall-clock time passes (a = milliseconds); to the specification this is a stuttering step
                        std::thread::sleep(std::time::Duration::from_millis(a.max(0) as u64));
                        ("ok".to_string(), -1)
                    }
                    "pstore" => {
                        let evs: Vec<usize> = op["evs"].as_array().map(|v| v.iter().filter_map(|x| x.as_u64()).map(|x| x as usize).collect()).unwrap_or_default();
                        (d.pstore(&evs), -1)
                    }
                    "queries" => {
                        x = json!([op.get("b").and_then(|v| v.as_i64()).unwrap_or(0), "", ""]);
                        ("ok".to_string(), -1)
                    }
                    other => panic!("unknown op {}", other),
                }
            };
            emit(&mut out, &d, if k == "sstore" { "store" } else { k }, a, &res, off, x);
        }
        d.close();
        drop(d);
        drop(td);
    }
    out.flush().unwrap();
}
