//! canondrv - conformance driver for C08 (event verification: NIP-01 canonical serialisation,
//! SHA-256 id, BIP-340 signature).
//!
//!   canondrv keys                      print the fixed test keys (x-only public keys, hex)
//!   canondrv run CASES.ndjson [SKIP]   run the cases (one JSON object per line, produced by TLC from
//!                                      spec/NostrCanon.tla and concretised by checks/canon.py),
//!                                      one observation line per case on stdout (flushed per line,
//!                                      so that a crash costs exactly the case in progress)
//!
//! The driver OBSERVES; the verdict is computed by checks/canon.py from the observations and the
//! expectation stated by the specification.  What it observes per "case" line:
//!   * `OwnedEvent::sign_new` on the event's fields: outcome, id, and `verify()` of the result;
//!   * SHA-256 (secp256k1::hashes, called directly) of the UTF-8 of the SPEC's canonical text;
//!   * whether serde_json::to_string of the same array value equals the spec's text (tool cross-check);
//!   * `verify()` of an event laid out by hand whose id is the hash of the spec's text and whose
//!     signature was made here with secp256k1 directly (so `sign_new` is not in that path);
//!   * `verify()` of every single-field mutation of a verifying event (laid out by hand with
//!     vh::build_event / vh::build_tags: constructors are property C19's business), of events
//!     signed by another key, and of events whose id is the hash of a non-canonical text given by
//!     the spec (`alts`) with a valid signature of that id.
//! Panics are caught and recorded as outcomes ("panic:<message>").

use pocket_types::secp256k1::hashes::{sha256, Hash};
use pocket_types::secp256k1::{Keypair, Message, SECP256K1};
use pocket_types::{Event, Kind, OwnedEvent, OwnedTags, Tags, Time};
use serde_json::{json, Value};
use std::io::{BufRead, Write};
use std::panic::{catch_unwind, AssertUnwindSafe};

const SK1: [u8; 32] = [0x11; 32];
const SK2: [u8; 32] = [0x22; 32];

struct Keys {
    kp: [Keypair; 2],
    pk: [[u8; 32]; 2],
}

fn keys() -> Keys {
    let k1 = Keypair::from_seckey_slice(SECP256K1, &SK1).expect("sk1");
    let k2 = Keypair::from_seckey_slice(SECP256K1, &SK2).expect("sk2");
    let p1 = k1.x_only_public_key().0.serialize();
    let p2 = k2.x_only_public_key().0.serialize();
    Keys { kp: [k1, k2], pk: [p1, p2] }
}

fn panic_msg(e: Box<dyn std::any::Any + Send>) -> String {
    if let Some(s) = e.downcast_ref::<&str>() {
        s.to_string()
    } else if let Some(s) = e.downcast_ref::<String>() {
        s.clone()
    } else {
        "?".to_string()
    }
}

fn short(s: String) -> String {
    s.chars().take(80).collect()
}

/// verify() as data: "ok" | "err:<inner>" | "panic:<message>"
fn verify_outcome(ev: &Event, counter: &mut u64) -> String {
    *counter += 1;
    match catch_unwind(AssertUnwindSafe(|| ev.verify())) {
        Ok(Ok(())) => "ok".into(),
        Ok(Err(e)) => short(format!("err:{:?}", e.inner)),
        Err(p) => short(format!("panic:{}", panic_msg(p))),
    }
}

fn cps_to_string(v: &Value) -> String {
    v.as_array()
        .expect("code point array")
        .iter()
        .map(|x| char::from_u32(x.as_u64().expect("code point") as u32).expect("scalar value"))
        .collect()
}

fn tags_of(v: &Value) -> Vec<Vec<String>> {
    v.as_array()
        .expect("tags array")
        .iter()
        .map(|t| t.as_array().expect("tag array").iter().map(cps_to_string).collect())
        .collect()
}

fn tag_bytes(tags: &[Vec<String>]) -> Vec<u8> {
    let t: Vec<Vec<Vec<u8>>> = tags.iter().map(|t| t.iter().map(|s| s.as_bytes().to_vec()).collect()).collect();
    vh::build_tags(&t)
}

#[derive(Clone, PartialEq, Debug)]
struct Fields {
    pk: [u8; 32],
    ts: u64,
    kind: u16,
    tags: Vec<Vec<String>>,
    content: String,
}

fn lay_out(f: &Fields, id: &[u8; 32], sig: &[u8; 64]) -> OwnedEvent {
    vh::build_event(id, f.kind, &f.pk, sig, &tag_bytes(&f.tags), f.ts, f.content.as_bytes())
}

/// the independent canonicaliser named by the property: serde_json on the same array value
fn serde_text(f: &Fields) -> String {
    serde_json::to_string(&json!([0, vh::hex(&f.pk), f.ts, f.kind, f.tags, f.content])).expect("serde_json")
}

fn sha(b: &[u8]) -> [u8; 32] {
    let h = sha256::Hash::hash(b);
    let r: &[u8; 32] = h.as_ref();
    *r
}

fn sign(kp: &Keypair, digest: &[u8; 32]) -> [u8; 64] {
    let m = Message::from_digest_slice(digest).expect("digest");
    kp.sign_schnorr(m).serialize()
}

/// JSON-escaped text of a string as LITERAL characters (used for escape confusions)
fn escaped_literal(s: &str) -> String {
    let t = serde_json::to_string(s).expect("serde");
    t[1..t.len() - 1].to_string()
}

fn str_edits(s: &str) -> Vec<(&'static str, String)> {
    let cs: Vec<char> = s.chars().collect();
    let mut out: Vec<(&'static str, String)> = Vec::new();
    let other = |c: char| if c == 'x' { 'y' } else { 'x' };
    if !cs.is_empty() {
        let mut a = cs.clone();
        a[0] = other(a[0]);
        out.push(("chg_first", a.iter().collect()));
        let mut a = cs.clone();
        let l = a.len() - 1;
        a[l] = other(a[l]);
        out.push(("chg_last", a.iter().collect()));
        out.push(("truncate", cs[..cs.len() - 1].iter().collect()));
        out.push(("drop_first", cs[1..].iter().collect()));
        let mut a = cs.clone();
        a.reverse();
        out.push(("reverse", a.iter().collect()));
    }
    out.push(("append_a", format!("{}a", s)));
    out.push(("append_nul", format!("{}\u{0}", s)));
    out.push(("append_quote", format!("{}\"", s)));
    out.push(("append_bslash", format!("{}\\", s)));
    out.push(("prepend_sp", format!(" {}", s)));
    out.push(("escaped_literal", escaped_literal(s)));
    out.push(("upper", s.to_uppercase()));
    out.push(("lower", s.to_lowercase()));
    out.retain(|(_, t)| t != s);
    out
}

/// every single-field mutation of the non-binary fields (name, mutated fields)
fn field_mutations(f: &Fields) -> Vec<(String, Fields)> {
    let mut out: Vec<(String, Fields)> = Vec::new();
    let mut push = |name: String, g: Fields| {
        if g != *f {
            out.push((name, g));
        }
    };
    // created_at
    for (n, v) in [
        ("ts_inc", f.ts.checked_add(1)),
        ("ts_dec", f.ts.checked_sub(1)),
        ("ts_bit32", Some(f.ts ^ (1u64 << 32))),
        ("ts_bit63", Some(f.ts ^ (1u64 << 63))),
        ("ts_times10", f.ts.checked_mul(10)),
        ("ts_div10", Some(f.ts / 10)),
    ] {
        if let Some(v) = v {
            push(n.into(), Fields { ts: v, ..f.clone() });
        }
    }
    // kind
    for (n, v) in [
        ("kind_inc", f.kind.checked_add(1)),
        ("kind_dec", f.kind.checked_sub(1)),
        ("kind_bit8", Some(f.kind ^ 0x100)),
        ("kind_bit15", Some(f.kind ^ 0x8000)),
        ("kind_div10", Some(f.kind / 10)),
    ] {
        if let Some(v) = v {
            push(n.into(), Fields { kind: v, ..f.clone() });
        }
    }
    // kind <-> created_at exchanged (two fields; must fail all the same)
    if f.ts <= 65535 {
        push("swap_kind_ts".into(), Fields { kind: f.ts as u16, ts: f.kind as u64, ..f.clone() });
    }
    // content
    for (n, s) in str_edits(&f.content) {
        push(format!("content_{}", n), Fields { content: s, ..f.clone() });
    }
    // tag strings
    for (i, t) in f.tags.iter().enumerate() {
        for (j, s) in t.iter().enumerate() {
            for (n, s2) in str_edits(s) {
                let mut g = f.clone();
                g.tags[i][j] = s2;
                push(format!("tagstr_{}", n), g);
            }
        }
    }
    // tag structure
    let nt = f.tags.len();
    for i in 0..nt {
        let len = f.tags[i].len();
        for (n, s) in [("addstr_empty", ""), ("addstr_a", "a")] {
            let mut g = f.clone();
            g.tags[i].push(s.to_string());
            push(format!("tags_{}", n), g);
            let mut g = f.clone();
            g.tags[i].insert(0, s.to_string());
            push(format!("tags_{}_front", n), g);
        }
        for j in 0..len {
            let mut g = f.clone();
            let _ = g.tags[i].remove(j);
            push("tags_delstr".into(), g);
        }
        for k in 0..=len {
            let mut g = f.clone();
            let tail = g.tags[i].split_off(k);
            g.tags.insert(i + 1, tail);
            push(if k == 0 || k == len { "tags_split_edge".into() } else { "tags_split".into() }, g);
        }
        for j in 0..len.saturating_sub(1) {
            for (n, sep) in [("tags_mergestr", ""), ("tags_mergestr_nested", "\",\""), ("tags_mergestr_comma", ",")] {
                let mut g = f.clone();
                let b = g.tags[i].remove(j + 1);
                g.tags[i][j] = format!("{}{}{}", g.tags[i][j], sep, b);
                push(n.into(), g);
            }
            let mut g = f.clone();
            g.tags[i].swap(j, j + 1);
            push("tags_swapstr".into(), g);
        }
        for j in 0..len {
            let cs: Vec<char> = f.tags[i][j].chars().collect();
            for k in 1..cs.len() {
                let mut g = f.clone();
                g.tags[i][j] = cs[..k].iter().collect();
                g.tags[i].insert(j + 1, cs[k..].iter().collect());
                push("tags_splitstr".into(), g);
            }
        }
        let mut g = f.clone();
        let _ = g.tags.remove(i);
        push("tags_deltag".into(), g);
        if i + 1 < nt {
            let mut g = f.clone();
            let b = g.tags.remove(i + 1);
            g.tags[i].extend(b);
            push("tags_merge".into(), g);
            let mut g = f.clone();
            g.tags.swap(i, i + 1);
            push("tags_swap".into(), g);
            // [["a"],["b"]] -> [["a\"],[\"b"]]: two tags of one string each read as one string
            if f.tags[i].len() == 1 && f.tags[i + 1].len() == 1 {
                let mut g = f.clone();
                let b = g.tags.remove(i + 1);
                g.tags[i][0] = format!("{}\"],[\"{}", g.tags[i][0], b[0]);
                push("tags_merge_nested".into(), g);
            }
        }
    }
    for (n, front) in [("tags_addtag_empty", false), ("tags_addtag_empty_front", true)] {
        let mut g = f.clone();
        if front {
            g.tags.insert(0, vec![]);
        } else {
            g.tags.push(vec![]);
        }
        push(n.into(), g);
    }
    {
        let mut g = f.clone();
        g.tags.push(vec!["".to_string()]);
        push("tags_addtag_emptystr".into(), g);
        // the whole tags value as one nested-looking string, and moved into the content
        let tj = serde_json::to_string(&f.tags).expect("serde");
        let mut g = f.clone();
        g.tags = vec![vec![tj[1..tj.len() - 1].to_string()]];
        push("tags_as_nested_string".into(), g);
        let mut g = f.clone();
        g.tags = vec![];
        g.content = format!("{},\"{}", &tj, f.content);
        push("tags_into_content".into(), g);
        if !f.content.is_empty() {
            let mut g = f.clone();
            g.tags.push(vec![f.content.clone()]);
            g.content = String::new();
            push("content_into_tags".into(), g);
        }
    }
    out
}

fn bit_positions(nbits: usize, full: bool, i: usize, sample: usize, salt: usize) -> Vec<usize> {
    if full {
        (0..nbits).collect()
    } else {
        // rotating sample: over consecutive cases every position is visited
        let mut v: Vec<usize> = (0..sample).map(|j| (i * sample + j * (nbits / sample) + salt) % nbits).collect();
        v.sort();
        v.dedup();
        v
    }
}

/// created_at arrives as a decimal numeral: a string, or the spec's sequence of digits
fn ts_of(v: &Value) -> u64 {
    let s: String = match v {
        Value::String(s) => s.clone(),
        Value::Array(a) => a.iter().map(|d| char::from(b'0' + d.as_u64().expect("digit") as u8)).collect(),
        _ => panic!("ts"),
    };
    s.parse::<u64>().expect("u64 created_at")
}

fn fields_of(c: &Value, k: &Keys) -> Fields {
    let pki = c["pk"].as_u64().expect("pk index") as usize;
    let mut pk = k.pk[pki - 1];
    if let Some(fl) = c.get("pkflip").and_then(|x| x.as_array()) {
        // nibble index 1..64 of the hex text, bit value 1/2/4/8 within the nibble
        let ni = fl[0].as_u64().unwrap() as usize;
        let b = fl[1].as_u64().unwrap() as u8;
        if ni >= 1 {
            let byte = (ni - 1) / 2;
            let sh = if (ni - 1) % 2 == 0 { 4 } else { 0 };
            pk[byte] ^= b << sh;
        }
    }
    Fields {
        pk,
        ts: ts_of(&c["ts"]),
        kind: c["kind"].as_u64().expect("kind") as u16,
        tags: tags_of(&c["tags"]),
        content: cps_to_string(&c["content"]),
    }
}

/// Verification and signing are functions of the event alone: calls that FAIL (content or a tag string that is not
/// UTF-8 - cut inside a multi-byte sequence - cannot be canonicalised) must leave nothing behind on this thread that a
/// later call could pick up.  Run before every other case; the results are not judged (the outcome on such bytes is
/// outside C08), the cases that follow are.
fn failing_prelude(k: &Keys, which: usize) {
    let contents: [&[u8]; 4] = [b"abc\xE2\x82", b"\xF0\x9F", b"tail\xC3", b"\"q\\\xE2"];
    let content = contents[which % contents.len()];
    let bad_tag: Vec<Vec<Vec<u8>>> = vec![vec![b"t".to_vec(), b"ab\xE2\x82".to_vec()]];
    let tb_bad = vh::build_tags(&bad_tag);
    let tb_ok = vh::build_tags(&[]);
    let kp = &k.kp[which % 2];
    for (tb, ct) in [(&tb_ok, content), (&tb_bad, &b"fine"[..])] {
        let ev = vh::build_event(&[7u8; 32], 1, &k.pk[which % 2], &[9u8; 64], tb, 5, ct);
        let _ = catch_unwind(AssertUnwindSafe(|| ev.verify()));
        let tags: &Tags = unsafe { Tags::delineate(tb).expect("hand-laid tags") };
        let _ = catch_unwind(AssertUnwindSafe(|| OwnedEvent::sign_new(kp, Kind::from_u16(1), tags, Time::from_u64(5), ct)));
    }
}

fn run_case(c: &Value, k: &Keys) -> Value {
    let i = c["i"].as_u64().unwrap_or(0) as usize;
    if i % 2 == 1 {
        failing_prelude(k, i / 2);
    }
    let full = c.get("full").and_then(|x| x.as_bool()).unwrap_or(false);
    let pki = c["pk"].as_u64().expect("pk") as usize;
    let kp = &k.kp[pki - 1];
    let other_kp = &k.kp[2 - pki];
    let f = fields_of(c, k);
    let mut nver: u64 = 0;
    let mut bad: Vec<Value> = Vec::new();

    // --- the specification's canonical text and the independent canonicaliser
    let canon = cps_to_string(&c["canon"]);
    let stext = serde_text(&f);
    let serde_same = stext == canon;
    let id_spec = sha(canon.as_bytes());

    // --- tags: laid out by hand (constructor OwnedTags::new is compared, not relied upon)
    let tb = tag_bytes(&f.tags);
    let ctor_same = match catch_unwind(AssertUnwindSafe(|| OwnedTags::new(&f.tags))) {
        Ok(Ok(t)) => t.as_bytes() == &tb[..],
        _ => false,
    };
    let tags: &Tags = unsafe { Tags::delineate(&tb).expect("hand-laid tags") };

    // --- sign_new
    let signed = catch_unwind(AssertUnwindSafe(|| {
        OwnedEvent::sign_new(kp, Kind::from_u16(f.kind), tags, Time::from_u64(f.ts), f.content.as_bytes())
    }));
    let (sign_out, signed_ev) = match signed {
        Ok(Ok(e)) => ("ok".to_string(), Some(e)),
        Ok(Err(e)) => (short(format!("err:{:?}", e.inner)), None),
        Err(p) => (short(format!("panic:{}", panic_msg(p))), None),
    };
    let (id_impl, v_signed, signed_fields_same) = match &signed_ev {
        Some(e) => {
            let id: [u8; 32] = *e.id();
            let laid = lay_out(&f, &id, &{
                let s: [u8; 64] = *e.sig();
                s
            });
            (vh::hex(&id), verify_outcome(e, &mut nver), laid.0 == e.0)
        }
        None => (String::new(), "none".to_string(), false),
    };

    // --- independent event: id = SHA-256(spec text), signature made here
    let sig_indep = sign(kp, &id_spec);
    let indep = lay_out(&f, &id_spec, &sig_indep);
    let v_indep = verify_outcome(&indep, &mut nver);

    // --- base for the mutations: an event that verifies
    let (base, base_id, base_sig): (&str, [u8; 32], [u8; 64]) = if v_indep == "ok" {
        ("indep", id_spec, sig_indep)
    } else if v_signed == "ok" && signed_fields_same {
        let e = signed_ev.as_ref().unwrap();
        ("signed", *e.id(), *e.sig())
    } else {
        ("none", [0; 32], [0; 64])
    };
    let mut nmut: u64 = 0;
    let mut njson: u64 = 0;
    if base != "none" {
        let base_ev = lay_out(&f, &base_id, &base_sig);
        let mut try_ev = |name: String, ev: OwnedEvent, nver: &mut u64, bad: &mut Vec<Value>| {
            if ev.0 == base_ev.0 {
                return;
            }
            nmut += 1;
            let o = verify_outcome(&ev, nver);
            if !o.starts_with("err:") {
                bad.push(json!({"name": name, "outcome": o, "event": vh::hex(&ev.0)}));
            }
        };
        // bits of id / pubkey / sig
        for b in bit_positions(256, full, i, 4, 0) {
            let mut id = base_id;
            id[b / 8] ^= 1 << (b % 8);
            try_ev(format!("id_bit:{}", b), lay_out(&f, &id, &base_sig), &mut nver, &mut bad);
        }
        // ids that differ from the hash in SEVERAL places chosen so that a folded comparison (xor / sum of the byte
        // differences, first or last bytes only, a comparison of sorted or reversed bytes) would not notice: the same bit
        // flipped in two bytes, +1 / -1 in two bytes, two unequal bytes exchanged, the id reversed; each with the original
        // signature and with a valid signature of the wrong id
        {
            let mut wrong: Vec<(String, [u8; 32])> = vec![];
            let pairs: Vec<(usize, usize)> = if full {
                (0..32).flat_map(|a| ((a + 1)..32).map(move |b| (a, b))).collect()
            } else {
                vec![(0, 31), (i % 32, (i + 1) % 32), (i % 32, (i * 7 + 13) % 32), (15, 16), ((i / 32) % 32, 31 - (i % 31))]
            };
            for (a, b) in pairs {
                if a == b {
                    continue;
                }
                let bit = 1u8 << ((i + a) % 8);
                let mut id = base_id;
                id[a] ^= bit;
                id[b] ^= bit;
                wrong.push((format!("id_same_bit_in_two_bytes:{},{}", a, b), id));
                let mut id = base_id;
                id[a] = id[a].wrapping_add(1);
                id[b] = id[b].wrapping_sub(1);
                wrong.push((format!("id_plus_minus_one:{},{}", a, b), id));
                if base_id[a] != base_id[b] {
                    let mut id = base_id;
                    id.swap(a, b);
                    wrong.push((format!("id_bytes_exchanged:{},{}", a, b), id));
                }
            }
            let mut id = base_id;
            id.reverse();
            wrong.push(("id_reversed".into(), id));
            for (n, (name, id)) in wrong.into_iter().enumerate() {
                try_ev(name.clone(), lay_out(&f, &id, &base_sig), &mut nver, &mut bad);
                if (full && n % 16 == i % 16) || (!full && i % 4 == 0) {
                    try_ev(format!("{}:resigned", name), lay_out(&f, &id, &sign(kp, &id)), &mut nver, &mut bad);
                }
            }
        }
        for b in bit_positions(256, full, i, 4, 17) {
            let mut g = f.clone();
            g.pk[b / 8] ^= 1 << (b % 8);
            try_ev(format!("pubkey_bit:{}", b), lay_out(&g, &base_id, &base_sig), &mut nver, &mut bad);
        }
        for b in bit_positions(512, full, i, 8, 5) {
            let mut s = base_sig;
            s[b / 8] ^= 1 << (b % 8);
            try_ev(format!("sig_bit:{}", b), lay_out(&f, &base_id, &s), &mut nver, &mut bad);
        }
        // every other single-field mutation
        for (name, g) in field_mutations(&f) {
            try_ev(name, lay_out(&g, &base_id, &base_sig), &mut nver, &mut bad);
        }
        // signatures that are valid, but not of this id under this key
        try_ev("sig_by_other_key".into(), lay_out(&f, &base_id, &sign(other_kp, &base_id)), &mut nver, &mut bad);
        try_ev("sig_of_other_digest".into(), lay_out(&f, &base_id, &sign(kp, &sha(b"other"))), &mut nver, &mut bad);
        try_ev("sig_zero".into(), lay_out(&f, &base_id, &[0u8; 64]), &mut nver, &mut bad);
        // pubkey exchanged for the other key, which signs the (unchanged) id: a valid signature of
        // an id that is not the hash of the event's own fields
        {
            let g = Fields { pk: k.pk[2 - pki], ..f.clone() };
            try_ev("pubkey_swapped_and_resigned".into(), lay_out(&g, &base_id, &sign(other_kp, &base_id)), &mut nver, &mut bad);
        }
        // id and signature of ANOTHER valid event (fields differ in created_at) transplanted
        {
            let g = Fields { ts: f.ts ^ 1, ..f.clone() };
            let gid = sha(serde_text(&g).as_bytes());
            try_ev("id_and_sig_of_sibling_event".into(), lay_out(&f, &gid, &sign(kp, &gid)), &mut nver, &mut bad);
        }
        // the verifying event as a JSON TEXT whose numerals name another event: kind + 65 536 (+ 131 072) and created_at
        // + 2^64 wrap to the original values in a u16 / u64; a text that parses AND verifies is an accepted forgery of the
        // (kind, created_at) the text states.  A refusal by the parser is the expected outcome.
        {
            let num_variants: Vec<(String, String, String)> = vec![
                ("json_kind_plus_65536".into(), (f.kind as u64 + 65536).to_string(), f.ts.to_string()),
                ("json_kind_plus_131072".into(), (f.kind as u64 + 131072).to_string(), f.ts.to_string()),
                ("json_created_at_plus_2^64".into(), f.kind.to_string(), (f.ts as u128 + (1u128 << 64)).to_string()),
                ("json_kind_leading_digits".into(), format!("65536{}", f.kind), f.ts.to_string()),
            ];
            for (name, kind_txt, ts_txt) in num_variants {
                let text = format!(
                    "{{\"id\":\"{}\",\"pubkey\":\"{}\",\"created_at\":{},\"kind\":{},\"tags\":{},\"content\":{},\"sig\":\"{}\"}}",
                    vh::hex(&base_id), vh::hex(&f.pk), ts_txt, kind_txt, serde_json::to_string(&f.tags).expect("tags"),
                    serde_json::to_string(&f.content).expect("content"), vh::hex(&base_sig));
                njson += 1;
                let mut buf = vec![0u8; text.len() + 4096];
                // (a panic of the parser is C03's business: here it counts as "not accepted")
                let o = match catch_unwind(AssertUnwindSafe(|| Event::from_json(text.as_bytes(), &mut buf).map(|(_, e)| e.verify()))) {
                    Ok(Ok(Ok(()))) => "ok".to_string(),
                    _ => "err:refused".to_string(),
                };
                nver += 1;
                if !o.starts_with("err:") {
                    bad.push(json!({"name": name, "outcome": o, "event": text}));
                }
            }
        }
        // ids that hash a non-canonical text of the same fields, validly signed
        if let Some(alts) = c.get("alts").and_then(|x| x.as_array()) {
            for a in alts {
                let text = cps_to_string(&a["text"]);
                if text == canon {
                    continue;
                }
                let aid = sha(text.as_bytes());
                let st = a["st"].as_str().unwrap_or("?");
                try_ev(format!("noncanonical:{}", st), lay_out(&f, &aid, &sign(kp, &aid)), &mut nver, &mut bad);
            }
        }
    }

    json!({
        "i": i, "t": "case", "sign": sign_out, "id_impl": id_impl, "id_spec": vh::hex(&id_spec),
        "serde_same": serde_same, "serde_text": if serde_same { Value::Null } else { json!(stext) },
        "ctor_same": ctor_same, "signed_fields_same": signed_fields_same,
        "v_signed": v_signed, "v_indep": v_indep, "base": base, "n_mut": nmut + njson, "n_verify": nver, "bad": bad,
    })
}

/// a tamper case emitted by TLC: original fields `o`, tampered fields `m`; the tampered event
/// carries the id and signature of the original
fn run_tamper(c: &Value, k: &Keys) -> Value {
    let i = c["i"].as_u64().unwrap_or(0);
    let o = fields_of(&c["o"], k);
    let m = fields_of(&c["m"], k);
    let pki = c["o"]["pk"].as_u64().unwrap() as usize;
    let mut nver = 0u64;
    let id = sha(serde_text(&o).as_bytes());
    let sig = sign(&k.kp[pki - 1], &id);
    let base = verify_outcome(&lay_out(&o, &id, &sig), &mut nver);
    let ev = lay_out(&m, &id, &sig);
    let same = m == o;
    let v = verify_outcome(&ev, &mut nver);
    json!({"i": i, "t": "tamper", "base": base, "same": same, "v": v, "n_verify": nver,
           "event": if v.starts_with("err:") { Value::Null } else { json!(vh::hex(&ev.0)) }})
}

/// out-of-domain probe (strings that are not valid UTF-8): pure observation, never judged
fn run_probe(c: &Value, k: &Keys) -> Value {
    let i = c["i"].as_u64().unwrap_or(0);
    let content = vh::unhex(c["content_hex"].as_str().expect("content_hex"));
    let tb = vh::build_tags(&[]);
    let mut nver = 0u64;
    let ev = vh::build_event(&[0x42; 32], 1, &k.pk[0], &[0; 64], &tb, 1, &content);
    let v = verify_outcome(&ev, &mut nver);
    let tags: &Tags = unsafe { Tags::delineate(&tb).unwrap() };
    let s = match catch_unwind(AssertUnwindSafe(|| {
        OwnedEvent::sign_new(&k.kp[0], Kind::from_u16(1), tags, Time::from_u64(1), &content)
    })) {
        Ok(Ok(_)) => "ok".to_string(),
        Ok(Err(e)) => short(format!("err:{:?}", e.inner)),
        Err(p) => short(format!("panic:{}", panic_msg(p))),
    };
    json!({"i": i, "t": "probe", "verify": v, "sign_new": s, "n_verify": nver})
}

fn main() {
    let args: Vec<String> = std::env::args().collect();
    let k = keys();
    if args.len() >= 2 && args[1] == "keys" {
        println!("{}", json!({"pk": [vh::hex(&k.pk[0]), vh::hex(&k.pk[1])]}));
        return;
    }
    if args.len() < 3 || args[1] != "run" {
        eprintln!("usage: canondrv keys | canondrv run CASES.ndjson [SKIP]");
        std::process::exit(2);
    }
    vh::silence_panics();
    let skip: usize = args.get(3).map(|s| s.parse().expect("skip")).unwrap_or(0);
    let f = std::fs::File::open(&args[2]).expect("cases file");
    let out = std::io::stdout();
    let mut out = out.lock();
    for (n, line) in std::io::BufReader::new(f).lines().enumerate() {
        if n < skip {
            continue;
        }
        let line = line.expect("read");
        if line.trim().is_empty() {
            continue;
        }
        let c: Value = serde_json::from_str(&line).expect("case json");
        // the spec's public keys must be the harness's keys (tool consistency, not a verdict)
        if let Some(pk) = c.get("pkhex").and_then(|x| x.as_array()) {
            let idx = c["pk"].as_u64().unwrap() as usize;
            let want: String = pk.iter().map(|x| char::from_u32(x.as_u64().unwrap() as u32).unwrap()).collect();
            if want != vh::hex(&k.pk[idx - 1]) {
                eprintln!("TOOL: spec public key {} differs from the harness key", idx);
                std::process::exit(3);
            }
        }
        let r = match c["t"].as_str().unwrap_or("case") {
            "tamper" => run_tamper(&c, &k),
            "probe" => run_probe(&c, &k),
            _ => run_case(&c, &k),
        };
        writeln!(out, "{}", r).expect("write");
        out.flush().expect("flush");
    }
}
