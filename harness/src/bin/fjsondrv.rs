//! fjsondrv: conformance driver for property C07 (filter JSON parsing is faithful,
//! order-independent and round-trips).
//!
//! Input: the raw output of TLC on spec/NostrJsonFilter.tla (lines `<<"CASE", "{...}">>`), each an
//! abstract document description with the specification's expectation and denoted filter value.
//! For every case the driver
//!   * concretises the document to bytes (tables below; symbolic integer shapes become decimals),
//!   * parses the same bytes with serde_json (the independent parser) and extracts the NIP-01
//!     members; a disagreement between that and the specification's denotation is an error of
//!     the TOOLING (exit 2), never a violation,
//!   * runs `Filter::from_json` (panics are data), compares acceptance, consumed length and every
//!     accessor with what serde_json extracted,
//!   * for every accepted filter: `as_json()` must be valid JSON with equal fields, and
//!     `from_json` of it must give a byte-identical filter,
//!   * re-runs the document with its members in normal order: acceptance and meaning must agree.
//! Cases of family "hand" carry no JSON text: the denoted filter is laid out as bytes by hand and
//! only the serialisation round trip is judged.
//!
//! usage: fjsondrv run --cases TLC_OUT [--cases ...] --out FILE [--stride K --offset O]
//!                     [--from N] [--mark FILE] [--samples N]
//!        fjsondrv replay --file REPLAY.json --out FILE

use pocket_types::Filter;
use serde_json::{json, Value};
use std::collections::hash_map::DefaultHasher;
use std::collections::{BTreeMap, BTreeSet, HashSet};
use std::hash::{Hash, Hasher};
use std::io::{BufRead, BufWriter, Write};
use std::panic::{catch_unwind, AssertUnwindSafe};

const U32MAX: u64 = u32::MAX as u64;

fn tool_error(msg: &str) -> ! {
    eprintln!("TOOL-ERROR fjsondrv: {}", msg);
    std::process::exit(2);
}

fn arg(args: &[String], name: &str) -> Option<String> {
    args.iter().position(|a| a == name).and_then(|i| args.get(i + 1).cloned())
}

fn args_all(args: &[String], name: &str) -> Vec<String> {
    let mut v = vec![];
    for i in 0..args.len() {
        if args[i] == name {
            if let Some(x) = args.get(i + 1) {
                v.push(x.clone());
            }
        }
    }
    v
}

// ---------------------------------------------------------------------------------------------
// Concretisation tables
// ---------------------------------------------------------------------------------------------

fn hex32(name: &str) -> &'static str {
    match name {
        "i1" => "6b43bc2e373b6d9330ff571f3f4e6d897b32d01d65227df3fa41cdf731c63c3a",
        "i2" => "1f47034c9d6d0539382a86ba31766f00f2b8312ab167c036729422ec9e7085e8",
        "i3" => "ffffffffffffffffffffffffffffffffffffffffffffffffffffffffffffff00",
        "a1" => "52b4a076bcbbbdc3a1aefa3735816cf74993b1b8db202b01c883c58be7fad8bd",
        "a2" => "ee11a5dff40c19a555f41fe42b48f00e618c91225622ae37b6c2bb67b76c4e49",
        "a3" => "0000000000000000000000000000000000000000000000000000000000000001",
        _ => tool_error(&format!("unknown id/author name {}", name)),
    }
}

/// decimal spelling of a symbolic integer shape
fn shape_text(s: &str) -> &'static str {
    // "n:<digits>" = that decimal number (boundaries of digit-count arithmetic in integer printers / readers)
    if let Some(d) = s.strip_prefix("n:") {
        if !d.is_empty() && d.bytes().all(|c| c.is_ascii_digit()) {
            return Box::leak(d.to_string().into_boxed_str());
        }
    }
    match s {
        "0" => "0",
        "1" => "1",
        "10" => "10",
        "30023" => "30023",
        "65535" => "65535",
        "65536" => "65536",
        "1700000000" => "1700000000",
        "u32max" => "4294967295",
        "2^32" => "4294967296",
        "2^32+1" => "4294967297",
        "u64max" => "18446744073709551615",
        "2^64" => "18446744073709551616",
        "-1" => "-1",
        "1.0" => "1.0",
        "1e3" => "1e3",
        "1e0" => "1e0",
        _ => tool_error(&format!("unknown integer shape {}", s)),
    }
}

/// the value a (possibly saturated) symbolic shape of the specification's denotation stands for
fn shape_u64(s: &str) -> u64 {
    match shape_text(s).parse::<u64>() {
        Ok(v) => v,
        Err(_) => tool_error(&format!("denotation uses a non-u64 shape {}", s)),
    }
}

fn letter(l: i64) -> u8 {
    match l {
        1..=26 => b'a' + (l - 1) as u8,
        27..=52 => b'A' + (l - 27) as u8,
        _ => tool_error(&format!("bad letter index {}", l)),
    }
}

const HEXV1: &str = "a9663055164ab8b30d9524656370c4bf93393bb051b7edf4556f40c5298dc0c7";
const HEXV2: &str = "2c86abcc98f7fd8a6750aab8df6c1863903f107206cc2d72e8afeb6c38357aed";

/// JSON spelling (between the quotes) of a tag value class
fn val_spelling(v: &str) -> Vec<u8> {
    let s: &str = match v {
        "plain" => "abc",
        "empty" => "",
        "hex1" => HEXV1,
        "hex2" => HEXV2,
        "space" => "a b",
        "quote" => "a\\\"b",
        "quote_end" => "ab\\\"",
        "bslash" => "a\\\\b",
        "bslash_end" => "ab\\\\",
        "nl" => "\\n",
        "tab" => "\\t",
        "cr" => "\\r",
        "bs" => "\\b",
        "ff" => "\\f",
        "ctl_u" => "\\u0001",
        "nul_u" => "\\u0000",
        "slash_lit" => "a/b",
        "slash_esc" => "a\\/b",
        "u2_lit" => "\u{e9}",
        "u2_esc" => "\\u00e9",
        "u2_ESC" => "\\u00E9",
        "u3_lit" => "\u{20ac}",
        "u3_esc" => "\\u20ac",
        "u4_lit" => "\u{1f600}",
        "u4_sur" => "\\ud83d\\ude00",
        "p2_lit" => "\u{20bb7}",
        "p14_lit" => "\u{e0067}",
        "p16_lit" => "\u{10ffff}",
        "p2_sur" => "\\ud842\\udfb7",
        "p14_sur" => "\\udb40\\uDC67",
        "p16_sur" => "\\uDBFF\\udfff",
        "del_lit" => "\u{7f}",
        "brackets" => "]}[{,:",
        "uplain" => "\\u0061bc",
        _ => {
            if v.len() == 3 && v.starts_with('c') {
                return format!("\\u00{}", &v[1..]).into_bytes();
            }
            if let Some(n) = v.strip_prefix("big").and_then(|x| x.parse::<usize>().ok()) {
                return vec![b'a'; n];       // a value of n bytes (the tag section's u16 length field is the limit)
            }
            tool_error(&format!("unknown tag value class {}", v))
        }
    };
    s.as_bytes().to_vec()
}

/// the bytes a value class of the DENOTATION (a `Char` of the specification) stands for
fn char_bytes(c: &str) -> Vec<u8> {
    let s: &str = match c {
        "plain" => "abc",
        "empty" => "",
        "hex1" => HEXV1,
        "hex2" => HEXV2,
        "space" => "a b",
        "quote" => "a\"b",
        "quote_end" => "ab\"",
        "bslash" => "a\\b",
        "bslash_end" => "ab\\",
        "slash_lit" => "a/b",
        "u2_lit" => "\u{e9}",
        "u3_lit" => "\u{20ac}",
        "u4_lit" => "\u{1f600}",
        "p2_lit" => "\u{20bb7}",
        "p14_lit" => "\u{e0067}",
        "p16_lit" => "\u{10ffff}",
        "del_lit" => "\u{7f}",
        "brackets" => "]}[{,:",
        _ => {
            if c.len() == 3 && c.starts_with('c') {
                if let Ok(b) = u8::from_str_radix(&c[1..], 16) {
                    return vec![b];
                }
            }
            if let Some(n) = c.strip_prefix("big").and_then(|x| x.parse::<usize>().ok()) {
                return vec![b'a'; n];
            }
            tool_error(&format!("unknown denoted value class {}", c))
        }
    };
    s.as_bytes().to_vec()
}

fn unk_key(k: &str) -> &'static str {
    match k {
        "search" => "search",
        "idsx" => "idsx",
        "limits" => "limits",
        "empty" => "",
        "i" => "i",
        "e" => "e",
        "id" => "id",
        "IDS" => "IDS",
        "kind" => "kind",
        "esc" => "a\\\"b",
        "uni" => "\u{e9}",
        "sinc" => "sinc",
        "hash_ab" => "#ab",
        "hash" => "#",
        "hash_1" => "#1",
        "hash_uni" => "#\u{e9}",
        _ => tool_error(&format!("unknown key shape {}", k)),
    }
}

fn unk_val(v: &str) -> &'static str {
    match v {
        "str" => "\"x\"",
        "str_empty" => "\"\"",
        "str_brackets" => "\"]}[{,:\"",
        "str_quote" => "\"a\\\"b\"",
        "str_bslash_end" => "\"a\\\\\"",
        "str_unicode" => "\"\u{e9}\\u00e9\u{1f600}\"",
        "int" => "7",
        "zero" => "0",
        "neg" => "-5",
        "frac" => "1.5",
        "zerofrac" => "0.5",
        "exp" => "1e5",
        "negexp" => "-1.5E-3",
        "true" => "true",
        "false" => "false",
        "null" => "null",
        "arr_empty" => "[]",
        "arr" => "[1,\"a\",true,null,0]",
        "arr_nested" => "[[1,[2,[3,\"]\"]]],[],{\"a\":[]}]",
        "arr_ws" => "[ 1 , [ ] ,\t{ } \n]",
        "obj_empty" => "{}",
        "obj" => "{\"a\":1,\"b\":\"c\"}",
        "obj_nested" => "{\"a\":{\"b\":[1,{\"c\":null}]},\"ids\":[\"x\"],\"}\":0}",
        "obj_ws" => "{ \"a\" : 1 , \"b\" :\r\n[ ] }",
        _ => tool_error(&format!("unknown value shape {}", v)),
    }
}

fn ws_text(c: &str) -> &'static str {
    match c {
        "sp" => " ",
        "tab" => "\t",
        "nl" => "\n",
        "cr" => "\r",
        "mix" => " \t\r\n",
        "none" => "",
        _ => tool_error(&format!("unknown whitespace class {}", c)),
    }
}

// ---------------------------------------------------------------------------------------------
// Abstract documents
// ---------------------------------------------------------------------------------------------

#[derive(Clone, Debug)]
struct Member {
    k: String,
    l: i64,
    key: String,
    v: Vec<String>,
}

fn members(d: &Value) -> Vec<Member> {
    let arr = d["mem"].as_array().unwrap_or_else(|| tool_error("case without mem"));
    arr.iter()
        .map(|m| Member {
            k: m["k"].as_str().unwrap_or_else(|| tool_error("member without k")).to_string(),
            l: m["l"].as_i64().unwrap_or(0),
            key: m["key"].as_str().unwrap_or("").to_string(),
            v: m["v"]
                .as_array()
                .map(|a| a.iter().map(|x| x.as_str().unwrap_or_else(|| tool_error("non-string value")).to_string()).collect())
                .unwrap_or_default(),
        })
        .collect()
}

fn quoted(inner: &[u8]) -> Vec<u8> {
    let mut t = Vec::with_capacity(inner.len() + 2);
    t.push(b'"');
    t.extend_from_slice(inner);
    t.push(b'"');
    t
}

/// document -> tokens; whitespace goes into the gaps between tokens
fn tokens(mem: &[Member]) -> Vec<Vec<u8>> {
    let mut t: Vec<Vec<u8>> = vec![b"{".to_vec()];
    for (i, m) in mem.iter().enumerate() {
        if i > 0 {
            t.push(b",".to_vec());
        }
        let is_list = matches!(m.k.as_str(), "ids" | "authors" | "kinds" | "tag");
        let key: Vec<u8> = match m.k.as_str() {
            "tag" => vec![b'#', letter(m.l)],
            "unk" => unk_key(&m.key).as_bytes().to_vec(),
            other => other.as_bytes().to_vec(),
        };
        t.push(quoted(&key));
        t.push(b":".to_vec());
        if is_list {
            t.push(b"[".to_vec());
            for (j, x) in m.v.iter().enumerate() {
                if j > 0 {
                    t.push(b",".to_vec());
                }
                t.push(match m.k.as_str() {
                    "ids" | "authors" => quoted(hex32(x).as_bytes()),
                    "kinds" => shape_text(x).as_bytes().to_vec(),
                    _ => quoted(&val_spelling(x)),
                });
            }
            t.push(b"]".to_vec());
        } else if m.k == "unk" {
            t.push(unk_val(&m.v[0]).as_bytes().to_vec());
        } else {
            t.push(shape_text(&m.v[0]).as_bytes().to_vec());
        }
    }
    t.push(b"}".to_vec());
    t
}

fn concretise(mem: &[Member], g: i64, wsc: &str) -> Vec<u8> {
    let t = tokens(mem);
    if g >= t.len() as i64 {
        tool_error(&format!("whitespace gap {} beyond the {} tokens of the document", g, t.len()));
    }
    let w = ws_text(wsc).as_bytes();
    let mut out = Vec::new();
    for (i, tok) in t.iter().enumerate() {
        if g == -2 || g == i as i64 {
            out.extend_from_slice(w);
        }
        out.extend_from_slice(tok);
    }
    out
}

fn rank(m: &Member) -> i64 {
    match m.k.as_str() {
        "ids" => 100,
        "authors" => 200,
        "kinds" => 300,
        "since" => 400,
        "until" => 500,
        "limit" => 600,
        "tag" => 700 + m.l,
        _ => 800,
    }
}

// ---------------------------------------------------------------------------------------------
// Filter values: what is expected, what was observed
// ---------------------------------------------------------------------------------------------

#[derive(Clone, Debug, PartialEq, Eq, Default)]
struct Exp {
    ids: Vec<Vec<u8>>,
    authors: Vec<Vec<u8>>,
    kinds: Vec<u64>,
    tags: BTreeSet<(Vec<u8>, Vec<Vec<u8>>)>,
    since: u64,
    until: u64,
    limit: u64,
}

fn exp_to_json(e: &Exp, oor: &[String]) -> Value {
    json!({
        "ids": e.ids.iter().map(|x| vh::hex(x)).collect::<Vec<_>>(),
        "authors": e.authors.iter().map(|x| vh::hex(x)).collect::<Vec<_>>(),
        "kinds": e.kinds,
        "tags": e.tags.iter().map(|(n, vs)| json!([vh::hex(n), vs.iter().map(|x| vh::hex(x)).collect::<Vec<_>>()])).collect::<Vec<_>>(),
        "since": e.since, "until": e.until, "limit": e.limit, "oor": oor,
    })
}

fn exp_from_json(v: &Value) -> (Exp, Vec<String>) {
    let hexes = |x: &Value| -> Vec<Vec<u8>> {
        x.as_array().map(|a| a.iter().map(|h| vh::unhex(h.as_str().unwrap_or(""))).collect()).unwrap_or_default()
    };
    let mut tags = BTreeSet::new();
    if let Some(a) = v["tags"].as_array() {
        for t in a {
            tags.insert((vh::unhex(t[0].as_str().unwrap_or("")), hexes(&t[1])));
        }
    }
    let e = Exp {
        ids: hexes(&v["ids"]),
        authors: hexes(&v["authors"]),
        kinds: v["kinds"].as_array().map(|a| a.iter().map(|k| k.as_u64().unwrap_or(0)).collect()).unwrap_or_default(),
        tags,
        since: v["since"].as_u64().unwrap_or(0),
        until: v["until"].as_u64().unwrap_or(u64::MAX),
        limit: v["limit"].as_u64().unwrap_or(U32MAX),
    };
    let oor = v["oor"].as_array().map(|a| a.iter().filter_map(|s| s.as_str().map(|s| s.to_string())).collect()).unwrap_or_default();
    (e, oor)
}

/// the specification's denotation, concretised
fn exp_from_den(den: &Value) -> Exp {
    let names = |x: &Value| -> Vec<String> {
        x.as_array().map(|a| a.iter().map(|s| s.as_str().unwrap_or("").to_string()).collect()).unwrap_or_default()
    };
    let mut tags = BTreeSet::new();
    if let Some(a) = den["tags"].as_array() {
        for t in a {
            let l = t[0].as_i64().unwrap_or_else(|| tool_error("denoted tag without letter"));
            tags.insert((vec![letter(l)], names(&t[1]).iter().map(|c| char_bytes(c)).collect()));
        }
    }
    Exp {
        ids: names(&den["ids"]).iter().map(|n| vh::unhex(hex32(n))).collect(),
        authors: names(&den["authors"]).iter().map(|n| vh::unhex(hex32(n))).collect(),
        kinds: names(&den["kinds"]).iter().map(|s| shape_u64(s)).collect(),
        tags,
        since: shape_u64(den["since"].as_str().unwrap_or("0")),
        until: shape_u64(den["until"].as_str().unwrap_or("u64max")),
        limit: shape_u64(den["limit"].as_str().unwrap_or("u32max")),
    }
}

/// a JSON number as the independent parser sees it
enum Num {
    U(u64),
    Big,
    Neg,
    Frac,
}

fn num(v: &Value) -> Result<Num, String> {
    match v {
        Value::Number(n) => {
            if let Some(u) = n.as_u64() {
                Ok(Num::U(u))
            } else if n.as_i64().is_some() {
                Ok(Num::Neg)
            } else {
                // without arbitrary precision serde_json reads integers beyond u64 (and every
                // fraction / exponent spelling) as f64
                let f = n.as_f64().unwrap_or(f64::NAN);
                if f.fract() == 0.0 && f >= 18446744073709551616.0 {
                    Ok(Num::Big)
                } else if f.fract() == 0.0 && f <= -9223372036854775808.0 {
                    Ok(Num::Neg)
                } else {
                    Ok(Num::Frac)
                }
            }
        }
        _ => Err("not a number".into()),
    }
}

fn sat(n: Num, max: u64, field: &str, oor: &mut Vec<String>) -> Result<u64, String> {
    let mark = |oor: &mut Vec<String>| {
        if !oor.iter().any(|x| x == field) {
            oor.push(field.to_string())
        }
    };
    match n {
        Num::U(u) if u <= max => Ok(u),
        Num::U(_) | Num::Big => {
            mark(oor);
            Ok(max)
        }
        Num::Neg => {
            mark(oor);
            Ok(0)
        }
        Num::Frac => Err(format!("{} is spelled with a fraction or exponent", field)),
    }
}

/// What the independent parser extracts from a filter document: NIP-01 members only, absent
/// members at their defaults, out-of-range integers saturated (and named in `oor`).
fn extract(v: &Value) -> Result<(Exp, Vec<String>), String> {
    let o = v.as_object().ok_or("not an object")?;
    let mut e = Exp { until: u64::MAX, limit: U32MAX, ..Default::default() };
    let mut oor = vec![];
    let hexlist = |x: &Value, what: &str| -> Result<Vec<Vec<u8>>, String> {
        let a = x.as_array().ok_or(format!("{} is not an array", what))?;
        let mut out = vec![];
        for h in a {
            let s = h.as_str().ok_or(format!("{} element is not a string", what))?;
            if s.len() != 64 || !s.bytes().all(|c| c.is_ascii_hexdigit()) {
                return Err(format!("{} element is not 64 hex digits", what));
            }
            out.push(vh::unhex(s));
        }
        Ok(out)
    };
    for (k, x) in o.iter() {
        match k.as_str() {
            "ids" => e.ids = hexlist(x, "ids")?,
            "authors" => e.authors = hexlist(x, "authors")?,
            "kinds" => {
                for kv in x.as_array().ok_or("kinds is not an array")? {
                    e.kinds.push(sat(num(kv)?, 65535, "kinds", &mut oor)?);
                }
            }
            "since" => e.since = sat(num(x)?, u64::MAX, "since", &mut oor)?,
            "until" => e.until = sat(num(x)?, u64::MAX, "until", &mut oor)?,
            "limit" => e.limit = sat(num(x)?, U32MAX, "limit", &mut oor)?,
            _ => {
                let kb = k.as_bytes();
                if kb.len() == 2 && kb[0] == b'#' && kb[1].is_ascii_alphabetic() {
                    let mut vals = vec![];
                    for s in x.as_array().ok_or("tag member is not an array")? {
                        vals.push(s.as_str().ok_or("tag value is not a string")?.as_bytes().to_vec());
                    }
                    e.tags.insert((vec![kb[1]], vals));
                }
            }
        }
    }
    Ok((e, oor))
}

#[derive(Debug, Clone)]
struct Obs {
    ids: Vec<Vec<u8>>,
    authors: Vec<Vec<u8>>,
    kinds: Vec<u64>,
    tags: Vec<(Vec<u8>, Vec<Vec<u8>>)>, // stored order; first string is the name
    since: u64,
    until: u64,
    limit: u64,
    nums: (usize, usize, usize),
}

enum Outcome {
    Ok { consumed: usize, bytes: Vec<u8> },
    Err(String),
    Panic(String),
}

fn panic_text(e: Box<dyn std::any::Any + Send>) -> String {
    if let Some(s) = e.downcast_ref::<&str>() {
        s.to_string()
    } else if let Some(s) = e.downcast_ref::<String>() {
        s.clone()
    } else {
        "panic".into()
    }
}

struct Ctx {
    evaluations: u64,
}

fn run_from_json(ctx: &mut Ctx, input: &[u8], fill: u8) -> Outcome {
    ctx.evaluations += 1;
    let mut buf = vec![fill; 8192 + 2 * input.len()];
    let r = catch_unwind(AssertUnwindSafe(|| match Filter::from_json(input, &mut buf) {
        Ok((consumed, _outlen, f)) => Ok((consumed, f.as_bytes().to_vec())),
        Err(e) => Err(format!("{}", e.inner)),
    }));
    match r {
        Ok(Ok((consumed, bytes))) => Outcome::Ok { consumed, bytes },
        Ok(Err(e)) => Outcome::Err(e.chars().take(120).collect()),
        Err(p) => Outcome::Panic(panic_text(p).chars().take(120).collect()),
    }
}

/// read a filter through its public accessors
fn observe(ctx: &mut Ctx, fbytes: &[u8]) -> Result<Obs, String> {
    ctx.evaluations += 1;
    let r = catch_unwind(AssertUnwindSafe(|| -> Result<Obs, String> {
        let f: &Filter = unsafe { Filter::delineate(fbytes) }.map_err(|e| format!("delineate: {}", e.inner))?;
        if f.as_bytes().len() != fbytes.len() {
            return Err(format!("length field {} differs from the {} bytes returned", f.as_bytes().len(), fbytes.len()));
        }
        let tags_obj = f.tags().map_err(|e| format!("tags(): {}", e.inner))?;
        let mut tags = vec![];
        for t in tags_obj.iter() {
            let mut strs: Vec<Vec<u8>> = t.map(|b| b.to_vec()).collect();
            if strs.is_empty() {
                return Err("tag constraint without a name".into());
            }
            let name = strs.remove(0);
            tags.push((name, strs));
        }
        Ok(Obs {
            ids: f.ids().map(|i| i.as_slice().to_vec()).collect(),
            authors: f.authors().map(|p| p.as_slice().to_vec()).collect(),
            kinds: f.kinds().map(|k| k.as_u16() as u64).collect(),
            tags,
            since: f.since().as_u64(),
            until: f.until().as_u64(),
            limit: f.limit() as u64,
            nums: (f.num_ids(), f.num_authors(), f.num_kinds()),
        })
    }));
    match r {
        Ok(x) => x,
        Err(p) => Err(format!("panic in accessor: {}", panic_text(p))),
    }
}

struct Fail {
    kind: &'static str,
    field: String,
    detail: String,
}

fn fail(kind: &'static str, field: &str, detail: String) -> Fail {
    Fail { kind, field: field.to_string(), detail: detail.chars().take(300).collect() }
}

fn show_list(l: &[Vec<u8>]) -> String {
    format!("{:?}", l.iter().map(|x| vh::hex(x)).collect::<Vec<_>>())
}

fn show_tags<'a, I: Iterator<Item = &'a (Vec<u8>, Vec<Vec<u8>>)>>(t: I) -> String {
    format!("{:?}", t.map(|(n, vs)| (String::from_utf8_lossy(n).to_string(), vs.iter().map(|x| vh::hex(x)).collect::<Vec<_>>())).collect::<Vec<_>>())
}

/// compare the accessors of a filter with the expected value; `oor` = members whose written value
/// is outside the representable range (then `want` holds the saturation value)
fn compare(o: &Obs, want: &Exp, oor: &[String], prefix: &'static str, fails: &mut Vec<Fail>) {
    let k = |field: &str| -> &'static str {
        if prefix == "as_json_fields" {
            "as_json_fields"
        } else if oor.iter().any(|x| x == field) {
            "wrapped"
        } else {
            "mismatch"
        }
    };
    if o.ids != want.ids {
        fails.push(fail(k("ids"), "ids", format!("ids() = {} expected {}", show_list(&o.ids), show_list(&want.ids))));
    }
    if o.authors != want.authors {
        fails.push(fail(k("authors"), "authors", format!("authors() = {} expected {}", show_list(&o.authors), show_list(&want.authors))));
    }
    if o.kinds != want.kinds {
        fails.push(fail(k("kinds"), "kinds", format!("kinds() = {:?} expected {:?}", o.kinds, want.kinds)));
    }
    let oset: BTreeSet<(Vec<u8>, Vec<Vec<u8>>)> = o.tags.iter().cloned().collect();
    if oset != want.tags || oset.len() != o.tags.len() {
        fails.push(fail(k("tags"), "tags", format!("tags() = {} expected {}", show_tags(o.tags.iter()), show_tags(want.tags.iter()))));
    }
    if o.since != want.since {
        fails.push(fail(k("since"), "since", format!("since() = {} expected {}", o.since, want.since)));
    }
    if o.until != want.until {
        fails.push(fail(k("until"), "until", format!("until() = {} expected {}", o.until, want.until)));
    }
    if o.limit != want.limit {
        fails.push(fail(k("limit"), "limit", format!("limit() = {} expected {}", o.limit, want.limit)));
    }
    if prefix != "as_json_fields" && o.nums != (o.ids.len(), o.authors.len(), o.kinds.len()) {
        fails.push(fail("mismatch", "num", format!("num_ids/num_authors/num_kinds = {:?} but the iterators gave {}/{}/{}", o.nums, o.ids.len(), o.authors.len(), o.kinds.len())));
    }
}

fn obs_as_exp(o: &Obs) -> Exp {
    Exp {
        ids: o.ids.clone(),
        authors: o.authors.clone(),
        kinds: o.kinds.clone(),
        tags: o.tags.iter().cloned().collect(),
        since: o.since,
        until: o.until,
        limit: o.limit,
    }
}

/// Serialise the filter whose bytes are `fbytes`; the JSON must be valid, carry the same fields
/// (`want`), and parse back to exactly `fbytes`.
fn round_trip(ctx: &mut Ctx, fbytes: &[u8], want: &Exp, fails: &mut Vec<Fail>) {
    ctx.evaluations += 1;
    let r = catch_unwind(AssertUnwindSafe(|| -> Result<Result<Vec<u8>, String>, String> {
        let f: &Filter = unsafe { Filter::delineate(fbytes) }.map_err(|e| format!("delineate: {}", e.inner))?;
        Ok(f.as_json().map_err(|e| format!("{}", e.inner)))
    }));
    let j = match r {
        Err(p) => {
            fails.push(fail("as_json_panic", "", format!("as_json panicked: {}", panic_text(p))));
            return;
        }
        Ok(Err(e)) => {
            fails.push(fail("mismatch", "length", e));
            return;
        }
        Ok(Ok(Err(e))) => {
            fails.push(fail("as_json_err", "", format!("as_json returned Err({})", e)));
            return;
        }
        Ok(Ok(Ok(j))) => j,
    };
    let shown = String::from_utf8_lossy(&j).chars().take(160).collect::<String>();
    match serde_json::from_slice::<Value>(&j) {
        Err(e) => {
            fails.push(fail("as_json_invalid", "", format!("as_json output is not valid JSON ({}): {}", e, shown)));
        }
        Ok(v) => match extract(&v) {
            Err(e) => fails.push(fail("as_json_fields", "shape", format!("as_json output {}: {}", e, shown))),
            Ok((got, oor)) => {
                if !oor.is_empty() {
                    fails.push(fail("as_json_fields", &oor[0], format!("as_json wrote an out-of-range {}: {}", oor[0], shown)));
                }
                let o = Obs {
                    ids: got.ids.clone(), authors: got.authors.clone(), kinds: got.kinds.clone(),
                    tags: got.tags.iter().cloned().collect(), since: got.since, until: got.until, limit: got.limit,
                    nums: (0, 0, 0),
                };
                let before = fails.len();
                compare(&o, want, &[], "as_json_fields", fails);
                for f in fails[before..].iter_mut() {
                    f.detail = format!("as_json output {} : {}", shown, f.detail).chars().take(300).collect();
                }
            }
        },
    }
    match run_from_json(ctx, &j, 0xA5) {
        Outcome::Ok { consumed, bytes } => {
            if bytes != fbytes {
                fails.push(fail("roundtrip_bytes", "", format!("from_json(as_json(f)) differs from f; json {} ; f = {} ; back = {}", shown, vh::hex(fbytes), vh::hex(&bytes))));
            } else if consumed != j.len() {
                fails.push(fail("roundtrip_consumed", "", format!("from_json(as_json(f)) consumed {} of {} bytes", consumed, j.len())));
            }
        }
        Outcome::Err(e) => fails.push(fail("roundtrip_rejected", "", format!("from_json rejects as_json output {} : {}", shown, e))),
        Outcome::Panic(p) => fails.push(fail("roundtrip_panic", "", format!("from_json panics on as_json output {} : {}", shown, p))),
    }
}

struct Verdict {
    fails: Vec<Fail>,
    outcome: String,
    want: Exp,
    oor: Vec<String>,
}

/// Judge one JSON document.  `den` = the specification's denotation (checked against serde_json:
/// disagreement is a tool error).  `sorted` = the same document with its members in normal order.
fn judge_json(ctx: &mut Ctx, bytes: &[u8], expect: &str, den: Option<&Exp>, sorted: Option<&[u8]>) -> Verdict {
    let shown = || String::from_utf8_lossy(bytes).chars().take(200).collect::<String>();
    let v: Value = match serde_json::from_slice(bytes) {
        Ok(v) => v,
        Err(e) => tool_error(&format!("generated document is not valid JSON for serde_json ({}): {}", e, shown())),
    };
    if expect == "may" {
        // outside the property's domain: run it (totality is C03's business), judge nothing
        let out = run_from_json(ctx, bytes, 0);
        let outcome = match out {
            Outcome::Ok { .. } => "ok".to_string(),
            Outcome::Err(e) => format!("err:{}", e),
            Outcome::Panic(p) => format!("panic:{}", p),
        };
        return Verdict { fails: vec![], outcome, want: Exp::default(), oor: vec![] };
    }
    let (want, oor) = match extract(&v) {
        Ok(x) => x,
        Err(e) => tool_error(&format!("serde_json extraction failed on a must-document ({}): {}", e, shown())),
    };
    if let Some(d) = den {
        if *d != want {
            tool_error(&format!("the specification's denotation and serde_json disagree on {}\n spec: {:?}\n serde: {:?}", shown(), d, want));
        }
    }
    if (expect == "accept" || expect == "may_exact") != oor.is_empty() {
        tool_error(&format!("expectation {} but serde_json finds out-of-range members {:?} in {}", expect, oor, shown()));
    }
    let mut fails = vec![];
    let out = run_from_json(ctx, bytes, 0);
    let outcome;
    match &out {
        Outcome::Panic(p) => {
            outcome = format!("panic:{}", p);
            fails.push(fail("panic", if oor.is_empty() { "" } else { &oor[0] }, format!("from_json panicked: {}", p)));
        }
        Outcome::Err(e) => {
            outcome = format!("err:{}", e);
            if expect == "accept" {
                fails.push(fail("rejected", "", format!("from_json returned Err({})", e)));
            }
        }
        Outcome::Ok { consumed, bytes: fb } => {
            outcome = "ok".to_string();
            if *consumed != bytes.len() {
                fails.push(fail("consumed", "", format!("consumed {} bytes, the closing brace ends at {}", consumed, bytes.len())));
            }
            match observe(ctx, fb) {
                Err(e) => fails.push(fail("mismatch", "accessors", e)),
                Ok(o) => {
                    compare(&o, &want, &oor, "", &mut fails);
                    // serialisation round trip of the filter that was actually produced
                    round_trip(ctx, fb, &obs_as_exp(&o), &mut fails);
                }
            }
        }
    }
    if let Some(sb) = sorted {
        if sb != bytes {
            let out2 = run_from_json(ctx, sb, 0);
            let sshown = String::from_utf8_lossy(sb).chars().take(160).collect::<String>();
            match (&out, &out2) {
                (Outcome::Ok { bytes: b1, .. }, Outcome::Ok { bytes: b2, .. }) => {
                    if let (Ok(o1), Ok(o2)) = (observe(ctx, b1), observe(ctx, b2)) {
                        if obs_as_exp(&o1) != obs_as_exp(&o2) {
                            fails.push(fail("order_dependent", "value", format!("same members in normal order ({}) parse to a different filter", sshown)));
                        }
                    }
                }
                (Outcome::Ok { .. }, Outcome::Err(e)) => fails.push(fail("order_dependent", "accept", format!("accepted, but rejected with the same members in normal order ({}): {}", sshown, e))),
                (Outcome::Err(e), Outcome::Ok { .. }) => fails.push(fail("order_dependent", "accept", format!("rejected ({}), but accepted with the same members in normal order ({})", e, sshown))),
                _ => {}
            }
        }
    }
    Verdict { fails, outcome, want, oor }
}

/// binary filter laid out by hand (layout: header comment of pocket-types/src/filter.rs)
fn build_filter(e: &Exp, tag_order: &[(Vec<u8>, Vec<Vec<u8>>)]) -> Vec<u8> {
    let tags: Vec<Vec<Vec<u8>>> = tag_order
        .iter()
        .map(|(n, vs)| {
            let mut t = vec![n.clone()];
            t.extend(vs.iter().cloned());
            t
        })
        .collect();
    let tb = vh::build_tags(&tags);
    let len = 32 + 32 * e.ids.len() + 32 * e.authors.len() + 2 * e.kinds.len() + tb.len();
    let mut b = Vec::with_capacity(len);
    b.extend_from_slice(&(len as u32).to_ne_bytes());
    b.extend_from_slice(&(e.ids.len() as u16).to_ne_bytes());
    b.extend_from_slice(&(e.authors.len() as u16).to_ne_bytes());
    b.extend_from_slice(&(e.kinds.len() as u16).to_ne_bytes());
    b.extend_from_slice(&[0, 0]);
    b.extend_from_slice(&(e.limit as u32).to_ne_bytes());
    b.extend_from_slice(&e.since.to_ne_bytes());
    b.extend_from_slice(&e.until.to_ne_bytes());
    for i in e.ids.iter() {
        b.extend_from_slice(i);
    }
    for a in e.authors.iter() {
        b.extend_from_slice(a);
    }
    for k in e.kinds.iter() {
        b.extend_from_slice(&(*k as u16).to_ne_bytes());
    }
    b.extend_from_slice(&tb);
    b
}

fn judge_hand(ctx: &mut Ctx, fbytes: &[u8], want: &Exp) -> Verdict {
    let mut fails = vec![];
    round_trip(ctx, fbytes, want, &mut fails);
    Verdict { fails, outcome: "hand".into(), want: want.clone(), oor: vec![] }
}

// ---------------------------------------------------------------------------------------------
// main
// ---------------------------------------------------------------------------------------------

fn hash_bytes(b: &[u8]) -> u64 {
    let mut h = DefaultHasher::new();
    b.hash(&mut h);
    h.finish()
}

fn emit_fail(out: &mut BufWriter<std::fs::File>, id: u64, fam: &str, doc: &Value, expect: &str, hexdoc: &str, hexsorted: &str,
             v: &Verdict, f: &Fail) {
    let line = json!({"id": id, "fam": fam, "kind": f.kind, "field": f.field, "detail": f.detail, "doc": doc,
        "expect": expect, "hex": hexdoc, "hex_sorted": hexsorted, "want": exp_to_json(&v.want, &v.oor),
        "outcome": v.outcome, "hand": fam == "hand"});
    writeln!(out, "{}", line).unwrap();
}

fn run(args: &[String]) {
    let files = args_all(args, "--cases");
    let opath = arg(args, "--out").expect("--out");
    let stride: u64 = arg(args, "--stride").map(|s| s.parse().unwrap()).unwrap_or(1);
    let offset: u64 = arg(args, "--offset").map(|s| s.parse().unwrap()).unwrap_or(0);
    let from: u64 = arg(args, "--from").map(|s| s.parse().unwrap()).unwrap_or(0);
    // --show K: do not run the code under test; write case K (concretised) as a record of kind
    // "crash" (used to describe the case at which a whole batch died)
    let show: Option<u64> = arg(args, "--show").map(|s| s.parse().unwrap());
    // at most this many failure records are written per (family, failure kind, field); all are counted
    let max_per_class: u64 = arg(args, "--max-per-class").map(|s| s.parse().unwrap()).unwrap_or(250);
    let mut fail_counts: BTreeMap<String, u64> = BTreeMap::new();
    let mut failing_docs = 0u64;
    let nsamples: usize = arg(args, "--samples").map(|s| s.parse().unwrap()).unwrap_or(12);
    let always: Vec<String> = arg(args, "--always").map(|s| s.split(',').map(|x| x.to_string()).collect()).unwrap_or_default();
    // --mark FILE: the number of the case being worked on, so that a crash or hang of the whole
    // batch can be pinned on one case (the file is kept open; one small positioned write per case)
    let mark = arg(args, "--mark").map(|p| std::fs::File::create(p).expect("mark file"));
    let mut out = BufWriter::new(std::fs::File::create(&opath).expect("out file"));
    let mut ctx = Ctx { evaluations: 0 };
    let mut distinct: HashSet<u64> = HashSet::new();
    let mut nontrivial: HashSet<u64> = HashSet::new();
    let mut by_fam: BTreeMap<String, [u64; 4]> = BTreeMap::new(); // executed, ok, err, panic
    let mut by_expect: BTreeMap<String, u64> = BTreeMap::new();
    let mut samples: Vec<Value> = vec![];
    let mut sample_fams: HashSet<String> = HashSet::new();
    let (mut cases, mut executed, mut failures) = (0u64, 0u64, 0u64);

    for path in files.iter() {
        let f = std::io::BufReader::with_capacity(1 << 20, std::fs::File::open(path).unwrap_or_else(|_| tool_error(&format!("cannot open {}", path))));
        for line in f.split(b'\n') {
            let line = line.expect("read");
            const PRE: &[u8] = b"<<\"CASE\", \"";
            if !line.starts_with(PRE) {
                continue;
            }
            let id = cases;
            cases += 1;
            let end = line.len() - if line.ends_with(b"\">>") { 3 } else { tool_error("truncated CASE line") };
            // undo TLC's string escaping
            let mut raw = Vec::with_capacity(end);
            let mut i = PRE.len();
            while i < end {
                if line[i] == b'\\' && i + 1 < end {
                    raw.push(line[i + 1]);
                    i += 2;
                } else {
                    raw.push(line[i]);
                    i += 1;
                }
            }
            let c: Value = serde_json::from_slice(&raw).unwrap_or_else(|e| tool_error(&format!("bad CASE json: {}", e)));
            let d = &c["d"];
            let fam = d["fam"].as_str().unwrap_or("").to_string();
            if let Some(k) = show {
                if id != k {
                    continue;
                }
            } else if id < from || (id % stride != offset && !always.iter().any(|a| *a == fam)) {
                continue;
            }
            if let Some(m) = &mark {
                use std::os::unix::fs::FileExt;
                m.write_at(format!("{:020}", id).as_bytes(), 0).ok();
            }
            let expect = c["expect"].as_str().unwrap_or_else(|| tool_error("case without expect"));
            let mem = members(d);
            let g = d["ws"][0].as_i64().unwrap_or(-1);
            let wsc = d["ws"][1].as_str().unwrap_or("none");
            executed += 1;
            *by_expect.entry(expect.to_string()).or_insert(0) += 1;
            let (verdict, hexdoc, hexsorted, text);
            if fam == "hand" {
                if expect != "accept" && expect != "may_exact" {
                    continue;
                }
                let want = exp_from_den(&c["den"]);
                // tag constraints in document order, their values from the denotation
                let order: Vec<(Vec<u8>, Vec<Vec<u8>>)> = mem
                    .iter()
                    .filter(|m| m.k == "tag")
                    .map(|m| {
                        let name = vec![letter(m.l)];
                        let vals = want.tags.iter().find(|(n, _)| *n == name).map(|(_, v)| v.clone())
                            .unwrap_or_else(|| tool_error("hand case: tag missing from the denotation"));
                        (name, vals)
                    })
                    .collect();
                let fb = build_filter(&want, &order);
                if show.is_some() {
                    let v = Verdict { fails: vec![], outcome: "crash".into(), want: want.clone(), oor: vec![] };
                    emit_fail(&mut out, id, &fam, d, expect, &vh::hex(&fb), "", &v, &fail("crash", "", "the driver process died in this case".into()));
                    continue;
                }
                verdict = judge_hand(&mut ctx, &fb, &want);
                if distinct.insert(hash_bytes(&fb)) && !mem.is_empty() {
                    nontrivial.insert(hash_bytes(&fb));
                }
                hexdoc = vh::hex(&fb);
                hexsorted = String::new();
                text = format!("binary filter {}", hexdoc);
            } else {
                let bytes = concretise(&mem, g, wsc);
                let den = if expect == "may" { None } else { Some(exp_from_den(&c["den"])) };
                let sorted: Option<Vec<u8>> = if g >= 0 || expect == "may" {
                    None
                } else {
                    let mut sm = mem.clone();
                    sm.sort_by_key(rank); // stable
                    Some(concretise(&sm, g, wsc))
                };
                if show.is_some() {
                    let v = Verdict { fails: vec![], outcome: "crash".into(), want: den.clone().unwrap_or_default(), oor: vec![] };
                    emit_fail(&mut out, id, &fam, d, expect, &vh::hex(&bytes), &sorted.map(|s| vh::hex(&s)).unwrap_or_default(), &v,
                              &fail("crash", "", "the driver process died in this case".into()));
                    continue;
                }
                verdict = judge_json(&mut ctx, &bytes, expect, den.as_ref(), sorted.as_deref());
                let h = hash_bytes(&bytes);
                if distinct.insert(h) && !mem.is_empty() && expect != "may" {
                    nontrivial.insert(h);
                }
                hexdoc = vh::hex(&bytes);
                hexsorted = sorted.map(|s| vh::hex(&s)).unwrap_or_default();
                text = String::from_utf8_lossy(&bytes).to_string();
            }
            let st = by_fam.entry(fam.clone()).or_insert([0; 4]);
            st[0] += 1;
            if verdict.outcome.starts_with("err") {
                st[2] += 1
            } else if verdict.outcome.starts_with("panic") {
                st[3] += 1
            } else {
                st[1] += 1
            }
            if samples.len() < nsamples && !sample_fams.contains(&fam) {
                sample_fams.insert(fam.clone());
                samples.push(json!({"fam": fam, "document": text.chars().take(400).collect::<String>(), "expect": expect, "outcome": verdict.outcome}));
            }
            if !verdict.fails.is_empty() {
                failing_docs += 1;
            }
            for f in verdict.fails.iter() {
                failures += 1;
                let n = fail_counts.entry(format!("{}:{}:{}", fam, f.kind, f.field)).or_insert(0);
                *n += 1;
                if *n <= max_per_class {
                    emit_fail(&mut out, id, &fam, d, expect, &hexdoc, &hexsorted, &verdict, f);
                }
            }
        }
    }
    let fams: BTreeMap<String, Value> = by_fam.iter().map(|(k, v)| (k.clone(), json!({"executed": v[0], "ok": v[1], "err": v[2], "panic": v[3]}))).collect();
    writeln!(out, "{}", json!({"summary": {"cases": cases, "executed": executed, "failures": failures,
        "failing_documents": failing_docs, "failure_counts": fail_counts,
        "evaluations": ctx.evaluations, "distinct": distinct.len(), "distinct_nontrivial": nontrivial.len(),
        "by_family": fams, "by_expect": by_expect, "samples": samples}})).unwrap();
    out.flush().unwrap();
}

fn replay(args: &[String]) {
    let path = arg(args, "--file").expect("--file");
    let opath = arg(args, "--out").expect("--out");
    let mut out = BufWriter::new(std::fs::File::create(&opath).expect("out file"));
    let v: Value = serde_json::from_str(&std::fs::read_to_string(&path).unwrap_or_else(|_| tool_error("cannot read replay file")))
        .unwrap_or_else(|e| tool_error(&format!("replay json: {}", e)));
    let r = if v.get("replay").is_some() { &v["replay"] } else { &v };
    let bytes = vh::unhex(r["hex"].as_str().unwrap_or_else(|| tool_error("replay without hex")));
    let expect = r["expect"].as_str().unwrap_or("accept");
    let (want, _oor) = exp_from_json(&r["want"]);
    let mut ctx = Ctx { evaluations: 0 };
    let verdict;
    let text;
    if r["hand"].as_bool().unwrap_or(false) {
        verdict = judge_hand(&mut ctx, &bytes, &want);
        text = format!("binary filter {}", vh::hex(&bytes));
    } else {
        let sorted = r["hex_sorted"].as_str().filter(|s| !s.is_empty()).map(vh::unhex);
        let den = if expect == "may" { None } else { Some(want.clone()) };
        verdict = judge_json(&mut ctx, &bytes, expect, den.as_ref(), sorted.as_deref());
        text = String::from_utf8_lossy(&bytes).to_string();
    }
    let fam = r["fam"].as_str().unwrap_or("replay");
    for f in verdict.fails.iter() {
        emit_fail(&mut out, 0, fam, &r["doc"], expect, r["hex"].as_str().unwrap_or(""), r["hex_sorted"].as_str().unwrap_or(""), &verdict, f);
    }
    writeln!(out, "{}", json!({"summary": {"cases": 1, "executed": 1, "failures": verdict.fails.len(), "evaluations": ctx.evaluations,
        "distinct": 1, "distinct_nontrivial": 1, "by_family": {}, "by_expect": {},
        "samples": [{"fam": fam, "document": text, "expect": expect, "outcome": verdict.outcome}]}})).unwrap();
    out.flush().unwrap();
}

fn main() {
    let args: Vec<String> = std::env::args().collect();
    vh::silence_panics();
    match args.get(1).map(|s| s.as_str()) {
        Some("run") => run(&args),
        Some("replay") => replay(&args),
        _ => {
            eprintln!("usage: fjsondrv run --cases TLC_OUT --out FILE | fjsondrv replay --file F --out FILE");
            std::process::exit(2);
        }
    }
}
