//! concdrv: schedule exploration and stress for C14 (concurrent stores serialise; concurrent
//! readers see whole committed states).
//!
//! A case = a sequential prefix, 2..4 threads with one operation each, and either a schedule (list
//! of [thread, target yield point], produced by TLC from PocketStoreSteps.tla) executed by parking
//! every worker at every yield point, or free-running rounds started at a barrier.  For every case
//! the harness first computes the implementation's OWN sequential transition table (every order of
//! every subset of the operations, each on a fresh store), then records the concurrent history
//! (call / return events stamped from one global counter).  TraceLin.tla decides whether the
//! history is linearizable with respect to that table.
//!
//! usage: concdrv --universe U.json --cases C.ndjson --out T.ndjson [--filters F.json] [--tmp DIR]

use pocket_db::Store;
use serde_json::{json, Value};
use std::cell::Cell;
use std::io::{BufRead, BufWriter, Write};
use std::panic::{catch_unwind, AssertUnwindSafe};
use std::path::Path;
use std::sync::atomic::{AtomicBool, AtomicU64, Ordering};
use std::sync::{Arc, Condvar, Mutex};
use std::time::{Duration, Instant};
use vh::{AFilter, Driver, Universe};

fn arg(args: &[String], name: &str) -> Option<String> {
    args.iter().position(|a| a == name).and_then(|i| args.get(i + 1).cloned())
}

thread_local! {
    static TID: Cell<usize> = const { Cell::new(0) };
}

#[derive(Clone, Debug, PartialEq)]
enum WState {
    NotStarted,
    Parked(String),
    Running,
    Finished,
}

struct Ctl {
    st: Vec<WState>,   // index by thread (1-based; 0 unused)
    grant: Vec<bool>,
    free: bool,        // no more parking
}

struct Shared {
    m: Mutex<Ctl>,
    cv: Condvar,
}

static STAMP: AtomicU64 = AtomicU64::new(0);
static ACTIVE: AtomicBool = AtomicBool::new(false);

fn park(sh: &Shared, name: &str) {
    let tid = TID.with(|t| t.get());
    if tid == 0 || !ACTIVE.load(Ordering::SeqCst) {
        return;
    }
    let mut g = sh.m.lock().unwrap();
    if g.free {
        return;
    }
    g.st[tid] = WState::Parked(name.to_string());
    sh.cv.notify_all();
    while !g.grant[tid] && !g.free {
        g = sh.cv.wait(g).unwrap();
    }
    g.grant[tid] = false;
    g.st[tid] = WState::Running;
    sh.cv.notify_all();
}

/// one operation on the shared store; the result is rendered as a string
fn run_op(u: &Universe, store: &Store, op: &Value, filters: &[AFilter]) -> String {
    let k = op["k"].as_str().unwrap_or("");
    let a = op.get("a").and_then(|v| v.as_i64()).unwrap_or(0) as usize;
    let r = catch_unwind(AssertUnwindSafe(|| match k {
        "store" => match store.store_event(u.ev(a)) {
            Ok(_) => "ok".to_string(),
            Err(e) => vh::classify(&e),
        },
        "remove" => match store.remove_event(u.id(a)) {
            Ok(()) => "ok".to_string(),
            Err(e) => vh::classify(&e),
        },
        "get" => match store.get_event_by_id(u.id(a)) {
            Ok(Some(e)) => format!("found:{}", u.index_of(e)),
            Ok(None) => "absent".to_string(),
            Err(e) => vh::classify(&e),
        },
        "has" => match store.has_event(u.id(a)) {
            Ok(b) => format!("{}", b),
            Err(e) => vh::classify(&e),
        },
        "query" => {
            let f = &filters[op["f"].as_u64().unwrap_or(0) as usize];
            let v = vh::run_query(u, store, f);
            format!("{}:{}", v["r"].as_str().unwrap_or("?"), v["out"])
        }
        _ => "noop".to_string(),
    }));
    match r {
        Ok(s) => s,
        Err(_) => "panic".to_string(),
    }
}

fn seq_op(d: &mut Driver, op: &Value) {
    let k = op["k"].as_str().unwrap_or("");
    let a = op.get("a").and_then(|v| v.as_i64()).unwrap_or(0);
    match k {
        "store" => {
            let _ = d.store_ev(a as usize);
        }
        "remove" => {
            let _ = d.remove(a as usize);
        }
        "vanish" => {
            let _ = d.vanish(a as usize);
        }
        _ => {}
    }
}

/// what the final-state comparison looks at: the abstract state and the answer of every probe query (state kept outside
/// the indexes - a cache, a watermark - shows in the answers, not in the lookups by id)
fn abs_state(d: &Driver, filters: &[AFilter]) -> String {
    let st = d.project();
    let pr: Vec<String> = filters.iter().map(|f| { let v = vh::run_query(d.u(), d.st(), f); format!("{}{}", v["r"].as_str().unwrap_or("?"), v["out"]) }).collect();
    format!("{}|{}|{}|{}", st["retr"], st["delIds"], st["delAddr"], pr.join(";"))
}

/// The implementation's own sequential transition table: nodes are paths (sequences of thread
/// numbers, coded base 5), entries [from, thread, result, to]; fin = [[node, abstract state]].
fn seq_table(u: &Universe, tmp: &str, prefix: &[Value], ops: &[Value], filters: &[AFilter]) -> (Value, Value) {
    let n = ops.len();
    let mut tab = vec![];
    let mut fin = vec![];
    let mut frontier: Vec<Vec<usize>> = vec![vec![]];
    let code = |p: &Vec<usize>| -> i64 { p.iter().fold(0i64, |acc, t| acc * 5 + *t as i64) };
    while let Some(path) = frontier.pop() {
        // build the state for this path on a fresh store
        let td = tempfile::Builder::new().prefix("pvq").tempdir_in(tmp).expect("tempdir");
        let dir = td.path().join("s");
        std::fs::create_dir(&dir).unwrap();
        let mut d = Driver::open(u, &dir, false).expect("open");
        for op in prefix {
            seq_op(&mut d, op);
        }
        for t in path.iter() {
            let _ = run_op(u, d.st(), &ops[*t - 1], filters);
        }
        fin.push(json!([code(&path), abs_state(&d, filters)]));
        d.close();
        drop(td);
        for t in 1..=n {
            if path.contains(&t) {
                continue;
            }
            // result of op t in this state: needs its own fresh copy of the state
            let td = tempfile::Builder::new().prefix("pvq").tempdir_in(tmp).expect("tempdir");
            let dir = td.path().join("s");
            std::fs::create_dir(&dir).unwrap();
            let mut d = Driver::open(u, &dir, false).expect("open");
            for op in prefix {
                seq_op(&mut d, op);
            }
            for x in path.iter() {
                let _ = run_op(u, d.st(), &ops[*x - 1], filters);
            }
            let res = run_op(u, d.st(), &ops[t - 1], filters);
            d.close();
            drop(td);
            let mut np = path.clone();
            np.push(t);
            tab.push(json!([code(&path), t as i64, res, code(&np)]));
            frontier.push(np);
        }
    }
    (Value::Array(tab), Value::Array(fin))
}

fn main() {
    let args: Vec<String> = std::env::args().collect();
    let upath = arg(&args, "--universe").expect("--universe");
    let cpath = arg(&args, "--cases").expect("--cases");
    let opath = arg(&args, "--out").expect("--out");
    let tmp = arg(&args, "--tmp").unwrap_or_else(|| {
        if Path::new("/dev/shm").is_dir() { "/dev/shm".into() } else { "/tmp".into() }
    });
    let filters: Vec<AFilter> = match arg(&args, "--filters") {
        Some(p) => serde_json::from_str(&std::fs::read_to_string(p).expect("filters file")).expect("filters json"),
        None => vec![],
    };
    let block_ms: u64 = arg(&args, "--block-ms").and_then(|s| s.parse().ok()).unwrap_or(25);
    vh::silence_panics();
    let u = Universe::load(&upath);
    let cf = std::io::BufReader::new(std::fs::File::open(&cpath).expect("cases file"));
    let mut out = BufWriter::new(std::fs::File::create(&opath).expect("out file"));

    let shared = Arc::new(Shared { m: Mutex::new(Ctl { st: vec![], grant: vec![], free: true }), cv: Condvar::new() });
    {
        let sh = shared.clone();
        pocket_db::verif::set_handler(Some(Arc::new(move |name: &'static str| park(&sh, name))));
    }

    for (cn, line) in cf.lines().enumerate() {
        let line = line.expect("read");
        if line.trim().is_empty() {
            continue;
        }
        let cv: Value = serde_json::from_str(&line).expect("case json");
        let cid = cv["id"].as_i64().unwrap_or(cn as i64);
        let prefix: Vec<Value> = cv["prefix"].as_array().cloned().unwrap_or_default();
        let ops: Vec<Value> = cv["threads"].as_array().expect("threads").clone();
        let sched: Vec<Value> = cv["sched"].as_array().cloned().unwrap_or_default();
        let free_mode = cv["mode"].as_str().unwrap_or("sched") == "free";
        let rounds = cv["rounds"].as_u64().unwrap_or(1);
        let n = ops.len();

        let (tab, fin) = seq_table(&u, &tmp, &prefix, &ops, &filters);

        for round in 0..rounds {
            let td = tempfile::Builder::new().prefix("pvn").tempdir_in(&tmp).expect("tempdir");
            let dir = td.path().join("s");
            std::fs::create_dir(&dir).unwrap();
            let mut d = Driver::open(&u, &dir, false).expect("open");
            for op in &prefix {
                seq_op(&mut d, op);
            }
            {
                let mut g = shared.m.lock().unwrap();
                g.st = vec![WState::NotStarted; n + 1];
                g.grant = vec![false; n + 1];
                g.free = free_mode;
            }
            STAMP.store(0, Ordering::SeqCst);
            ACTIVE.store(true, Ordering::SeqCst);
            let events: Mutex<Vec<Value>> = Mutex::new(vec![]);
            let barrier = std::sync::Barrier::new(n);
            let mut steps_done = 0usize;
            let mut blocked_seen = 0usize;
            {
                let store: &Store = d.st();
                let u_ref = &u;
                let filters_ref = &filters;
                let events_ref = &events;
                let shared_ref = &shared;
                let ops_ref = &ops;
                let barrier_ref = &barrier;
                std::thread::scope(|s| {
                    for t in 1..=n {
                        s.spawn(move || {
                            TID.with(|x| x.set(t));
                            if free_mode {
                                barrier_ref.wait();
                            } else {
                                park(shared_ref, "start");
                            }
                            let cs = STAMP.fetch_add(1, Ordering::SeqCst);
                            events_ref.lock().unwrap().push(json!({"e": "call", "t": t as i64, "s": cs as i64, "res": ""}));
                            let res = run_op(u_ref, store, &ops_ref[t - 1], filters_ref);
                            let rs = STAMP.fetch_add(1, Ordering::SeqCst);
                            events_ref.lock().unwrap().push(json!({"e": "ret", "t": t as i64, "s": rs as i64, "res": res}));
                            let mut g = shared_ref.m.lock().unwrap();
                            g.st[t] = WState::Finished;
                            shared_ref.cv.notify_all();
                        });
                    }
                    if !free_mode {
                        // wait until every worker is parked at "start"
                        {
                            let mut g = shared.m.lock().unwrap();
                            let dl = Instant::now() + Duration::from_secs(5);
                            while g.st[1..].iter().any(|x| *x == WState::NotStarted) && Instant::now() < dl {
                                let (ng, _) = shared.cv.wait_timeout(g, Duration::from_millis(50)).unwrap();
                                g = ng;
                            }
                        }
                        for step in sched.iter() {
                            let t = step["t"].as_u64().unwrap_or(0) as usize;
                            let target = step["p"].as_str().unwrap_or("");
                            if t == 0 || t > n || target == "start" {
                                continue;
                            }
                            let mut grants = 0;
                            loop {
                                let mut g = shared.m.lock().unwrap();
                                match g.st[t].clone() {
                                    WState::Finished => break,
                                    WState::Parked(p) => {
                                        // "next" = exactly one park-to-park segment; a snapshot point of a query
                                        // (find.txn) stands for the model's read.txn
                                        let reached = p == target || (target == "read.txn" && p == "find.txn");
                                        if grants > 0 && (reached || target == "next") {
                                            break;
                                        }
                                        if grants >= 25 {
                                            break;
                                        }
                                        g.grant[t] = true;
                                        grants += 1;
                                        steps_done += 1;
                                        shared.cv.notify_all();
                                        // wait until it parks again or finishes (or blocks on a lock)
                                        let dl = Instant::now() + Duration::from_millis(block_ms);
                                        loop {
                                            let moved = match &g.st[t] {
                                                WState::Parked(_) => !g.grant[t],
                                                WState::Finished => true,
                                                _ => false,
                                            };
                                            if moved {
                                                break;
                                            }
                                            let now = Instant::now();
                                            if now >= dl {
                                                break;
                                            }
                                            let (ng, _) = shared.cv.wait_timeout(g, dl - now).unwrap();
                                            g = ng;
                                        }
                                        if matches!(g.st[t], WState::Running) || g.grant[t] {
                                            // blocked (e.g. on the LMDB writer mutex): leave it, try the next entry
                                            blocked_seen += 1;
                                            break;
                                        }
                                    }
                                    WState::Running | WState::NotStarted => {
                                        // still blocked from an earlier grant
                                        drop(g);
                                        break;
                                    }
                                }
                            }
                        }
                        // schedule exhausted: let everything run to completion
                        let mut g = shared.m.lock().unwrap();
                        g.free = true;
                        shared.cv.notify_all();
                    }
                });
            }
            ACTIVE.store(false, Ordering::SeqCst);
            let mut evs = events.into_inner().unwrap();
            evs.sort_by_key(|e| e["s"].as_i64().unwrap_or(0));
            let fin_state = abs_state(&d, &filters);
            d.close();
            drop(td);
            writeln!(out, "{}", json!({"e": "case", "t": 0, "s": -1, "res": "", "id": cid, "round": round as i64,
                "tab": tab, "fin": fin, "n": n as i64})).unwrap();
            for e in evs {
                writeln!(out, "{}", json!({"e": e["e"], "t": e["t"], "s": e["s"], "res": e["res"], "id": cid,
                    "round": round as i64, "tab": [], "fin": [], "n": n as i64})).unwrap();
            }
            writeln!(out, "{}", json!({"e": "final", "t": 0, "s": 1000000, "res": fin_state, "id": cid, "round": round as i64,
                "tab": [], "fin": [], "n": n as i64, "steps": steps_done as i64, "blocked": blocked_seen as i64})).unwrap();
        }
    }
    pocket_db::verif::set_handler(None);
    out.flush().unwrap();
}
