//! burstdrv: sustained single-writer / multi-reader stress for C14 ("every lookup or query running concurrently
//! with writers returns the exact answer for the state after some prefix of that order").
//!
//! One writer stores N fresh regular events e_0 .. e_{N-1} (created_at strictly increasing) one after the other, so the
//! order of the stores is known and the state after the k-th one is "exactly e_0 .. e_{k-1}".  R readers run lookups and
//! queries flat out while it does so.  Every observation is recorded with
//!     lo  = number of stores that had RETURNED before the call started,
//!     hi  = number of stores that had been STARTED when the call returned,
//!     klo..khi = the prefixes k for which the answer is exactly right (decoded from the answer; -1 -1 = for none),
//! and TraceBurst.tla decides whether every reader's observations are explained by a non-decreasing sequence of
//! prefixes within the real-time bounds.  The map grows every few events in the dev profile (2048-byte chunks), so
//! readers keep running into remaps.  A watchdog reports a hang (no thread makes progress for several seconds).
//!
//! --gate 1 (default): stores that are going to grow the event map (end marker + event size > file length) run while no
//! reader is inside a call or still reading the events it was handed: growing the map may move the mapping, which
//! invalidates every reference handed out before (known finding F-C15-1), and the mapping crate can deadlock when a
//! remap queues behind a reader (F-C14-2).  With the gate those two known problems are kept out of the run so that
//! everything else about concurrent readers is checked; --gate 0 is the probe that demonstrates them.
//!
//! usage: burstdrv --n N --readers R --out T.ndjson [--tmp DIR] [--maxrec M] [--gate 0|1]

use pocket_db::Store;
use pocket_types::{Event, Filter, Id};
use serde_json::json;
use std::io::{BufWriter, Write};
use std::panic::{catch_unwind, AssertUnwindSafe};
use std::path::Path;
use std::sync::atomic::{AtomicBool, AtomicU64, Ordering};
use std::os::unix::fs::FileExt;
use std::sync::{Arc, Mutex, RwLock};
use std::time::{Duration, Instant};

fn arg(args: &[String], name: &str) -> Option<String> {
    args.iter().position(|a| a == name).and_then(|i| args.get(i + 1).cloned())
}

const AUTHOR: [u8; 32] = [0xA1; 32];

fn ev_id(i: usize) -> [u8; 32] {
    let mut id = [0xB5u8; 32];
    id[0..4].copy_from_slice(&(i as u32).to_le_bytes());
    id[31] = (i % 251) as u8;
    id
}

fn index_of(e: &Event) -> i64 {
    let id = e.id();
    let b = id.as_slice();
    let i = u32::from_le_bytes(b[0..4].try_into().unwrap()) as usize;
    if b == ev_id(i) { i as i64 } else { -1 }
}

fn mk_event(i: usize) -> pocket_types::OwnedEvent {
    let tags: Vec<Vec<Vec<u8>>> = if i % 2 == 0 { vec![vec![b"t".to_vec(), b"x".to_vec()]] } else { vec![] };
    let tb = vh::build_tags(&tags);
    let clen = 40 + (i * 37) % 300;
    let content: Vec<u8> = (0..clen).map(|j| b'a' + ((i + j) % 26) as u8).collect();
    vh::build_event(&ev_id(i), 1, &AUTHOR, &[0x5C; 64], &tb, 1000 + i as u64, &content)
}

fn mk_filter(ids: &[[u8; 32]], authors: &[[u8; 32]], kinds: &[u16], tags: &[Vec<Vec<u8>>], since: u64, until: u64, limit: u32) -> Vec<u8> {
    let tb = vh::build_tags(tags);
    let len = 32 + 32 * ids.len() + 32 * authors.len() + 2 * kinds.len() + tb.len();
    let mut b = Vec::with_capacity(len);
    b.extend_from_slice(&(len as u32).to_ne_bytes());
    b.extend_from_slice(&(ids.len() as u16).to_ne_bytes());
    b.extend_from_slice(&(authors.len() as u16).to_ne_bytes());
    b.extend_from_slice(&(kinds.len() as u16).to_ne_bytes());
    b.extend_from_slice(&[0, 0]);
    b.extend_from_slice(&limit.to_ne_bytes());
    b.extend_from_slice(&since.to_ne_bytes());
    b.extend_from_slice(&until.to_ne_bytes());
    for i in ids {
        b.extend_from_slice(i);
    }
    for a in authors {
        b.extend_from_slice(a);
    }
    for k in kinds {
        b.extend_from_slice(&k.to_ne_bytes());
    }
    b.extend_from_slice(&tb);
    b
}

/// answer of a query: Ok(indices newest first) or Err(text)
fn query(store: &Store, fb: &[u8], events: &[pocket_types::OwnedEvent]) -> Result<Vec<i64>, String> {
    let r = catch_unwind(AssertUnwindSafe(|| {
        let f: &Filter = unsafe { Filter::delineate(fb).expect("harness filter") };
        match store.find_events(f, true, 0, 0, |_| pocket_db::ScreenResult::Match) {
            Ok((evs, _)) => {
                let mut out = vec![];
                for e in evs.iter() {
                    let i = index_of(e);
                    // the bytes handed out must be the bytes that were stored
                    if i < 0 || e.as_bytes() != events[i as usize].as_bytes() {
                        return Err(format!("an event with unexpected bytes was returned (index {})", i));
                    }
                    out.push(i);
                }
                Ok(out)
            }
            Err(e) => Err(format!("err:{:?}", e.inner)),
        }
    }));
    match r {
        Ok(x) => x,
        Err(_) => Err("panic".into()),
    }
}

/// the prefixes k for which `ans` is the exact answer, when the exact answer for prefix k is
/// [the newest `limit` of the events {j in from..k : sel(j)}], newest first.  (-1, -1) = none.
fn decode(ans: &[i64], from: usize, limit: usize, n: usize, sel: &dyn Fn(usize) -> bool) -> (i64, i64) {
    // smallest / largest k with the same answer: the answer is determined by the selected events below k
    let expect = |k: usize| -> Vec<i64> { (from..k).rev().filter(|j| sel(*j)).take(limit).map(|j| j as i64).collect() };
    if ans.is_empty() {
        // no selected event below k
        let first = (from..n).find(|j| sel(*j)).unwrap_or(n);
        return (0, first as i64);
    }
    let newest = ans[0];
    if newest < 0 || newest as usize >= n {
        return (-1, -1);
    }
    let klo = newest as usize + 1;
    if expect(klo) != ans {
        return (-1, -1);
    }
    // the answer stays the same until the next selected event appears
    let next = (klo..n).find(|j| sel(*j)).unwrap_or(n);
    (klo as i64, next as i64)
}

fn main() {
    let args: Vec<String> = std::env::args().collect();
    let n: usize = arg(&args, "--n").and_then(|s| s.parse().ok()).unwrap_or(600);
    let readers: usize = arg(&args, "--readers").and_then(|s| s.parse().ok()).unwrap_or(6);
    let gated: bool = arg(&args, "--gate").map(|s| s != "0").unwrap_or(true);
    // --lookups 1: readers only look events up by id and never read the bytes behind the reference they get
    let lookups_only: bool = arg(&args, "--lookups").map(|s| s != "0").unwrap_or(false);
    let maxrec: usize = arg(&args, "--maxrec").and_then(|s| s.parse().ok()).unwrap_or(3000);
    let opath = arg(&args, "--out").expect("--out");
    let tmp = arg(&args, "--tmp").unwrap_or_else(|| if Path::new("/dev/shm").is_dir() { "/dev/shm".into() } else { "/tmp".into() });
    vh::silence_panics();
    let events: Arc<Vec<pocket_types::OwnedEvent>> = Arc::new((0..n).map(mk_event).collect());
    let td = tempfile::Builder::new().prefix("pvb").tempdir_in(&tmp).expect("tempdir");
    let dir = td.path().join("s");
    std::fs::create_dir(&dir).unwrap();
    let store = Arc::new(Store::new(&dir, vec![]).expect("open"));
    let started = Arc::new(AtomicU64::new(0));
    let done = Arc::new(AtomicU64::new(0));
    let finished = Arc::new(AtomicBool::new(false));
    let progress: Arc<Vec<AtomicU64>> = Arc::new((0..=readers).map(|_| AtomicU64::new(0)).collect());
    let recs: Arc<Mutex<Vec<serde_json::Value>>> = Arc::new(Mutex::new(vec![]));
    let gate: Arc<RwLock<()>> = Arc::new(RwLock::new(()));
    let ungated_growth = Arc::new(AtomicU64::new(0));
    let gated_stores = Arc::new(AtomicU64::new(0));
    let map_path = dir.join("event.map");

    let mut handles = vec![];
    {
        let (store, events, started, done, finished, progress, recs) =
            (store.clone(), events.clone(), started.clone(), done.clone(), finished.clone(), progress.clone(), recs.clone());
        let (gate, ungated_growth, gated_stores, map_path) = (gate.clone(), ungated_growth.clone(), gated_stores.clone(), map_path.clone());
        handles.push(std::thread::spawn(move || {
            let mapf = std::fs::File::open(&map_path).expect("event.map");
            for i in 0..events.len() {
                // will this store grow the map?  (end marker = first 8 bytes of the file, events are 8-byte aligned)
                let flen = mapf.metadata().map(|m| m.len()).unwrap_or(0);
                let mut hdr = [0u8; 8];
                let _ = mapf.read_exact_at(&mut hdr, 0);
                let end = u64::from_le_bytes(hdr);
                let grows = ((end + 7) & !7) + events[i].as_bytes().len() as u64 > flen;
                let _excl = if gated && grows { gated_stores.fetch_add(1, Ordering::Relaxed); Some(gate.write().unwrap()) } else { None };
                started.store(i as u64 + 1, Ordering::SeqCst);
                let r = catch_unwind(AssertUnwindSafe(|| store.store_event(&events[i])));
                if _excl.is_none() && mapf.metadata().map(|m| m.len()).unwrap_or(0) != flen {
                    ungated_growth.fetch_add(1, Ordering::Relaxed);
                }
                let res = match r {
                    Ok(Ok(_)) => "ok".to_string(),
                    Ok(Err(e)) => format!("err:{:?}", e.inner),
                    Err(_) => "panic".to_string(),
                };
                if res != "ok" {
                    recs.lock().unwrap().push(json!({"t": 0, "q": "store", "j": i, "lo": i, "hi": i + 1, "klo": -1, "khi": -1, "note": res}));
                    break;
                }
                done.store(i as u64 + 1, Ordering::SeqCst);
                progress[0].fetch_add(1, Ordering::Relaxed);
            }
            finished.store(true, Ordering::SeqCst);
        }));
    }
    for t in 1..=readers {
        let (store, events, started, done, finished, progress, recs) =
            (store.clone(), events.clone(), started.clone(), done.clone(), finished.clone(), progress.clone(), recs.clone());
        let gate = gate.clone();
        handles.push(std::thread::spawn(move || {
            let n = events.len();
            let mut it: usize = t;
            let mut mine: Vec<serde_json::Value> = vec![];
            let mut last_round = false;
            loop {
                let _shared = if gated { Some(gate.read().unwrap()) } else { None };
                let fin = finished.load(Ordering::SeqCst);
                let lo = done.load(Ordering::SeqCst) as usize;
                let qk = if lookups_only { 2 + it % 2 } else { it % 6 };
                it += 1;
                let j = lo.saturating_sub(it % 3); // an event at / just below the frontier
                let (klo, khi, note): (i64, i64, String) = match qk {
                    0 => {
                        let fb = mk_filter(&[], &[AUTHOR], &[], &[], 0, u64::MAX, 3);
                        match query(&store, &fb, &events) {
                            Ok(a) => { let (x, y) = decode(&a, 0, 3, n, &|_| true); (x, y, format!("{:?}", a)) }
                            Err(e) => (-1, -1, e),
                        }
                    }
                    1 => {
                        let fb = mk_filter(&[], &[], &[1], &[], 1000 + j as u64, u64::MAX, u32::MAX);
                        match query(&store, &fb, &events) {
                            Ok(a) => { let (x, y) = decode(&a, j, usize::MAX, n, &|_| true); (x, y, format!("{} events from {}", a.len(), j)) }
                            Err(e) => (-1, -1, e),
                        }
                    }
                    2 | 3 => {
                        let jj = (j + (qk - 2)).min(n - 1);
                        let r = catch_unwind(AssertUnwindSafe(|| store.get_event_by_id(Id::from_bytes(ev_id(jj)))));
                        match r {
                            Ok(Ok(Some(e))) => {
                                if lookups_only || e.as_bytes() == events[jj].as_bytes() { (jj as i64 + 1, n as i64, "found".into()) } else { (-1, -1, "found with other bytes".into()) }
                            }
                            Ok(Ok(None)) => (0, jj as i64, "absent".into()),
                            Ok(Err(e)) => (-1, -1, format!("err:{:?}", e.inner)),
                            Err(_) => (-1, -1, "panic".into()),
                        }
                    }
                    4 => {
                        let fb = mk_filter(&[], &[], &[], &[vec![b"t".to_vec(), b"x".to_vec()]], 0, u64::MAX, 2);
                        match query(&store, &fb, &events) {
                            Ok(a) => { let (x, y) = decode(&a, 0, 2, n, &|i| i % 2 == 0); (x, y, format!("{:?}", a)) }
                            Err(e) => (-1, -1, e),
                        }
                    }
                    _ => {
                        let a = j.min(n - 1);
                        let b = (j + 1).min(n - 1);
                        let fb = mk_filter(&[ev_id(a), ev_id(b)], &[], &[], &[], 0, u64::MAX, u32::MAX);
                        match query(&store, &fb, &events) {
                            Ok(ans) => {
                                let mut s = ans.clone();
                                s.sort();
                                let (x, y) = if s.is_empty() { (0, a as i64) }
                                    else if a != b && s == vec![a as i64] { (a as i64 + 1, b as i64) }
                                    else if (a != b && s == vec![a as i64, b as i64]) || (a == b && s == vec![a as i64]) { (b as i64 + 1, n as i64) }
                                    else { (-1, -1) };
                                (x, y, format!("{:?}", ans))
                            }
                            Err(e) => (-1, -1, e),
                        }
                    }
                };
                let hi = started.load(Ordering::SeqCst) as usize;
                progress[t].fetch_add(1, Ordering::Relaxed);
                let bad = klo < 0;
                if bad || mine.len() < 150_000 || it % 16 == 0 {
                    mine.push(json!({"t": t, "q": qk, "j": j, "lo": lo, "hi": hi, "klo": klo, "khi": khi, "note": if bad { note } else { String::new() }}));
                }
                if last_round {
                    break;
                }
                if fin {
                    last_round = true; // one more observation after the writer has finished
                }
            }
            recs.lock().unwrap().extend(mine);
        }));
    }

    // watchdog
    let mut last: Vec<u64> = progress.iter().map(|p| p.load(Ordering::Relaxed)).collect();
    let mut since = Instant::now();
    let mut hang = false;
    loop {
        std::thread::sleep(Duration::from_millis(100));
        if handles.iter().all(|h| h.is_finished()) {
            break;
        }
        let now: Vec<u64> = progress.iter().map(|p| p.load(Ordering::Relaxed)).collect();
        if now != last {
            last = now;
            since = Instant::now();
        } else if since.elapsed() > Duration::from_secs(8) {
            hang = true;
            break;
        }
    }
    let mut out = BufWriter::new(std::fs::File::create(&opath).expect("out file"));
    if hang {
        writeln!(out, "{}", json!({"t": 0, "q": "hang", "j": 0, "lo": done.load(Ordering::SeqCst), "hi": started.load(Ordering::SeqCst), "klo": -1, "khi": -1,
            "ungated_growth": ungated_growth.load(Ordering::Relaxed),
            "note": format!("no thread made progress for 8 s: writer at store {} of {}, reader calls {:?}", last[0], n, &last[1..])})).unwrap();
        out.flush().unwrap();
        // the threads are stuck inside the library: leave without joining them
        std::process::exit(3);
    }
    for h in handles {
        let _ = h.join();
    }
    let all = recs.lock().unwrap();
    // keep every bad observation and an evenly spread sample of the others (TLC reads the file)
    let total = all.len();
    let step = (total / maxrec.max(1)).max(1);
    let mut kept = 0usize;
    for (i, r) in all.iter().enumerate() {
        if r["klo"].as_i64().unwrap_or(-1) < 0 || i % step == 0 {
            writeln!(out, "{}", r).unwrap();
            kept += 1;
        }
    }
    out.flush().unwrap();
    println!("{}", json!({"stores": done.load(Ordering::SeqCst), "observations": total, "recorded": kept, "step": step, "gated": gated,
                          "gated_stores": gated_stores.load(Ordering::Relaxed), "ungated_growth": ungated_growth.load(Ordering::Relaxed)}));
}
