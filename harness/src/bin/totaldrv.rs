//! totaldrv: totality / memory-safety sweep of every parsing entry point (C03).
//!
//! Input: ndjson of abstract cases {entry, op, cls, buf, must} enumerated by TLC from
//! spec/NostrTotal.tla.  Every abstract case is swept over ALL its concrete members: every base text
//! of the entry, every position, every byte of the class, every buffer length of the class.
//! Output: one ndjson line per abstract case with the counts of each observation
//! (err / ok_wellformed / panic / oob_write / consumed_gt_len / ok_malformed) and the first few
//! concrete inputs behind every forbidden observation.
//!
//! usage: totaldrv --cases C.ndjson --out R.ndjson [--stride N] [--seed S]

use pocket_types::{Addr, Event, Filter, Hll8, Id, Pubkey, Sig, Tags};
use serde_json::{json, Value};
use std::collections::BTreeMap;
use std::io::{BufRead, BufWriter, Write};
use std::panic::{catch_unwind, AssertUnwindSafe};

fn arg(args: &[String], name: &str) -> Option<String> {
    args.iter().position(|a| a == name).and_then(|i| args.get(i + 1).cloned())
}

const ID1: &str = "a9663055164ab8b30d9524656370c4bf93393bb051b7edf4556f40c5298dc0c7";
const PK1: &str = "ee11a5dff40c19a555f41fe42b48f00e618c91225622ae37b6c2bb67b76c4e49";
const SIG1: &str = "4dfea1a6f73141d5691e43afc3234dbe73016db0fb207cf247e0127cc2591ee6b4be5b462272030a9bde75882aae810f359682b1b6ce6cbb97201141c576db42";

fn event_bases() -> Vec<Vec<u8>> {
    vec![
        format!(r#"{{"id":"{ID1}","pubkey":"{PK1}","created_at":1,"kind":1,"tags":[],"content":"","sig":"{SIG1}"}}"#).into_bytes(),
        format!(r#"{{"id":"{ID1}","pubkey":"{PK1}","created_at":1681778790,"kind":30023,"tags":[["client","gossip"],["p","{PK1}"],["e","{ID1}","wss://x.y/","root"],[]],"content":"He said \"hi\"\n\u00e9\\ \/ é€😀","sig":"{SIG1}"}}"#).into_bytes(),
        format!(r#"{{"content":"deferred \t content","kind":65535,"sig":"{SIG1}","pubkey":"{PK1}","tags":[["d",""],["t","a\u0041"]],"created_at":18446744073709551615,"id":"{ID1}"}}"#).into_bytes(),
        format!("  {{ \"kind\" : 0 ,\n\t\"tags\" : [ [ \"a\" , \"b\" ] , [ ] ] , \"id\" : \"{ID1}\" ,\r\n \"pubkey\":\"{PK1}\", \"sig\":\"{SIG1}\" , \"created_at\" : 0 , \"content\" : \"x\" }}  ").into_bytes(),
    ]
}

fn filter_bases() -> Vec<Vec<u8>> {
    vec![
        b"{}".to_vec(),
        format!(r#"{{"ids":["{ID1}"],"authors":["{PK1}","{ID1}"],"kinds":[1,5,30023],"since":1702161345,"until":1702161399,"limit":10}}"#).into_bytes(),
        format!(r##"{{"#e":["{ID1}","{PK1}"],"#p":["{PK1}"],"kinds":[7],"#t":["a","b\n\"c\"","é"]}}"##).into_bytes(),
        format!("{{ \"limit\" : 0 , \"#d\" : [ \"\" ] ,\n \"authors\" : [ \"{PK1}\" ] , \"since\" : 0 }}").into_bytes(),
        // a tag member last, so that truncations / corruptions of its values reach the end of the text
        br##"{"#e":["abc"]}"##.to_vec(),
        br##"{"kinds":[1],"#t":["a","b]","[c","d\\"]}"##.to_vec(),
    ]
}

fn tags_bases() -> Vec<Vec<u8>> {
    vec![
        b"[]".to_vec(),
        b"[[]]".to_vec(),
        br#"[["a","b"],["c"],[],["d","\u00e9\n","\"q\""]]"#.to_vec(),
        b"[ [ \"x\" , \"y\" ] , [ \"z\" ] ]".to_vec(),
        // escapes at the UTF-8 length boundaries
        br#"[["\u0080"],["a","\u0800","\u07ff\u0080"]]"#.to_vec(),
        // structural characters and trailing backslashes inside strings
        br#"[["a]","[b","c\\"],["\\","],[\"","{"]]"#.to_vec(),
    ]
}

fn unescape_bases() -> Vec<Vec<u8>> {
    vec![
        b"abc\"".to_vec(),
        br#"a\n\t\"\\\/\b\f\r\u00e9\u20AC x" tail"#.to_vec(),
        "é€😀\u{7f}\"".as_bytes().to_vec(),
        b"\"".to_vec(),
        // escapes of the code points on both sides of every UTF-8 length boundary (1|2, 2|3 bytes, surrogate gap, BMP end)
        br#"\u007f\u0080\u07ff\u0800\ud7ff\ue000\uffff""#.to_vec(),
        br#"x\u0080""#.to_vec(),
        br#"\u0800y""#.to_vec(),
    ]
}

fn hex_bases(n: usize) -> Vec<Vec<u8>> {
    let a: Vec<u8> = (0..n).map(|i| b"0123456789abcdef"[i % 16]).collect();
    let b: Vec<u8> = (0..n).map(|i| b"FEDCBA9876543210"[i % 16]).collect();
    vec![a, b]
}

fn addr_bases() -> Vec<Vec<u8>> {
    vec![
        format!("30023:{PK1}:my-article").into_bytes(),
        format!("0:{PK1}:").into_bytes(),
        format!("65535:{PK1}:a:b:c").into_bytes(),
        // long identifiers with multi-byte characters at various byte positions, control characters, a quote
        format!("30023:{PK1}:{}étail-€-{}😀", "a".repeat(47), "b".repeat(70)).into_bytes(),
        format!("30023:{PK1}:{}ééé\n\t\"q\"", "c".repeat(31)).into_bytes(),
        format!("30023:{PK1}:{}", "\u{20ac}".repeat(40)).into_bytes(),
    ]
}

fn class_bytes(cls: &str) -> Vec<u8> {
    match cls {
        "lbrace" => vec![b'{'],
        "rbrace" => vec![b'}'],
        "lbracket" => vec![b'['],
        "rbracket" => vec![b']'],
        "quote" => vec![b'"'],
        "backslash" => vec![b'\\'],
        "colon" => vec![b':'],
        "comma" => vec![b','],
        "digit" => vec![b'0', b'7', b'9'],
        "letter" => vec![b'a', b'e', b'z', b'n', b't'],
        "hexupper" => vec![b'A', b'F', b'G'],
        "space" => vec![b' ', b'\n', b'\t', b'\r'],
        "nul" => vec![0],
        "ctrl" => vec![1, 0x1f, 0x0b],
        "del" => vec![0x7f],
        "x80" => vec![0x80, 0x9f],
        "xBF" => vec![0xbf],
        "xC0" => vec![0xc0, 0xc3, 0xdf],
        "xE0" => vec![0xe0, 0xed, 0xef],
        "xF0" => vec![0xf0, 0xf4, 0xf7],
        "xFF" => vec![0xf8, 0xff],
        "hash" => vec![b'#'],
        "u" => vec![b'u', b'U'],
        _ => vec![],
    }
}

fn buf_lens(cls: &str, needed: usize) -> Vec<usize> {
    match cls {
        "zero" => vec![0],
        "tiny" => vec![1, 2, 3, 4],
        "hdr31_32" => vec![31, 32, 33],
        "hdr143_144" => vec![143, 144, 145, 147, 148],
        "min151_168" => (151..=168).collect(),
        "needed_minus" => (needed.saturating_sub(16)..needed).collect(),
        "needed" => vec![needed],
        "needed_plus" => (needed + 1..=needed + 16).collect(),
        _ => vec![needed + 4096],
    }
}

fn junk(kind: &str, entry: &str) -> Vec<Vec<u8>> {
    let ev_with = |member: &str| -> Vec<u8> {
        format!(r#"{{"id":"{ID1}","pubkey":"{PK1}","created_at":1,"kind":1,{member},"content":"","sig":"{SIG1}"}}"#).into_bytes()
    };
    let rep = |s: &str, n: usize| -> String { s.repeat(n) };
    match (kind, entry) {
        ("nest_arrays", "event") => vec![ev_with(&format!("\"tags\":[],\"x\":{}{}", rep("[", 5000), rep("]", 5000))), ev_with(&format!("\"tags\":{}", rep("[", 5000)))],
        ("nest_arrays", "filter") => vec![format!("{{\"x\":{}{}}}", rep("[", 5000), rep("]", 5000)).into_bytes(), format!("{{\"#e\":{}", rep("[", 5000)).into_bytes()],
        ("nest_arrays", "tags") => vec![rep("[", 5000).into_bytes(), format!("{}{}", rep("[", 3000), rep("]", 3000)).into_bytes()],
        ("nest_deep", "event") => vec![ev_with(&format!("\"tags\":[],\"x\":{}", rep("[", 400000))), ev_with(&format!("\"tags\":[],\"x\":{}", rep("{\"a\":", 200000)))],
        ("nest_deep", "filter") => vec![format!("{{\"x\":{}", rep("[", 400000)).into_bytes(), format!("{{\"x\":{}", rep("{\"a\":", 200000)).into_bytes()],
        ("nest_objects", "event") => vec![ev_with(&format!("\"tags\":[],\"x\":{}{}", rep("{\"a\":", 3000), rep("}", 3000)))],
        ("nest_objects", "filter") => vec![format!("{{\"x\":{}1{}}}", rep("{\"a\":", 3000), rep("}", 3000)).into_bytes()],
        ("digits_20", "event") => vec![
            format!(r#"{{"id":"{ID1}","pubkey":"{PK1}","created_at":99999999999999999999,"kind":1,"tags":[],"content":"","sig":"{SIG1}"}}"#).into_bytes(),
            format!(r#"{{"id":"{ID1}","pubkey":"{PK1}","created_at":1,"kind":99999999999,"tags":[],"content":"","sig":"{SIG1}"}}"#).into_bytes(),
        ],
        ("digits_20", "filter") => vec![br#"{"since":99999999999999999999}"#.to_vec(), br#"{"limit":99999999999999999999}"#.to_vec(), br#"{"kinds":[99999999999999999999]}"#.to_vec(), br#"{"until":18446744073709551616}"#.to_vec()],
        ("digits_10000", "event") => vec![format!(r#"{{"id":"{ID1}","pubkey":"{PK1}","created_at":{},"kind":1,"tags":[],"content":"","sig":"{SIG1}"}}"#, rep("9", 10000)).into_bytes()],
        ("digits_10000", "filter") => vec![format!("{{\"since\":{}}}", rep("1", 10000)).into_bytes()],
        ("digits_20", "addr") | ("digits_10000", "addr") => vec![format!("{}:{PK1}:d", rep("9", 25)).into_bytes()],
        ("many_tag_members", "filter") => {
            let mut s = String::from("{");
            for i in 0..40 {
                if i > 0 {
                    s.push(',');
                }
                s.push_str(&format!("\"#{}\":[\"v\"]", (b'a' + (i % 26) as u8) as char));
            }
            s.push('}');
            let mut t = String::from("{");
            for i in 0..33 {
                if i > 0 {
                    t.push(',');
                }
                t.push_str(&format!("\"#{}\":[\"v\"]", if i < 26 { (b'a' + i as u8) as char } else { (b'A' + (i - 26) as u8) as char }));
            }
            t.push('}');
            vec![s.into_bytes(), t.into_bytes()]
        }
        ("many_tags", "event") => vec![ev_with(&format!("\"tags\":[{}[]]", rep("[\"a\"],", 3000)))],
        ("many_tags", "tags") => vec![format!("[{}[]]", rep("[],", 40000)).into_bytes()],
        ("unterminated_string", "event") => vec![format!(r#"{{"id":"{ID1}","pubkey":"{PK1}","created_at":1,"kind":1,"tags":[],"sig":"{SIG1}","content":"abc"#).into_bytes(),
                                                  format!(r#"{{"content":"abc","id":"{ID1}","pubkey":"{PK1}","created_at":1,"kind":1,"sig":"{SIG1}","tags":[["a"#).into_bytes()],
        ("unterminated_string", "filter") => vec![br##"{"#t":["a"##.to_vec(), br#"{"ids":[""#.to_vec(), br#"{"x":"abc"#.to_vec()],
        ("unterminated_string", "tags") => vec![br#"[["a"#.to_vec(), br#"[["a","#.to_vec(), br#"[["a"]"#.to_vec(), br#"[["a"],"#.to_vec()],
        ("unterminated_string", "unescape") => vec![b"abc".to_vec(), b"".to_vec()],
        ("unterminated_escape", "unescape") => vec![b"abc\\".to_vec(), b"\\".to_vec()],
        ("unterminated_escape", "tags") => vec![b"[[\"a\\".to_vec(), b"[[\"a\\\"".to_vec()],
        ("unterminated_escape", "event") => vec![format!(r#"{{"id":"{ID1}","pubkey":"{PK1}","created_at":1,"kind":1,"tags":[],"sig":"{SIG1}","content":"abc\"#).into_bytes()],
        ("unterminated_escape", "filter") => vec![b"{\"#t\":[\"a\\".to_vec(), b"{\"x\":\"a\\".to_vec()],
        ("unterminated_uescape", "unescape") => vec![b"\\u".to_vec(), b"\\u0".to_vec(), b"\\u00e".to_vec(), b"\\ud800\\udc00\"".to_vec(), b"\\uD83D\"".to_vec(), b"\\u00zz\"".to_vec()],
        ("unterminated_uescape", "tags") => vec![b"[[\"\\u00".to_vec(), b"[[\"\\ud83d\\ude00\"]]".to_vec()],
        ("lone_continuation", "unescape") => vec![vec![0x80, b'"'], vec![b'a', 0xbf, 0xbf, b'"'], vec![0xc3], vec![0xe2, 0x82], vec![0xf0, 0x9f, 0x98]],
        ("lone_continuation", "tags") => vec![vec![b'[', b'[', b'"', 0x80, b'"', b']', b']'], vec![b'[', b'[', b'"', 0xc3]],
        ("lone_continuation", "hex_id") | ("lone_continuation", "hex_pubkey") => vec![vec![0x80; 64], vec![0xff; 64]],
        ("lone_continuation", "hex_sig") => vec![vec![0x80; 128]],
        ("lone_continuation", "addr") => vec![vec![0x80, b':', 0x80, b':', 0x80], format!("1:{}:d", "é".repeat(32)).into_bytes()],
        ("lone_continuation", "hll") => vec!["é".repeat(256).into_bytes(), format!("{}é", "0".repeat(510)).into_bytes()],
        ("truncated_multibyte", "unescape") => vec![vec![b'a', 0xe2, b'"'], vec![0xf0, b'"'], vec![0xf7, 0xbf, 0xbf, 0xbf, b'"'], vec![0xc0, 0x80, b'"']],
        ("truncated_multibyte", "event") => vec![{
            let mut v = format!(r#"{{"id":"{ID1}","pubkey":"{PK1}","created_at":1,"kind":1,"tags":[],"sig":"{SIG1}","content":"a"#).into_bytes();
            v.extend_from_slice(&[0xf7, 0xbf, 0xbf, 0xbf, b'"', b'}']);
            v
        }],
        // the binary tags section is addressed with u16 offsets: sections that end just below / at / just above 65535 bytes,
        // followed by 0..3 empty tags (2 bytes each) or, in a filter, by further empty tag members
        ("u16_boundary", "tags") | ("u16_boundary", "event") => {
            let mut v = vec![];
            for n in (65512..=65532).step_by(1) {
                for k in 0..=3usize {
                    if (n + k) % 2 == 1 && k > 1 { continue; }
                    let t = format!("[[\"{}\"]{}]", "a".repeat(n), ",[]".repeat(k));
                    v.push(if entry == "tags" { t.into_bytes() } else { ev_with(&format!("\"tags\":{}", t)) });
                }
            }
            v
        }
        ("u16_boundary", "filter") => {
            let mut v = vec![];
            for n in 65500..=65530usize {
                for k in 0..=2usize {
                    let more = ["", ",\"#p\":[]", ",\"#p\":[],\"#q\":[\"\"]"][k];
                    v.push(format!("{{\"#e\":[\"{}\"]{}}}", "a".repeat(n), more).into_bytes());
                }
            }
            v
        }
        ("empty", _) => vec![vec![]],
        ("only_space", _) => vec![b" ".to_vec(), b"  \n\t ".to_vec()],
        ("big_string", "unescape") => vec![{
            let mut v = vec![b'a'; 70000];
            v.push(b'"');
            v
        }],
        ("big_string", "tags") => vec![format!("[[\"{}\"]]", "a".repeat(70000)).into_bytes()],
        ("big_string", "event") => vec![format!(r#"{{"id":"{ID1}","pubkey":"{PK1}","created_at":1,"kind":1,"tags":[["{}"]],"content":"","sig":"{SIG1}"}}"#, "a".repeat(70000)).into_bytes()],
        ("big_string", "filter") => vec![format!("{{\"#t\":[\"{}\"]}}", "a".repeat(70000)).into_bytes()],
        ("big_string", "addr") => vec![format!("1:{PK1}:{}", "d".repeat(70000)).into_bytes()],
        _ => vec![],
    }
}

#[derive(Debug, Clone, Copy, PartialEq, Eq, PartialOrd, Ord)]
enum Obs {
    Err,
    OkWellformed,
    Panic,
    OobWrite,
    ConsumedGtLen,
    OkMalformed,
}

impl Obs {
    fn name(&self) -> &'static str {
        match self {
            Obs::Err => "err",
            Obs::OkWellformed => "ok_wellformed",
            Obs::Panic => "panic",
            Obs::OobWrite => "oob_write",
            Obs::ConsumedGtLen => "consumed_gt_len",
            Obs::OkMalformed => "ok_malformed",
        }
    }
}

static LAST_PANIC: std::sync::Mutex<String> = std::sync::Mutex::new(String::new());

fn install_panic_recorder() {
    std::panic::set_hook(Box::new(|info| {
        let loc = info.location().map(|l| format!("{}:{}", l.file().rsplit('/').next().unwrap_or(""), l.line())).unwrap_or_default();
        if let Ok(mut g) = LAST_PANIC.lock() {
            *g = loc;
        }
    }));
}

const GUARD: usize = 64;
const GBYTE: u8 = 0xA5;

struct Buf {
    v: Vec<u8>,
    n: usize,
}

impl Buf {
    fn new(n: usize, fill: u8) -> Buf {
        let mut v = vec![GBYTE; n + 2 * GUARD];
        for x in v[GUARD..GUARD + n].iter_mut() {
            *x = fill;
        }
        Buf { v, n }
    }
    fn slice(&mut self) -> &mut [u8] {
        let n = self.n;
        &mut self.v[GUARD..GUARD + n]
    }
    fn intact(&self) -> bool {
        self.v[..GUARD].iter().all(|b| *b == GBYTE) && self.v[GUARD + self.n..].iter().all(|b| *b == GBYTE)
    }
}

fn exercise_tags(t: &Tags) {
    let _ = t.count();
    let _ = t.is_empty();
    for tag in t.iter() {
        for s in tag {
            let _ = s.len();
        }
    }
    for i in 0..(t.count().min(5) + 1) {
        for j in 0..4 {
            let _ = t.get_string(i, j);
        }
    }
    let _ = t.get_value(b"d");
    let _ = t.matches(b"e", b"x");
    let _ = t.as_json();
    let _ = format!("{}", t);
    let _ = t.to_owned();
    let _ = t.as_bytes().len();
}

fn exercise_event(e: &Event) {
    let _ = (e.id(), e.pubkey(), e.sig(), e.kind(), e.created_at(), e.len());
    if let Ok(t) = e.tags() {
        exercise_tags(t);
    }
    let _ = e.content().len();
    let _ = e.as_json();
    let _ = e.verify();
    let _ = e.is_expired();
    let _ = format!("{}", e);
    let o = e.to_owned();
    let _ = o.as_bytes() == e.as_bytes();
}

fn exercise_filter(f: &Filter, probe: &Event) {
    let _ = (f.num_ids(), f.num_authors(), f.num_kinds(), f.limit(), f.since(), f.until(), f.len(), f.completes());
    let _ = f.ids().count();
    let _ = f.authors().count();
    let _ = f.kinds().count();
    if let Ok(t) = f.tags() {
        exercise_tags(t);
    }
    let _ = f.as_json();
    let _ = f.event_matches(probe);
    let _ = f.hyperloglog_offset();
    let _ = format!("{}", f);
    let _ = f.to_owned();
}

/// run one concrete input through one entry point
fn run_one(entry: &str, input: &[u8], buflen: usize, probe: &Event) -> Obs {
    let mut buf = Buf::new(buflen, if buflen % 2 == 0 { 0x00 } else { 0xFF });
    let r = catch_unwind(AssertUnwindSafe(|| -> Obs {
        match entry {
            "event" => match Event::from_json(input, buf.slice()) {
                Err(_) => Obs::Err,
                Ok((consumed, e)) => {
                    if consumed > input.len() {
                        return Obs::ConsumedGtLen;
                    }
                    if e.len() > buflen {
                        return Obs::OkMalformed;
                    }
                    match catch_unwind(AssertUnwindSafe(|| exercise_event(e))) {
                        Ok(()) => Obs::OkWellformed,
                        Err(_) => Obs::OkMalformed,
                    }
                }
            },
            "filter" => match Filter::from_json(input, buf.slice()) {
                Err(_) => Obs::Err,
                Ok((consumed, outlen, f)) => {
                    if consumed > input.len() {
                        return Obs::ConsumedGtLen;
                    }
                    if outlen > buflen || f.len() > buflen {
                        return Obs::OkMalformed;
                    }
                    match catch_unwind(AssertUnwindSafe(|| exercise_filter(f, probe))) {
                        Ok(()) => Obs::OkWellformed,
                        Err(_) => Obs::OkMalformed,
                    }
                }
            },
            "tags" => match Tags::from_json(input, buf.slice()) {
                Err(_) => Obs::Err,
                Ok((consumed, t)) => {
                    if consumed > input.len() {
                        return Obs::ConsumedGtLen;
                    }
                    match catch_unwind(AssertUnwindSafe(|| exercise_tags(t))) {
                        Ok(()) => Obs::OkWellformed,
                        Err(_) => Obs::OkMalformed,
                    }
                }
            },
            "unescape" => match pocket_types::json::json_unescape(input, buf.slice()) {
                Err(_) => Obs::Err,
                Ok((consumed, written)) => {
                    if consumed > input.len() {
                        Obs::ConsumedGtLen
                    } else if written > buflen {
                        Obs::OkMalformed
                    } else {
                        Obs::OkWellformed
                    }
                }
            },
            "hex_id" => match Id::read_hex(input) {
                Err(_) => Obs::Err,
                Ok(id) => {
                    let _ = id.as_hex_string();
                    Obs::OkWellformed
                }
            },
            "hex_pubkey" => match Pubkey::read_hex(input) {
                Err(_) => Obs::Err,
                Ok(pk) => {
                    let _ = pk.as_hex_string();
                    Obs::OkWellformed
                }
            },
            "hex_sig" => match Sig::read_hex(input) {
                Err(_) => Obs::Err,
                Ok(s) => {
                    let _ = format!("{}", s);
                    Obs::OkWellformed
                }
            },
            "hll" => match std::str::from_utf8(input) {
                Err(_) => Obs::Err, // not expressible as &str: outside this entry point's input type
                Ok(s) => match Hll8::from_hex_string(s) {
                    Err(_) => Obs::Err,
                    Ok(h) => {
                        let _ = h.to_hex_string();
                        let _ = h.estimate_count();
                        Obs::OkWellformed
                    }
                },
            },
            "addr" => match Addr::try_from_bytes(input) {
                Err(_) => Obs::Err,
                Ok(a) => {
                    let _ = (a.kind, a.author, a.d.len());
                    // every formatter / clone of the parsed value is total as well
                    let _ = format!("{:?}", a);
                    let _ = format!("{:#?}", a);
                    let _ = format!("{:?}", a.clone());
                    Obs::OkWellformed
                }
            },
            _ => Obs::Err,
        }
    }));
    match r {
        Err(_) => Obs::Panic,
        Ok(o) => {
            if !buf.intact() {
                Obs::OobWrite
            } else {
                o
            }
        }
    }
}

fn bases_for(entry: &str) -> Vec<Vec<u8>> {
    match entry {
        "event" => event_bases(),
        "filter" => filter_bases(),
        "tags" => tags_bases(),
        "unescape" => unescape_bases(),
        "hex_id" | "hex_pubkey" => hex_bases(64),
        "hex_sig" => hex_bases(128),
        "hll" => hex_bases(512),
        "addr" => addr_bases(),
        _ => vec![],
    }
}

fn is_token(b: u8) -> bool {
    matches!(b, b'{' | b'}' | b'[' | b']' | b',' | b':' | b'"')
}

/// the concrete inputs of an abstract case (base index, description, bytes)
fn inputs(entry: &str, op: &str, cls: &str, stride: usize) -> Vec<(usize, String, Vec<u8>)> {
    let mut out = vec![];
    if op == "junk" {
        for (i, j) in junk(cls, entry).into_iter().enumerate() {
            out.push((i, format!("junk:{}", cls), j));
        }
        return out;
    }
    let bases = bases_for(entry);
    for (bi, base) in bases.iter().enumerate() {
        match op {
            "valid" => out.push((bi, "valid".into(), base.clone())),
            "prefix" => {
                for k in 0..base.len() {
                    out.push((bi, format!("prefix:{}", k), base[..k].to_vec()));
                }
                // and a few lengths beyond (hex entries: 0..130 / 510..514 are covered by base +- bytes)
                for extra in 1..=3 {
                    let mut v = base.clone();
                    v.extend(std::iter::repeat(base[base.len().saturating_sub(1)..].first().copied().unwrap_or(b'0')).take(extra));
                    out.push((bi, format!("longer:{}", extra), v));
                }
            }
            "subst" => {
                for p in (0..base.len()).step_by(stride) {
                    for b in class_bytes(cls) {
                        if base[p] != b {
                            let mut v = base.clone();
                            v[p] = b;
                            out.push((bi, format!("subst:{}:{:02x}", p, b), v));
                        }
                    }
                }
            }
            "subst2" => {
                // seed-free but spread: pairs (p, p + gap) for a few gaps
                for gap in [1usize, 2, 7, 33, 65] {
                    for p in (0..base.len().saturating_sub(gap)).step_by(stride.max(1) * 3) {
                        for b in class_bytes(cls).into_iter().take(2) {
                            let mut v = base.clone();
                            v[p] = b;
                            v[p + gap] = b;
                            out.push((bi, format!("subst2:{}:{}:{:02x}", p, p + gap, b), v));
                        }
                    }
                }
            }
            "splice" => {
                let n = base.len();
                for w in [3usize, 9, 40] {
                    if n <= w * 2 {
                        continue;
                    }
                    for dst in (0..n - w).step_by(5) {
                        let src = (dst * 7 + 13) % (n - w);
                        let mut v = base.clone();
                        let chunk: Vec<u8> = base[src..src + w].to_vec();
                        v[dst..dst + w].copy_from_slice(&chunk);
                        out.push((bi, format!("splice:{}<-{}x{}", dst, src, w), v));
                    }
                }
            }
            "insert" => {
                for p in (0..=base.len()).step_by(stride) {
                    for b in class_bytes(cls) {
                        let mut v = base.clone();
                        v.insert(p, b);
                        out.push((bi, format!("insert:{}:{:02x}", p, b), v));
                    }
                }
            }
            "delete" => {
                for p in 0..base.len() {
                    let mut v = base.clone();
                    v.remove(p);
                    out.push((bi, format!("delete:{}", p), v));
                }
            }
            "dup" => {
                for p in 0..base.len() {
                    if is_token(base[p]) {
                        let mut v = base.clone();
                        v.insert(p, base[p]);
                        out.push((bi, format!("dup:{}", p), v));
                    }
                }
            }
            "swap" => {
                let toks: Vec<usize> = (0..base.len()).filter(|p| is_token(base[*p])).collect();
                for w in toks.windows(2) {
                    let mut v = base.clone();
                    v.swap(w[0], w[1]);
                    out.push((bi, format!("swap:{}:{}", w[0], w[1]), v));
                }
            }
            "tail" => {
                for b in class_bytes(cls) {
                    for n in [1usize, 2, 7] {
                        let mut v = base.clone();
                        v.extend(std::iter::repeat(b).take(n));
                        out.push((bi, format!("tail:{:02x}x{}", b, n), v));
                    }
                }
            }
            _ => {}
        }
    }
    out
}

fn needed_for(entry: &str, base: &[u8]) -> usize {
    // what the valid base text needs: parse into a large buffer
    let mut big = vec![0u8; 1 << 20];
    match entry {
        "event" => Event::from_json(base, &mut big).map(|(_, e)| e.len()).unwrap_or(152),
        "filter" => Filter::from_json(base, &mut big).map(|(_, n, _)| n).unwrap_or(36),
        "tags" => Tags::from_json(base, &mut big).map(|(_, t)| t.as_bytes().len()).unwrap_or(4),
        "unescape" => pocket_types::json::json_unescape(base, &mut big).map(|(_, w)| w).unwrap_or(8),
        _ => 0,
    }
}

fn main() {
    let args: Vec<String> = std::env::args().collect();
    let cpath = arg(&args, "--cases").expect("--cases");
    let opath = arg(&args, "--out").expect("--out");
    let stride: usize = arg(&args, "--stride").and_then(|s| s.parse().ok()).unwrap_or(1);
    install_panic_recorder();
    let probe = vh::build_event(&[1; 32], 1, &[2; 32], &[3; 64], &vh::build_tags(&[vec![b"e".to_vec(), b"x".to_vec()]]), 10, b"hi");
    let cf = std::io::BufReader::new(std::fs::File::open(&cpath).expect("cases"));
    let mut out = BufWriter::new(std::fs::File::create(&opath).expect("out"));
    // needed sizes of the base texts (computed with catch_unwind: a defect there must not kill the run)
    let mut needed: BTreeMap<(String, usize), usize> = BTreeMap::new();
    for entry in ["event", "filter", "tags", "unescape"] {
        for (bi, b) in bases_for(entry).iter().enumerate() {
            let n = catch_unwind(AssertUnwindSafe(|| needed_for(entry, b))).unwrap_or(256);
            needed.insert((entry.to_string(), bi), n);
        }
    }
    for line in cf.lines() {
        let line = line.expect("read");
        if line.trim().is_empty() {
            continue;
        }
        let c: Value = serde_json::from_str(&line).expect("case");
        let entry = c["entry"].as_str().unwrap_or("").to_string();
        let op = c["op"].as_str().unwrap_or("").to_string();
        let cls = c["cls"].as_str().unwrap_or("").to_string();
        let bufc = c["buf"].as_str().unwrap_or("").to_string();
        let has_buf = matches!(entry.as_str(), "event" | "filter" | "tags" | "unescape");
        // progress marker (lets the driver see which abstract case was running if the process dies)
        writeln!(out, "{}", json!({"begin": c})).unwrap();
        out.flush().unwrap();
        let mut counts: BTreeMap<&'static str, u64> = BTreeMap::new();
        let mut sites: BTreeMap<String, u64> = BTreeMap::new();
        let mut bad: Vec<Value> = vec![];
        let mut n: u64 = 0;
        for (bi, desc, input) in inputs(&entry, &op, &cls, stride) {
            let need = if op == "junk" { input.len() + 256 } else { *needed.get(&(entry.clone(), bi)).unwrap_or(&256) };
            let lens = if has_buf { buf_lens(&bufc, need) } else { vec![0] };
            for bl in lens {
                let o = run_one(&entry, &input, bl, &probe);
                n += 1;
                *counts.entry(o.name()).or_insert(0) += 1;
                let site = if o == Obs::Panic || o == Obs::OkMalformed { LAST_PANIC.lock().map(|g| g.clone()).unwrap_or_default() } else { String::new() };
                if o > Obs::OkWellformed {
                    *sites.entry(format!("{}@{}", o.name(), site)).or_insert(0) += 1;
                }
                if o > Obs::OkWellformed && bad.iter().filter(|b| b["obs"] == o.name() && b["site"] == site.as_str()).count() < 2 && bad.len() < 12 {
                    let shown = if input.len() > 600 { &input[..600] } else { &input[..] };
                    bad.push(json!({"obs": o.name(), "site": site, "base": bi, "mut": desc, "buflen": bl, "input_len": input.len(),
                                    "input_hex": vh::hex(shown)}));
                }
            }
        }
        writeln!(out, "{}", json!({"case": c, "n": n, "counts": counts, "sites": sites, "bad": bad})).unwrap();
        out.flush().unwrap();
    }
}
