//! hlldrv: run the real `pocket_types::Hll8` on cases and record what it did (property C20).
//!
//! usage: hlldrv --cases C.ndjson --out O.ndjson
//!
//! Every case is one JSON line; every call into the code under test runs under `catch_unwind`
//! and a panic is recorded as that call's outcome (behaviour is data, the verdict is taken by
//! checks/hll.py and by TLC against spec/Hll*.tla).  Registers are only ever observed through
//! `to_hex_string()` (decoded here, either letter case accepted) - the type has no other reader.
//!
//! case kinds
//!   {"k":"beh","id":n,"ns":k,"ops":[op..]}       a behaviour over k sketches, all starting as Hll8::new()
//!        op = {"op":"add","s":i,"el":"<64 hex>","off":u64[,"rec":bool]}   add_element(&el, off)
//!             {"op":"merge","s":i,"t":j}                                   sk[i] += sk[j]
//!             {"op":"rt","s":i}                        sk[i] = from_hex_string(sk[i].to_hex_string())
//!             {"op":"import","s":i,"hex":"..."}        sk[i] = from_hex_string(hex) if Ok, unchanged if Err
//!             {"op":"est","s":i}                       sk[i].estimate_count()
//!             {"op":"obs","s":i}                       no call, only the register read-out
//!             {"op":"clear","s":i}                     sk[i].clear()
//!        after EVERY step the estimate of the live target sketch and of a fresh sketch imported from its
//!        export are recorded: "ev":[live, fresh], each a decimal count, "panic" or "none" (import failed)
//!        -> {"k":"beh","id":n,"steps":[{"res":"ok|err|panic","msg":..,"regs":[[idx,val]..],"hex_ok":b,"est":"dec"}..]}
//!           ("rec":false suppresses the step's register read-out; the step is still listed)
//!   {"k":"est","id":n,"hex":"..."} | {"k":"est","id":n,"new":true}
//!        -> {"k":"est","id":n,"imp":"ok|err|panic","res":"ok|panic|none","est":"dec","rt_ok":b,"msg":..}
//!   {"k":"extremes","id":n,"bg":b}                   for v in 0..=255: register i = v (each i), others = b
//!        -> 256 x {"k":"row","bg":b,"v":v,"ok":n,"panic":n,"imperr":n,"rt_bad":n,"sat":n,"est_min":"dec","est_max":"dec",
//!                  "first_bad":i,"msg":..}
//!   {"k":"acc","id":n,"seed":s,"n":card,"off":o,"reps":r}   card distinct uniformly random 32-byte elements,
//!        each added r times in shuffled order -> {"k":"acc","id":n,"n":card,"res":..,"est":"dec","maxreg":m,"hex":..}
//!   {"k":"pairs","id":n,"off":o,"idx":b,"els":[[rho,"<64 hex>"]..]}   for every ordered pair (i,j): a fresh sketch,
//!        add els[i] then els[j] at offset o -> {"k":"pairs","id":n,"obs":[[register b after (i,j) ..]..],"dirty":[[i,j,why]..]}
//!        (obs -1 = a call failed; dirty = some other register non-zero, export malformed, error or panic)
//!   {"k":"elements","seed":s,"n":card}             -> the elements of an "acc" case (for replay files)

use pocket_types::Hll8;
use rand::rngs::StdRng;
use rand::seq::SliceRandom;
use rand::{RngCore, SeedableRng};
use serde_json::{json, Value};
use std::io::{BufRead, BufWriter, Write};
use std::panic::{catch_unwind, AssertUnwindSafe};

fn arg(args: &[String], name: &str) -> Option<String> {
    args.iter().position(|a| a == name).and_then(|i| args.get(i + 1).cloned())
}

fn panic_msg(e: Box<dyn std::any::Any + Send>) -> String {
    if let Some(s) = e.downcast_ref::<&str>() {
        s.to_string()
    } else if let Some(s) = e.downcast_ref::<String>() {
        s.clone()
    } else {
        "panic".to_string()
    }
}

/// decode an exported string: Some(registers) iff it is exactly 512 hex digits
fn decode(s: &str) -> Option<Vec<u8>> {
    let b = s.as_bytes();
    if b.len() != 512 {
        return None;
    }
    let v = |c: u8| -> Option<u8> {
        match c {
            b'0'..=b'9' => Some(c - b'0'),
            b'a'..=b'f' => Some(c - b'a' + 10),
            b'A'..=b'F' => Some(c - b'A' + 10),
            _ => None,
        }
    };
    let mut out = Vec::with_capacity(256);
    for i in 0..256 {
        out.push(v(b[2 * i])? * 16 + v(b[2 * i + 1])?);
    }
    Some(out)
}

fn encode(regs: &[u8]) -> String {
    vh::hex(regs)
}

/// observe a sketch: (hex_ok, sparse registers, raw string when it could not be decoded)
fn observe(h: &Hll8) -> (bool, Value, String) {
    match catch_unwind(AssertUnwindSafe(|| h.to_hex_string())) {
        Ok(s) => match decode(&s) {
            Some(r) => {
                let sp: Vec<Value> = r.iter().enumerate().filter(|(_, v)| **v != 0).map(|(i, v)| json!([i, *v])).collect();
                (true, Value::Array(sp), String::new())
            }
            None => (false, json!([]), s),
        },
        Err(e) => (false, json!([]), format!("panic in to_hex_string: {}", panic_msg(e))),
    }
}

/// estimate of the live sketch and of a fresh sketch imported from the live sketch's export
fn est_pair(h: &Hll8) -> (String, String) {
    let live = match catch_unwind(AssertUnwindSafe(|| h.estimate_count())) {
        Ok(n) => n.to_string(),
        Err(_) => "panic".to_string(),
    };
    let fresh = match catch_unwind(AssertUnwindSafe(|| Hll8::from_hex_string(&h.to_hex_string()))) {
        Ok(Ok(f)) => match catch_unwind(AssertUnwindSafe(|| f.estimate_count())) {
            Ok(n) => n.to_string(),
            Err(_) => "panic".to_string(),
        },
        _ => "none".to_string(),
    };
    (live, fresh)
}

fn el_from_hex(s: &str) -> [u8; 32] {
    let v = vh::unhex(s);
    assert!(v.len() == 32, "element must be 32 bytes");
    let mut a = [0u8; 32];
    a.copy_from_slice(&v);
    a
}

fn run_beh(c: &Value) -> Value {
    let ns = c["ns"].as_u64().unwrap_or(2) as usize;
    let mut sk: Vec<Hll8> = (0..ns).map(|_| Hll8::new()).collect();
    let mut steps = Vec::new();
    for op in c["ops"].as_array().expect("ops") {
        let kind = op["op"].as_str().expect("op");
        let s = op["s"].as_u64().expect("s") as usize;
        let rec = op.get("rec").and_then(|v| v.as_bool()).unwrap_or(true);
        let mut est = String::new();
        let (res, msg): (String, String) = match kind {
            "add" => {
                let el = el_from_hex(op["el"].as_str().expect("el"));
                let off = op["off"].as_u64().expect("off") as usize;
                let tgt = &mut sk[s];
                match catch_unwind(AssertUnwindSafe(|| tgt.add_element(&el, off))) {
                    Ok(Ok(())) => ("ok".into(), String::new()),
                    Ok(Err(e)) => ("err".into(), format!("{}", e.inner)),
                    Err(e) => ("panic".into(), panic_msg(e)),
                }
            }
            "merge" => {
                let t = op["t"].as_u64().expect("t") as usize;
                let other = sk[t];
                let tgt = &mut sk[s];
                match catch_unwind(AssertUnwindSafe(|| *tgt += other)) {
                    Ok(()) => ("ok".into(), String::new()),
                    Err(e) => ("panic".into(), panic_msg(e)),
                }
            }
            "rt" => {
                let cur = sk[s];
                match catch_unwind(AssertUnwindSafe(|| Hll8::from_hex_string(&cur.to_hex_string()))) {
                    Ok(Ok(h)) => {
                        sk[s] = h;
                        ("ok".into(), String::new())
                    }
                    Ok(Err(e)) => ("err".into(), format!("{}", e.inner)),
                    Err(e) => ("panic".into(), panic_msg(e)),
                }
            }
            "import" => {
                let hx = op["hex"].as_str().expect("hex").to_string();
                match catch_unwind(AssertUnwindSafe(|| Hll8::from_hex_string(&hx))) {
                    Ok(Ok(h)) => {
                        sk[s] = h;
                        ("ok".into(), String::new())
                    }
                    Ok(Err(e)) => ("err".into(), format!("{}", e.inner)),
                    Err(e) => ("panic".into(), panic_msg(e)),
                }
            }
            "est" => {
                let cur = sk[s];
                match catch_unwind(AssertUnwindSafe(|| cur.estimate_count())) {
                    Ok(n) => {
                        est = n.to_string();
                        ("ok".into(), String::new())
                    }
                    Err(e) => ("panic".into(), panic_msg(e)),
                }
            }
            "obs" => ("ok".into(), String::new()),
            "clear" => {
                let tgt = &mut sk[s];
                match catch_unwind(AssertUnwindSafe(|| tgt.clear())) {
                    Ok(()) => ("ok".into(), String::new()),
                    Err(e) => ("panic".into(), panic_msg(e)),
                }
            }
            other => panic!("unknown op {}", other),
        };
        let (el, ef) = est_pair(&sk[s]);
        if rec {
            let (hex_ok, regs, raw) = observe(&sk[s]);
            steps.push(json!({"res": res, "msg": msg, "regs": regs, "hex_ok": hex_ok, "raw": raw, "est": est, "ev": [el, ef]}));
        } else {
            steps.push(json!({"res": res, "msg": msg, "regs": [], "hex_ok": true, "raw": "", "est": est, "norec": true, "ev": [el, ef]}));
        }
    }
    json!({"k": "beh", "id": c["id"], "steps": steps})
}

/// import a register state and estimate; (imp, res, est, rt_ok, msg); `same` is set to false when the
/// sketch imported from this sketch's own export estimates differently
fn import_estimate(hex: &str, same: &mut bool) -> (String, String, String, bool, String) {
    *same = true;
    let h = match catch_unwind(AssertUnwindSafe(|| Hll8::from_hex_string(hex))) {
        Ok(Ok(h)) => h,
        Ok(Err(e)) => return ("err".into(), "none".into(), String::new(), false, format!("{}", e.inner)),
        Err(e) => return ("panic".into(), "none".into(), String::new(), false, panic_msg(e)),
    };
    let rt_ok = match catch_unwind(AssertUnwindSafe(|| h.to_hex_string())) {
        Ok(s) => decode(&s) == decode(hex),
        Err(_) => false,
    };
    let (live, fresh) = est_pair(&h);
    *same = live == fresh;
    match catch_unwind(AssertUnwindSafe(|| h.estimate_count())) {
        Ok(n) => ("ok".into(), "ok".into(), n.to_string(), rt_ok, String::new()),
        Err(e) => ("ok".into(), "panic".into(), String::new(), rt_ok, panic_msg(e)),
    }
}

fn run_est(c: &Value) -> Value {
    if c.get("new").and_then(|v| v.as_bool()).unwrap_or(false) {
        let h = Hll8::new();
        let (hex_ok, regs, _) = observe(&h);
        let empty = hex_ok && regs.as_array().map(|a| a.is_empty()).unwrap_or(false);
        return match catch_unwind(AssertUnwindSafe(|| h.estimate_count())) {
            Ok(n) => json!({"k": "est", "id": c["id"], "imp": "ok", "res": "ok", "est": n.to_string(), "rt_ok": empty, "msg": "", "same": est_pair(&h).0 == est_pair(&h).1}),
            Err(e) => json!({"k": "est", "id": c["id"], "imp": "ok", "res": "panic", "est": "", "rt_ok": empty, "msg": panic_msg(e), "same": true}),
        };
    }
    let mut same = true;
    let (imp, res, est, rt_ok, msg) = import_estimate(c["hex"].as_str().expect("hex"), &mut same);
    json!({"k": "est", "id": c["id"], "imp": imp, "res": res, "est": est, "rt_ok": rt_ok, "msg": msg, "same": same})
}

fn run_extremes(c: &Value, out: &mut dyn Write) {
    let bg = c["bg"].as_u64().expect("bg") as u8;
    for v in 0..=255u8 {
        let (mut ok, mut pn, mut ie, mut rtb, mut sat, mut ediff) = (0u32, 0u32, 0u32, 0u32, 0u32, 0u32);
        let (mut emin, mut emax): (Option<u128>, Option<u128>) = (None, None);
        let mut first_bad: i64 = -1;
        let mut msg = String::new();
        for i in 0..256usize {
            let mut regs = [bg; 256];
            regs[i] = v;
            let mut same = true;
            let (imp, res, est, rt_ok, m) = import_estimate(&encode(&regs), &mut same);
            let mut bad = false;
            if imp == "ok" && !same {
                ediff += 1;
                bad = true;
            }
            if imp != "ok" {
                ie += 1;
                bad = true;
            } else {
                if !rt_ok {
                    rtb += 1;
                    bad = true;
                }
                if res == "ok" {
                    ok += 1;
                    let e: u128 = est.parse().unwrap_or(u128::MAX);
                    if e >= (1u128 << 53) {
                        // the saturated cast of a non-finite floating point estimate
                        sat += 1;
                        bad = true;
                    }
                    emin = Some(emin.map_or(e, |x| x.min(e)));
                    emax = Some(emax.map_or(e, |x| x.max(e)));
                } else {
                    pn += 1;
                    bad = true;
                }
            }
            if bad && first_bad < 0 {
                first_bad = i as i64;
                msg = format!("import={} estimate={} {} rt_ok={} same_estimate_after_round_trip={} {}", imp, res, est, rt_ok, same, m);
            }
        }
        writeln!(out, "{}", json!({"k": "row", "id": c["id"], "bg": bg, "v": v, "ok": ok, "panic": pn, "imperr": ie, "rt_bad": rtb, "sat": sat, "ediff": ediff,
            "est_min": emin.map(|x| x.to_string()).unwrap_or_default(),
            "est_max": emax.map(|x| x.to_string()).unwrap_or_default(),
            "first_bad": first_bad, "msg": msg})).unwrap();
    }
}

fn run_pairs(c: &Value) -> Value {
    let off = c["off"].as_u64().expect("off") as usize;
    let idx = c["idx"].as_u64().expect("idx") as usize;
    let els: Vec<[u8; 32]> = c["els"].as_array().expect("els").iter().map(|p| el_from_hex(p[1].as_str().expect("el"))).collect();
    let mut obs: Vec<Vec<i64>> = Vec::with_capacity(els.len());
    let mut dirty: Vec<Value> = Vec::new();
    for (i, a) in els.iter().enumerate() {
        let mut row = Vec::with_capacity(els.len());
        for (j, b) in els.iter().enumerate() {
            let r = catch_unwind(AssertUnwindSafe(|| {
                let mut h = Hll8::new();
                let r1 = h.add_element(a, off).is_ok();
                let r2 = h.add_element(b, off).is_ok();
                (r1 && r2, h.to_hex_string())
            }));
            let (v, why) = match r {
                Ok((true, s)) => match decode(&s) {
                    Some(regs) => {
                        let others = regs.iter().enumerate().any(|(k, x)| k != idx && *x != 0);
                        (regs[idx] as i64, if others { "another register is non-zero" } else { "" })
                    }
                    None => (-1, "export is not 512 hex digits"),
                },
                Ok((false, _)) => (-1, "add_element returned Err"),
                Err(_) => (-1, "panic"),
            };
            if !why.is_empty() && dirty.len() < 20 {
                dirty.push(json!([i, j, why]));
            }
            row.push(v);
        }
        obs.push(row);
    }
    json!({"k": "pairs", "id": c["id"], "obs": obs, "dirty": dirty})
}

fn gen_elements(seed: u64, n: usize) -> Vec<[u8; 32]> {
    let mut rng = StdRng::seed_from_u64(seed);
    let mut v = Vec::with_capacity(n);
    let mut seen = std::collections::HashSet::with_capacity(n);
    while v.len() < n {
        let mut e = [0u8; 32];
        rng.fill_bytes(&mut e);
        if seen.insert(e) {
            v.push(e);
        }
    }
    v
}

fn run_acc(c: &Value) -> Value {
    let seed = c["seed"].as_u64().expect("seed");
    let n = c["n"].as_u64().expect("n") as usize;
    let off = c["off"].as_u64().expect("off") as usize;
    let reps = c.get("reps").and_then(|v| v.as_u64()).unwrap_or(1).max(1) as usize;
    let els = gen_elements(seed, n);
    let mut order: Vec<usize> = (0..n * reps).map(|i| i % n.max(1)).collect();
    if n == 0 {
        order.clear();
    }
    let mut rng = StdRng::seed_from_u64(seed ^ 0x9e3779b97f4a7c15);
    order.shuffle(&mut rng);
    let mut h = Hll8::new();
    let mut res = "ok".to_string();
    let mut msg = String::new();
    let r = catch_unwind(AssertUnwindSafe(|| {
        for &i in order.iter() {
            if let Err(e) = h.add_element(&els[i], off) {
                return Err(format!("{}", e.inner));
            }
        }
        Ok(())
    }));
    match r {
        Ok(Ok(())) => {}
        Ok(Err(m)) => {
            res = "add_err".into();
            msg = m;
        }
        Err(e) => {
            res = "add_panic".into();
            msg = panic_msg(e);
        }
    }
    let (hex_ok, regs, raw) = observe(&h);
    let maxreg = regs.as_array().map(|a| a.iter().map(|p| p[1].as_u64().unwrap_or(0)).max().unwrap_or(0)).unwrap_or(0);
    let nonzero = regs.as_array().map(|a| a.len()).unwrap_or(0);
    let mut est = String::new();
    if res == "ok" {
        match catch_unwind(AssertUnwindSafe(|| h.estimate_count())) {
            Ok(x) => est = x.to_string(),
            Err(e) => {
                res = "panic".into();
                msg = panic_msg(e);
            }
        }
    }
    let (el, ef) = est_pair(&h);
    json!({"k": "acc", "id": c["id"], "n": n, "off": off, "seed": seed, "reps": reps, "res": res, "msg": msg, "est": est, "ev": [el, ef],
           "maxreg": maxreg, "nonzero": nonzero, "hex_ok": hex_ok, "raw": raw})
}

fn main() {
    let args: Vec<String> = std::env::args().collect();
    let cpath = arg(&args, "--cases").expect("--cases");
    let opath = arg(&args, "--out").expect("--out");
    vh::silence_panics();
    let cf = std::io::BufReader::new(std::fs::File::open(&cpath).expect("cases file"));
    let mut out = BufWriter::new(std::fs::File::create(&opath).expect("out file"));
    for line in cf.lines() {
        let line = line.expect("read");
        if line.trim().is_empty() {
            continue;
        }
        let c: Value = serde_json::from_str(&line).expect("case json");
        match c["k"].as_str().expect("k") {
            "beh" => writeln!(out, "{}", run_beh(&c)).unwrap(),
            "est" => writeln!(out, "{}", run_est(&c)).unwrap(),
            "extremes" => run_extremes(&c, &mut out),
            "acc" => writeln!(out, "{}", run_acc(&c)).unwrap(),
            "pairs" => writeln!(out, "{}", run_pairs(&c)).unwrap(),
            "elements" => {
                let els = gen_elements(c["seed"].as_u64().expect("seed"), c["n"].as_u64().expect("n") as usize);
                let hx: Vec<String> = els.iter().map(|e| vh::hex(e)).collect();
                writeln!(out, "{}", json!({"k": "elements", "seed": c["seed"], "elements": hx})).unwrap();
            }
            other => panic!("unknown case kind {}", other),
        }
    }
    out.flush().unwrap();
}
