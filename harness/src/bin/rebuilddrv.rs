//! rebuilddrv: what a kill inside Store::rebuild leaves behind (beyond the listed properties; DESIGN 11.8).
//!
//! For every history: run the calls, project the store (the complete state S), then rebuild with a handler that copies
//! the four durable pieces (event.map, lmdb/data.mdb, event.map.bak, lmdb.bak/data.mdb) at every `rebuild.*` yield point.
//! Every image is (1) opened as it is - what a restarted relay would see - and (2) opened after putting the backup pieces
//! back in place where they exist - what an operator could recover.  Both results are classified against S:
//!   same | empty | partial | corrupt | error
//! spec/TraceRebuild.tla holds the step model's prediction for every yield point.
//!
//! usage: rebuilddrv --universe U.json --hist H.ndjson --out T.ndjson [--tmp DIR]

use serde_json::{json, Value};
use std::io::{BufRead, BufWriter, Write};
use std::path::{Path, PathBuf};
use std::sync::{Arc, Mutex};
use vh::{Driver, Universe};

fn arg(args: &[String], name: &str) -> Option<String> {
    args.iter().position(|a| a == name).and_then(|i| args.get(i + 1).cloned())
}

const PIECES: [&str; 4] = ["event.map", "lmdb/data.mdb", "event.map.bak", "lmdb.bak/data.mdb"];

fn image_full(src: &Path, dst: &Path) -> std::io::Result<()> {
    std::fs::create_dir_all(dst)?;
    for name in PIECES {
        let s = src.join(name);
        if s.exists() {
            let d = dst.join(name);
            if let Some(p) = d.parent() {
                std::fs::create_dir_all(p)?;
            }
            std::fs::copy(&s, &d)?;
        }
    }
    Ok(())
}

struct Img {
    src: PathBuf,
    root: PathBuf,
    taken: Vec<(String, usize, PathBuf)>,
    occ: std::collections::HashMap<String, usize>,
}

fn classify(pre: &Value, st: &Value) -> String {
    if st["open"].as_i64() != Some(1) {
        return "error".into();
    }
    let key = |v: &Value| (v["retr"].clone(), v["delIds"].clone(), v["delAddr"].clone(), v["extra"].clone());
    if st["corrupt"].as_array().map(|a| !a.is_empty()).unwrap_or(false) {
        return "corrupt".into();
    }
    if key(pre) == key(st) {
        return "same".into();
    }
    let empty = |v: &Value| v["retr"].as_array().map(|a| a.is_empty()).unwrap_or(true)
        && v["delIds"].as_array().map(|a| a.is_empty()).unwrap_or(true)
        && v["delAddr"].as_array().map(|a| a.iter().all(|x| x.as_i64().unwrap_or(-1) < 0)).unwrap_or(true)
        && v["extra"].as_array().map(|a| a.is_empty()).unwrap_or(true);
    if empty(st) {
        return "empty".into();
    }
    "partial".into()
}

fn open_and_classify(u: &Universe, dir: &Path, pre: &Value) -> String {
    match Driver::open(u, dir, true) {
        Ok(mut d) => {
            let st = d.project();
            d.close();
            classify(pre, &st)
        }
        Err(_) => "error".into(),
    }
}

fn main() {
    let args: Vec<String> = std::env::args().collect();
    let upath = arg(&args, "--universe").expect("--universe");
    let hpath = arg(&args, "--hist").expect("--hist");
    let opath = arg(&args, "--out").expect("--out");
    let tmp = arg(&args, "--tmp").unwrap_or_else(|| if Path::new("/dev/shm").is_dir() { "/dev/shm".into() } else { "/tmp".into() });
    vh::silence_panics();
    let u = Universe::load(&upath);
    let mut out = BufWriter::new(std::fs::File::create(&opath).expect("out"));
    let hf = std::io::BufReader::new(std::fs::File::open(&hpath).expect("hist"));
    for line in hf.lines() {
        let line = line.unwrap();
        if line.trim().is_empty() {
            continue;
        }
        let h: Value = serde_json::from_str(&line).expect("history json");
        let hid = h["id"].as_i64().unwrap_or(0);
        let td = tempfile::Builder::new().prefix("pvr").tempdir_in(&tmp).expect("tempdir");
        let root = td.path().to_owned();
        let rdir = root.join("s");
        std::fs::create_dir(&rdir).unwrap();
        let mut d = Driver::open(&u, &rdir, true).expect("open");
        for op in h["ops"].as_array().unwrap() {
            let k = op["k"].as_str().unwrap_or("");
            let a = op.get("a").and_then(|v| v.as_i64()).unwrap_or(0);
            match k {
                "store" => { let _ = d.store_ev(a as usize); }
                "remove" => { let _ = d.remove(a as usize); }
                "vanish" => { let _ = d.vanish(a as usize); }
                "reopen" => { let _ = d.reopen_mode(true); }
                "rebuild" => { let _ = d.rebuild(); }
                "xput" => { let _ = d.extra_put(a as usize, &vh::unhex(op["key"].as_str().unwrap_or("")), &vh::unhex(op["val"].as_str().unwrap_or(""))); }
                _ => {}
            }
        }
        let pre = d.project();
        let flags = json!({
            "ev": if pre["retr"].as_array().map(|a| !a.is_empty()).unwrap_or(false) { 1 } else { 0 },
            "del": if pre["delIds"].as_array().map(|a| !a.is_empty()).unwrap_or(false) { 1 } else { 0 },
            "naddr": if pre["delAddr"].as_array().map(|a| a.iter().any(|x| x.as_i64().unwrap_or(-1) >= 0)).unwrap_or(false) { 1 } else { 0 },
            "extra": if pre["extra"].as_array().map(|a| !a.is_empty()).unwrap_or(false) { 1 } else { 0 },
            "n": pre["retr"].as_array().map(|a| a.len()).unwrap_or(0),
        });
        let img = Arc::new(Mutex::new(Img { src: rdir.clone(), root: root.clone(), taken: vec![], occ: Default::default() }));
        {
            let img = img.clone();
            pocket_db::verif::set_handler(Some(Arc::new(move |name: &'static str| {
                if !name.starts_with("rebuild.") {
                    return;
                }
                let mut g = img.lock().unwrap();
                let o = { let e = g.occ.entry(name.to_string()).or_insert(0); *e += 1; *e };
                if name == "rebuild.copiedone" && o > 3 {
                    return;
                }
                let dst = g.root.join(format!("img_{}_{}", name.replace('.', "_"), o));
                if image_full(&g.src, &dst).is_ok() {
                    g.taken.push((name.to_string(), o, dst));
                }
            })));
        }
        let res = d.rebuild();
        pocket_db::verif::set_handler(None);
        let post = d.project();
        d.close();
        let taken = std::mem::take(&mut img.lock().unwrap().taken);
        writeln!(out, "{}", json!({"h": hid, "point": "rebuild.start", "occ": 1, "reopen": "same", "recover": "same", "flags": flags, "res": res})).unwrap();
        for (name, o, path) in taken {
            // (1) as it is
            let a = root.join(format!("open_{}_{}", name.replace('.', "_"), o));
            std::fs::create_dir_all(&a).unwrap();
            for p in ["event.map", "lmdb/data.mdb"] {
                let s = path.join(p);
                if s.exists() {
                    let t = a.join(p);
                    std::fs::create_dir_all(t.parent().unwrap()).unwrap();
                    std::fs::copy(&s, &t).unwrap();
                }
            }
            let reopen = open_and_classify(&u, &a, &pre);
            // (2) with the backup pieces put back where they exist
            let b = root.join(format!("rec_{}_{}", name.replace('.', "_"), o));
            std::fs::create_dir_all(b.join("lmdb")).unwrap();
            let pick = |bak: &str, main: &str| if path.join(bak).exists() { path.join(bak) } else { path.join(main) };
            let m = pick("event.map.bak", "event.map");
            if m.exists() {
                std::fs::copy(&m, b.join("event.map")).unwrap();
            }
            let l = pick("lmdb.bak/data.mdb", "lmdb/data.mdb");
            if l.exists() {
                std::fs::copy(&l, b.join("lmdb/data.mdb")).unwrap();
            }
            let recover = open_and_classify(&u, &b, &pre);
            writeln!(out, "{}", json!({"h": hid, "point": name, "occ": o, "reopen": reopen, "recover": recover, "flags": flags, "res": res})).unwrap();
        }
        writeln!(out, "{}", json!({"h": hid, "point": "rebuild.returned", "occ": 1, "reopen": classify(&pre, &post), "recover": "same",
            "flags": flags, "res": res})).unwrap();
        drop(td);
    }
    out.flush().unwrap();
}
