//! kinddrv: records the kind classification of the implementation for all 65 536 kinds.
use pocket_types::Kind;
use std::io::Write;
fn main() {
    let out = std::env::args().nth(1).expect("output path");
    let mut f = std::io::BufWriter::new(std::fs::File::create(out).unwrap());
    for k in 0..=65535u16 {
        let kind = Kind::from_u16(k);
        writeln!(f, "{{\"k\":{},\"repl\":{},\"eph\":{},\"param\":{}}}", k, kind.is_replaceable() as u8,
                 kind.is_ephemeral() as u8, kind.is_parameterized_replaceable() as u8).unwrap();
    }
}
