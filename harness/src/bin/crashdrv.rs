//! crashdrv: kill-point exploration (C13).
//!
//! For every history the LAST call is the interrupted one.  A reference run records the
//! projections before and after it; a faulted run takes an image of the durable files (event.map,
//! lmdb/data.mdb) at every yield point at every occurrence inside the last call; every image is
//! reopened, projected and driven by a continuation whose outcome is compared with the same
//! continuation on the reference store in the matching state.  One ndjson line per image.
//!
//! usage: crashdrv --universe U.json --hist H.ndjson --out T.ndjson [--filters F.json] [--tmp DIR]
//!
//! history line: {"id":n,"ops":[...],"cont":[...]}  ops as for storedrv plus {"k":"create"} (the
//! interrupted call is the creation of the store in an empty directory; must be the only op) and
//! {"k":"reopen"} as last op (interrupted opening of an existing store).

use serde_json::{json, Value};
use std::io::{BufRead, BufWriter, Write};
use std::path::{Path, PathBuf};
use std::sync::{Arc, Mutex};
use vh::{AFilter, Driver, Universe};

fn arg(args: &[String], name: &str) -> Option<String> {
    args.iter().position(|a| a == name).and_then(|i| args.get(i + 1).cloned())
}

struct ImgState {
    src: PathBuf,
    dst_root: PathBuf,
    images: Vec<(String, usize, PathBuf)>, // point, occurrence, dir
    counts: std::collections::HashMap<&'static str, usize>,
    max: usize,
}

fn install(src: &Path, dst_root: &Path, max: usize) -> Arc<Mutex<ImgState>> {
    let st = Arc::new(Mutex::new(ImgState {
        src: src.to_owned(),
        dst_root: dst_root.to_owned(),
        images: vec![],
        counts: Default::default(),
        max,
    }));
    let st2 = st.clone();
    pocket_db::verif::set_handler(Some(Arc::new(move |name: &'static str| {
        let mut g = st2.lock().unwrap();
        let occ = {
            let c = g.counts.entry(name).or_insert(0);
            *c += 1;
            *c
        };
        if g.images.len() >= g.max {
            return;
        }
        let dst = g.dst_root.join(format!("img{}", g.images.len()));
        if vh::image_dir(&g.src, &dst).is_ok() {
            g.images.push((name.to_string(), occ, dst));
        }
    })));
    st
}

fn do_op(d: &mut Driver, op: &Value) -> (String, i64) {
    let k = op["k"].as_str().unwrap_or("");
    let a = op.get("a").and_then(|v| v.as_i64()).unwrap_or(0);
    if d.store.is_none() {
        return ("closed".into(), -1);
    }
    match k {
        "store" => d.store_ev(a as usize),
        "remove" => (d.remove(a as usize), -1),
        "vanish" => (d.vanish(a as usize), -1),
        "reopen" => (d.reopen_mode(true), -1),
        "rebuild" => (d.rebuild(), -1),
        _ => ("ok".into(), -1),
    }
}

/// run the continuation on an opened driver; returns [[res, st], ...]
fn continuation(d: &mut Driver, cont: &[Value]) -> Value {
    let mut out = vec![];
    for op in cont {
        let (res, _off) = do_op(d, op);
        let st = d.project();
        out.push(json!({"res": res, "retr": st["retr"], "delIds": st["delIds"], "delAddr": st["delAddr"],
                        "find": st["find"], "ix": st["ix"], "corrupt": st["corrupt"]}));
    }
    Value::Array(out)
}

/// open a copy of an image and run the continuation there
fn cont_on_copy(u: &Universe, img: &Path, tmp: &Path, tag: &str, cont: &[Value]) -> Value {
    let dir = tmp.join(tag);
    let _ = std::fs::remove_dir_all(&dir);
    if vh::image_dir(img, &dir).is_err() {
        return json!([]);
    }
    let r = match Driver::open(u, &dir, false) {
        Ok(mut d) => {
            let v = continuation(&mut d, cont);
            d.close();
            v
        }
        Err(_) => json!([]),
    };
    let _ = std::fs::remove_dir_all(&dir);
    r
}

/// `crashdrv kill`: replay the prefix, then run the last call and SIGKILL this very process at the
/// given yield point / occurrence (a real kill: no destructors, no LMDB close, no unmap).
fn main_kill(args: &[String]) {
    let upath = arg(args, "--universe").expect("--universe");
    let dir = PathBuf::from(arg(args, "--dir").expect("--dir"));
    let case: Value = serde_json::from_str(&std::fs::read_to_string(arg(args, "--case").expect("--case")).unwrap()).unwrap();
    let ops: Vec<Value> = case["ops"].as_array().unwrap().clone();
    let point = case["point"].as_str().unwrap().to_string();
    let occ = case["occ"].as_u64().unwrap() as usize;
    vh::silence_panics();
    let u = Universe::load(&upath);
    let last = ops.last().unwrap().clone();
    let lk = last["k"].as_str().unwrap_or("").to_string();
    let counter = Arc::new(Mutex::new(0usize));
    let install_killer = |point: String, occ: usize, counter: Arc<Mutex<usize>>| {
        pocket_db::verif::set_handler(Some(Arc::new(move |name: &'static str| {
            if name == point {
                let mut c = counter.lock().unwrap();
                *c += 1;
                if *c == occ {
                    unsafe {
                        libc::kill(libc::getpid(), libc::SIGKILL);
                    }
                    std::thread::sleep(std::time::Duration::from_secs(10));
                }
            }
        })));
    };
    if lk == "create" {
        std::fs::write(dir.with_extension("offs"), "[]").unwrap();
        install_killer(point, occ, counter);
        let _ = Driver::open(&u, &dir, false);
        std::process::exit(3); // the point was not reached
    }
    let mut d = Driver::open(&u, &dir, false).expect("open");
    for op in &ops[..ops.len() - 1] {
        let _ = do_op(&mut d, op);
    }
    let offs: Vec<Value> = d.offs.iter().map(|(o, i)| json!([*o as i64, *i as i64])).collect();
    std::fs::write(dir.with_extension("offs"), serde_json::to_string(&offs).unwrap()).unwrap();
    install_killer(point, occ, counter);
    let _ = do_op(&mut d, &last);
    std::process::exit(3);
}

/// `crashdrv inspect`: open a store directory left behind by a killed process, project it, run the
/// continuation; prints one JSON object.
fn main_inspect(args: &[String]) {
    let upath = arg(args, "--universe").expect("--universe");
    let dir = PathBuf::from(arg(args, "--dir").expect("--dir"));
    let cont: Vec<Value> = serde_json::from_str(&std::fs::read_to_string(arg(args, "--cont").expect("--cont")).unwrap()).unwrap();
    let filters: Vec<AFilter> = match arg(args, "--filters") {
        Some(p) => serde_json::from_str(&std::fs::read_to_string(p).expect("filters file")).expect("filters json"),
        None => vec![],
    };
    vh::silence_panics();
    let u = Universe::load(&upath);
    let offs: Vec<(u64, usize)> = std::fs::read_to_string(dir.with_extension("offs"))
        .ok()
        .and_then(|t| serde_json::from_str::<Vec<(u64, usize)>>(&t).ok())
        .unwrap_or_default();
    let out = match Driver::open(&u, &dir, false) {
        Ok(mut d) => {
            d.offs = offs;
            let r = d.project();
            let q = if filters.is_empty() { json!([]) } else { d.probes(&filters) };
            let c = continuation(&mut d, &cont);
            d.close();
            json!({"opened": "ok", "r": r, "q": q, "cont": c})
        }
        Err(e) => json!({"opened": e, "r": {"open": 0}, "q": [], "cont": []}),
    };
    println!("{}", out);
}

fn main() {
    let args: Vec<String> = std::env::args().collect();
    if args.get(1).map(|s| s.as_str()) == Some("kill") {
        return main_kill(&args);
    }
    if args.get(1).map(|s| s.as_str()) == Some("inspect") {
        return main_inspect(&args);
    }
    let upath = arg(&args, "--universe").expect("--universe");
    let hpath = arg(&args, "--hist").expect("--hist");
    let opath = arg(&args, "--out").expect("--out");
    let tmp = arg(&args, "--tmp").unwrap_or_else(|| {
        if Path::new("/dev/shm").is_dir() { "/dev/shm".into() } else { "/tmp".into() }
    });
    let filters: Vec<AFilter> = match arg(&args, "--filters") {
        Some(p) => serde_json::from_str(&std::fs::read_to_string(p).expect("filters file")).expect("filters json"),
        None => vec![],
    };
    let max_images: usize = arg(&args, "--max-images").and_then(|s| s.parse().ok()).unwrap_or(200);
    vh::silence_panics();
    let u = Universe::load(&upath);
    let hf = std::io::BufReader::new(std::fs::File::open(&hpath).expect("hist file"));
    let mut out = BufWriter::new(std::fs::File::create(&opath).expect("out file"));
    let empty_st = json!({"open": 0, "retr": [], "corrupt": [], "delIds": [], "delAddr": [], "find": [], "ix": [],
                          "end": -1, "flen": -1, "gen": 0, "offs": [], "extra": [], "bak": 0});

    for (hn, line) in hf.lines().enumerate() {
        let line = line.expect("read");
        if line.trim().is_empty() {
            continue;
        }
        let hv: Value = serde_json::from_str(&line).expect("history json");
        let hid = hv["id"].as_i64().unwrap_or(hn as i64);
        let ops: Vec<Value> = hv["ops"].as_array().expect("ops").clone();
        let cont: Vec<Value> = hv["cont"].as_array().cloned().unwrap_or_default();
        if ops.is_empty() {
            continue;
        }
        let last = ops.last().unwrap().clone();
        let lk = last["k"].as_str().unwrap_or("").to_string();
        let la = last.get("a").and_then(|v| v.as_i64()).unwrap_or(0);
        let td = tempfile::Builder::new().prefix("pvc").tempdir_in(&tmp).expect("tempdir");
        let root = td.path();

        // ---------------- reference run ----------------
        let rdir = root.join("ref");
        std::fs::create_dir(&rdir).unwrap();
        let (pre, post, res_ref, pre_img, post_img);
        if lk == "create" {
            // reference: an empty directory before, a freshly created store after
            pre_img = root.join("pre_img");
            std::fs::create_dir_all(&pre_img).unwrap();
            let mut d = Driver::open(&u, &rdir, false).expect("reference create");
            let p = d.project();
            pre = p.clone(); // the store that would have been created had nothing been there
            post = p;
            res_ref = "ok".to_string();
            post_img = root.join("post_img");
            vh::image_dir(&rdir, &post_img).unwrap();
            d.close();
        } else {
            let mut d = match Driver::open(&u, &rdir, false) {
                Ok(d) => d,
                Err(_) => continue,
            };
            for op in &ops[..ops.len() - 1] {
                let _ = do_op(&mut d, op);
            }
            pre = d.project();
            pre_img = root.join("pre_img");
            vh::image_dir(&rdir, &pre_img).unwrap();
            let (r, _) = do_op(&mut d, &last);
            res_ref = r;
            post = d.project();
            post_img = root.join("post_img");
            vh::image_dir(&rdir, &post_img).unwrap();
            d.close();
        }
        let cpre = if lk == "create" { cont_on_copy(&u, &post_img, root, "cpre", &cont) } else { cont_on_copy(&u, &pre_img, root, "cpre", &cont) };
        let cpost = cont_on_copy(&u, &post_img, root, "cpost", &cont);

        // ---------------- faulted run ----------------
        let fdir = root.join("flt");
        std::fs::create_dir(&fdir).unwrap();
        let imgroot = root.join("imgs");
        std::fs::create_dir(&imgroot).unwrap();
        let images: Vec<(String, usize, PathBuf)>;
        let mut known_offs: Vec<(u64, usize)> = vec![];
        if lk == "create" {
            let st = install(&fdir, &imgroot, max_images);
            let r = Driver::open(&u, &fdir, false);
            pocket_db::verif::set_handler(None);
            if let Ok(mut d) = r {
                d.close();
            }
            images = st.lock().unwrap().images.clone();
        } else {
            let mut d = match Driver::open(&u, &fdir, false) {
                Ok(d) => d,
                Err(_) => continue,
            };
            for op in &ops[..ops.len() - 1] {
                let _ = do_op(&mut d, op);
            }
            known_offs = d.offs.clone();
            let st = install(&fdir, &imgroot, max_images);
            let _ = do_op(&mut d, &last);
            pocket_db::verif::set_handler(None);
            images = st.lock().unwrap().images.clone();
            d.close();
        }

        // ---------------- inspect every image ----------------
        for (n, (point, occ, img)) in images.iter().enumerate() {
            let (opened, r_st, q, cont_r);
            match Driver::open(&u, img, false) {
                Ok(mut d) => {
                    opened = "ok".to_string();
                    d.offs = known_offs.clone();
                    r_st = d.project();
                    q = if filters.is_empty() { json!([]) } else { d.probes(&filters) };
                    cont_r = continuation(&mut d, &cont);
                    d.close();
                }
                Err(e) => {
                    opened = e;
                    r_st = empty_st.clone();
                    q = json!([]);
                    cont_r = json!([]);
                }
            }
            writeln!(out, "{}", json!({"h": hid, "n": n, "k": lk, "a": la, "res": res_ref, "point": point, "occ": occ,
                "opened": opened, "r": r_st, "pre": pre, "post": post, "cont": cont_r, "cpre": cpre, "cpost": cpost, "q": q})).unwrap();
        }
        drop(td);
    }
    out.flush().unwrap();
}
