//! jsondrv: conformance harness for C01 (event JSON parsing is faithful to an independent JSON
//! parser) and C02 (binary <-> JSON round trip is lossless, the binary form is canonical).
//!
//! Input: abstract documents emitted by TLC from spec/NostrJson.tla (one JSON record per line:
//! `d` = the document description, `expect`, `ntok`, `den` = what the document denotes).  Each is
//! concretised to bytes, parsed by `Event::from_json` (panics are data) and by serde_json (the
//! independent parser), and compared as the property says.  The spec's denotation is compared
//! with serde_json's reading first: a disagreement there is an error of the machinery (exit 2).
//!
//!   jsondrv --mode cases  --prop C01|C02 --cases F [--from a --to b] --out F [--seed S]
//!   jsondrv --mode sweep  --prop C01|C02 --scalars quick|all [--from a --to b] --out F [--seed S]
//!   jsondrv --mode replay --prop C01|C02 --file REPLAY.json --out F
//!   --stride n --offset k: only cases i with i % n == k;  --dry: render the documents only;
//!   --skip i,j,..: leave out these items (case indices / scalar values) - used after a crash or hang:
//!   `<out>.progress` names the item that was being executed (exit 3 = watchdog)
//!
//! Output: ndjson; {"t":"viol",...} per violation (first 3 per key in full), {"t":"toolerr",...},
//! and a final {"t":"summary",...}.  Exit 0 unless the harness itself failed (2).

use pocket_types::{Event, Id, Kind, Pubkey, Sig, Tags, Time};
use serde_json::{json, Map, Value};
use std::collections::hash_map::DefaultHasher;
use std::collections::{BTreeMap, HashSet};
use std::hash::{Hash, Hasher};
use std::io::{BufRead, BufWriter, Write};
use std::panic::{catch_unwind, AssertUnwindSafe};
use std::sync::atomic::{AtomicBool, AtomicU64, Ordering};

type TagsV = Vec<Vec<Vec<u8>>>;

// Progress marker and watchdog: the index (case line / scalar value) being executed is written to
// `<out>.progress` before the code under test runs, so that a crash of the process costs one item;
// a watchdog thread ends the process (exit 3) when one item does not return within WATCHDOG_SECS.
static TICK: AtomicU64 = AtomicU64::new(0);
static ACTIVE: AtomicBool = AtomicBool::new(false);
const WATCHDOG_SECS: u64 = 5;

struct Progress(std::fs::File);
impl Progress {
    fn at(&self, i: u64) {
        use std::os::unix::fs::FileExt;
        let _ = self.0.write_at(format!("{:<20}", i).as_bytes(), 0);
        TICK.fetch_add(1, Ordering::Relaxed);
    }
}

fn start_watchdog() {
    std::thread::spawn(|| {
        let mut last = u64::MAX;
        let mut since = std::time::Instant::now();
        loop {
            std::thread::sleep(std::time::Duration::from_millis(200));
            let t = TICK.load(Ordering::Relaxed);
            if t != last || !ACTIVE.load(Ordering::Relaxed) {
                last = t;
                since = std::time::Instant::now();
            } else if since.elapsed().as_secs() >= WATCHDOG_SECS {
                std::process::exit(3);
            }
        }
    });
}

fn arg(args: &[String], name: &str) -> Option<String> {
    args.iter().position(|a| a == name).and_then(|i| args.get(i + 1).cloned())
}

// ---------------------------------------------------------------------------------------------
// tables owned by the harness: what the spec's names stand for
// ---------------------------------------------------------------------------------------------

fn class_cp(c: &str) -> Option<u32> {
    Some(match c {
        "safe" => 0x6A,
        "ltrn" => 0x6E,
        "sp" => 0x20,
        "rbrk" => 0x5D,
        "rbrc" => 0x7D,
        "quote" => 0x22,
        "bslash" => 0x5C,
        "slash" => 0x2F,
        "bs" => 0x08,
        "ff" => 0x0C,
        "lf" => 0x0A,
        "cr" => 0x0D,
        "tab" => 0x09,
        "nul" => 0x00,
        "c0" => 0x1F,
        "del" => 0x7F,
        "b2" => 0xE9,
        "b3" => 0x20AC,
        "d7ff" => 0xD7FF,
        "e000" => 0xE000,
        "ffff" => 0xFFFF,
        "b4" => 0x1F600,
        "p2" => 0x20BB7,
        "p14" => 0xE0067,
        "max" => 0x10FFFF,
        _ => return None,
    })
}

fn utf8(cp: u32, out: &mut Vec<u8>) {
    let ch = char::from_u32(cp).expect("scalar value");
    let mut b = [0u8; 4];
    out.extend_from_slice(ch.encode_utf8(&mut b).as_bytes());
}

fn short_escape(cp: u32) -> Option<u8> {
    Some(match cp {
        0x22 => b'"',
        0x5C => b'\\',
        0x2F => b'/',
        0x08 => b'b',
        0x0C => b'f',
        0x0A => b'n',
        0x0D => b'r',
        0x09 => b't',
        _ => return None,
    })
}

fn lit_legal(cp: u32) -> bool {
    cp >= 0x20 && cp != 0x22 && cp != 0x5C
}

/// the JSON spelling of one character; None = this spelling does not exist for it
fn spell(cp: u32, sp: &str, out: &mut Vec<u8>) -> Option<()> {
    match sp {
        "lit" => {
            if !lit_legal(cp) {
                return None;
            }
            utf8(cp, out);
        }
        "sh" => {
            let e = short_escape(cp)?;
            out.push(b'\\');
            out.push(e);
        }
        "ul" | "uU" => {
            if cp > 0xFFFF || (0xD800..=0xDFFF).contains(&cp) {
                return None;
            }
            let s = if sp == "ul" { format!("\\u{:04x}", cp) } else { format!("\\u{:04X}", cp) };
            out.extend_from_slice(s.as_bytes());
        }
        "pl" | "pU" => {
            // an escaped UTF-16 surrogate pair (what ASCII-only JSON encoders write for characters beyond the BMP)
            if cp <= 0xFFFF {
                return None;
            }
            let v = cp - 0x10000;
            let (hi, lo) = (0xD800 + (v >> 10), 0xDC00 + (v & 0x3FF));
            let s = if sp == "pl" { format!("\\u{:04x}\\u{:04x}", hi, lo) } else { format!("\\u{:04X}\\u{:04X}", hi, lo) };
            out.extend_from_slice(s.as_bytes());
        }
        _ => return None,
    }
    Some(())
}

/// integer shapes: (text, exact value if it fits u64, numeric value for the "may" spellings)
fn int_shape(name: &str) -> Option<(&'static str, Option<u64>, f64)> {
    Some(match name {
        "k0" | "t0" => ("0", Some(0), 0.0),
        "k1" | "t1" => ("1", Some(1), 1.0),
        "k65535" => ("65535", Some(65535), 65535.0),
        "k65536" => ("65536", Some(65536), 65536.0),
        "k99999" => ("99999", Some(99999), 99999.0),
        "k2p32" | "t2p32" => ("4294967296", Some(1 << 32), 4294967296.0),
        "k2p32p1" => ("4294967297", Some((1 << 32) + 1), 4294967297.0),
        "k2p32p65535" => ("4295032831", Some((1 << 32) + 65535), 4295032831.0),
        "k10p20" | "t10p20" => ("100000000000000000000", None, 1e20),
        "kfrac" | "tfrac" => ("1.0", None, 1.0),
        "kfrac5" => ("1.5", None, 1.5),
        "tfrac5" => ("1700000000.5", None, 1700000000.5),
        "kexp" => ("1e0", None, 1.0),
        "kneg" | "tneg" => ("-1", None, -1.0),
        "t2p53p1" => ("9007199254740993", Some((1 << 53) + 1), 9007199254740993.0),
        "t2p63" => ("9223372036854775808", Some(1 << 63), 9223372036854775808.0),
        "t10p19" => ("10000000000000000000", Some(10_000_000_000_000_000_000), 1e19),
        "t2p64m1" => ("18446744073709551615", Some(u64::MAX), 18446744073709551615.0),
        "t2p64" => ("18446744073709551616", None, 18446744073709551616.0),
        "t2p64p1" => ("18446744073709551617", None, 18446744073709551617.0),
        "t2p128" => ("340282366920938463463374607431768211456", None, 3.402823669209385e38),
        "texp" => ("1e3", None, 1000.0),
        _ => return None,
    })
}

fn unk_key(name: &str) -> Option<&'static str> {
    Some(match name {
        "plain" => "extra",
        "empty" => "",
        "esc_quote" => "a\\\"b",
        "esc_u" => "\\u0078y",
        "esc_bslash_end" => "k\\\\",
        "brackets" => "a]}b",
        "unicode" => "\u{43a}\u{43b}\u{44e}\u{447}",
        "upper_ID" => "ID",
        "p_i" => "i",
        "p_ids" => "ids",
        "p_k" => "k",
        "p_kindx" => "kindx",
        "p_created_at_" => "created_at_",
        "p_contentx" => "contentx",
        "esc_long_u" => "client_\\u006eame_and_version",
        "esc_long_tab" => "seventeen\\tbytes no",
        "esc_long_quote" => "a rather long \\\"quoted\\\" member name",
        "l_comment" => "comment",
        "l_context" => "context",
        "l_keys" => "keys",
        "l_kins" => "kins",
        "l_tabs" => "tabs",
        "l_ix" => "ix",
        "l_sag" => "sag",
        "l_pupkey" => "pupkey",
        "l_created_by" => "created_by",
        "p_conten" => "conten",
        "p_ta" => "ta",
        "p_sigs" => "sigs",
        "p_pubkeys" => "pubkeys",
        _ => return None,
    })
}

fn unk_val(name: &str) -> Option<&'static str> {
    Some(match name {
        "str" => "\"v\"",
        "str_empty" => "\"\"",
        "str_brackets" => "\"]}[{\"",
        "str_quote" => "\"a\\\"b\"",
        "str_bslash_end" => "\"a\\\\\"",
        "str_looks_member" => "\"\\\",\\\"id\\\":\\\"\"",
        "str_unicode" => "\"\u{e9}\u{1F600}\\u20ac\"",
        "int0" => "0",
        "int" => "7",
        "int_big" => "12345678901234567890123",
        "neg" => "-1",
        "negzero" => "-0",
        "frac" => "1.5",
        "frac0" => "0.5",
        "exp" => "1e5",
        "exp_signed" => "-1.5E+3",
        "exp_neg" => "2e-2",
        "exp_zero" => "0e0",
        "exp_negzero" => "-0E5",
        "exp_zero_neg" => "0e-7",
        "arr_exp_zero" => "[1,0e3]",
        "obj_exp_zero" => "{\"a\":{\"b\":-0E-2}}",
        "frac_zero_exp" => "0.0e5",
        "true" => "true",
        "false" => "false",
        "null" => "null",
        "arr_empty" => "[]",
        "obj_empty" => "{}",
        "arr0" => "[0]",
        "obj0" => "{\"a\":0}",
        "arr_nested3" => "[[[]]]",
        "obj_nested3" => "{\"a\":{\"b\":{\"c\":1}}}",
        "arr_mixed" => "[true,false,null,0,\"x\",{},[]]",
        "arr_strs" => "[\"]\",\"}\",\"\\\"\",\"[\",\"{\"]",
        "obj_strs" => "{\"k]\":\"}\\\"\",\"]\":\"[\"}",
        "arr_obj_arr" => "[{\"a\":[{\"b\":[0]}]}]",
        "obj_arr" => "{\"a\":[1,2,{\"b\":null}],\"c\":\"d\"}",
        "arr_ws" => "[ 1 , [ ] , { } ]",
        "obj_ws" => "{ \"a\" : 1 , \"b\" : [ ] }",
        "obj_known_keys" => "{\"id\":\"x\",\"kind\":1,\"tags\":[[\"a\"]],\"content\":\"c\"}",
        _ => return None,
    })
}

fn ws_class(name: &str) -> Option<&'static [u8]> {
    Some(match name {
        "SP" => b" ",
        "TAB" => b"\t",
        "LF" => b"\n",
        "CR" => b"\r",
        "MIX" => b" \t\r\n  ",
        _ => return None,
    })
}

fn trail(name: &str) -> Option<&'static [u8]> {
    Some(match name {
        "none" => b"",
        "sp" => b" ",
        "lf" => b"\n",
        "junk" => b"xyz",
        "brace" => b"}",
        "comma" => b",{\"id\":1}",
        "obj" => b"{\"id\":\"00\",\"kind\":7}",
        _ => return None,
    })
}

/// four fixed sets of id / pubkey / sig values
fn hexvals(set: u64) -> ([u8; 32], [u8; 32], [u8; 64]) {
    let mut id = [0u8; 32];
    let mut pk = [0u8; 32];
    let mut sig = [0u8; 64];
    match set % 4 {
        0 => {
            for i in 0..32 {
                id[i] = (i as u8).wrapping_mul(37).wrapping_add(0xA9);
                pk[i] = (i as u8).wrapping_mul(101).wrapping_add(0xEE);
            }
            for i in 0..64 {
                sig[i] = (i as u8).wrapping_mul(59).wrapping_add(0x4D);
            }
        }
        1 => {
            pk = [0xFF; 32];
            sig[63] = 1;
        }
        2 => {
            id = [0xFF; 32];
            for i in 0..32 {
                pk[i] = [0xAB, 0xCD, 0xEF, 0xFA, 0xDE, 0xBC][i % 6];
            }
            sig = [0xFF; 64];
        }
        _ => {
            for i in 0..32 {
                id[i] = [0x0A, 0xB0, 0x1C, 0xD2, 0x9E, 0xF8][i % 6];
                pk[i] = 0x10 + i as u8;
            }
            for i in 0..64 {
                sig[i] = [0xAA, 0x0F, 0xF0, 0x5E][i % 4];
            }
        }
    }
    (id, pk, sig)
}

fn hex_cased(b: &[u8], case: &str) -> String {
    let s = vh::hex(b);
    match case {
        "upper" => s.to_uppercase(),
        "mixed" => s
            .chars()
            .enumerate()
            .map(|(i, c)| if i % 2 == 0 { c.to_ascii_uppercase() } else { c })
            .collect(),
        _ => s,
    }
}

// ---------------------------------------------------------------------------------------------
// a concrete document with what it is expected to denote
// ---------------------------------------------------------------------------------------------

#[derive(Clone, Debug)]
struct Expected {
    id: [u8; 32],
    pk: [u8; 32],
    sig: [u8; 64],
    kind: Option<u64>, // exact value when written as an integer that fits u64
    kind_num: f64,
    ts: Option<u64>,
    ts_num: f64,
    tags: TagsV,
    content: Vec<u8>,
}

#[derive(Clone, Debug)]
struct Doc {
    bytes: Vec<u8>,
    end: usize, // offset just past the closing brace
    expect: String,
    class: String, // input class, for violation keys
    fam: String,
    exp: Expected,
    buf: String,   // output buffer class: large / fit / roomy / small, or "len:<n>" (replay of one length)
    need: usize,   // Size(doc) according to the spec (0 = not stated)
}

fn s<'a>(v: &'a Value, k: &str) -> Result<&'a str, String> {
    v.get(k).and_then(|x| x.as_str()).ok_or_else(|| format!("case field {} missing", k))
}

fn render_string(chars: &Value, text: &mut Vec<u8>, val: &mut Vec<u8>) -> Result<(), String> {
    text.push(b'"');
    for ch in chars.as_array().ok_or("string is not a list")? {
        let c = ch.get(0).and_then(|x| x.as_str()).ok_or("char class")?;
        let sp = ch.get(1).and_then(|x| x.as_str()).ok_or("char spelling")?;
        let cp = class_cp(c).ok_or_else(|| format!("unknown character class {}", c))?;
        spell(cp, sp, text).ok_or_else(|| format!("spelling {} illegal for class {}", sp, c))?;
        utf8(cp, val);
    }
    text.push(b'"');
    Ok(())
}

fn den_string(classes: &Value) -> Result<Vec<u8>, String> {
    let mut v = vec![];
    for c in classes.as_array().ok_or("den string")? {
        let cp = class_cp(c.as_str().ok_or("den class")?).ok_or("den class unknown")?;
        utf8(cp, &mut v);
    }
    Ok(v)
}

fn big_tags(shape: &str) -> Result<TagsV, String> {
    let one = |l: usize| vec![vec![b"x".to_vec(), vec![b'a'; l]]];
    Ok(match shape {
        "s65534" => one(65521),
        "s65535" => one(65522),
        "s65536" => one(65523),
        "n16382" => vec![vec![]; 16382],
        _ => return Err(format!("unknown tags size shape {}", shape)),
    })
}

fn tags_json(tags: &TagsV) -> Vec<u8> {
    // only used for the symbolic big shapes (ASCII strings)
    let mut o = vec![b'['];
    for (i, t) in tags.iter().enumerate() {
        if i > 0 {
            o.push(b',');
        }
        o.push(b'[');
        for (j, st) in t.iter().enumerate() {
            if j > 0 {
                o.push(b',');
            }
            o.push(b'"');
            o.extend_from_slice(st);
            o.push(b'"');
        }
        o.push(b']');
    }
    o.push(b']');
    o
}

/// Abstract case (one line of TLC output) -> bytes + expectation.  Err = the spec and the harness
/// tables disagree (machinery error).
fn concretise(case: &Value, line: &str) -> Result<Doc, String> {
    let d = case.get("d").ok_or("no d")?;
    let den = case.get("den").ok_or("no den")?;
    let expect = s(case, "expect")?.to_string();
    let ntok = case.get("ntok").and_then(|x| x.as_u64()).ok_or("ntok")? as usize;
    let fam = s(d, "fam")?.to_string();
    let mut h = DefaultHasher::new();
    line.hash(&mut h);
    let (id, pk, sig) = hexvals(h.finish());
    let hexcase = s(d, "hex")?;
    let keyesc = s(d, "keyesc")?;
    let tsize = s(d, "tsize")?;
    let csize = s(d, "csize")?;

    // tokens: (kind, text)
    let mut toks: Vec<(&'static str, Vec<u8>)> = vec![("{", b"{".to_vec())];
    let order: Vec<&str> = d.get("order").and_then(|x| x.as_array()).ok_or("order")?.iter()
        .map(|x| x.as_str().unwrap_or("?")).collect();
    if order.len() != 7 {
        return Err("order is not 7 members".into());
    }
    let unk = d.get("unk").ok_or("unk")?;
    let upos = unk.get("pos").and_then(|x| x.as_u64()).ok_or("unk.pos")? as usize;
    let mut members: Vec<&str> = order.clone();
    if upos != 8 {
        if upos > 7 {
            return Err("unk.pos out of range".into());
        }
        members.insert(upos, "?");
    }
    let (kind_text, kind_v, kind_num) = int_shape(s(d, "kind")?).ok_or("unknown kind shape")?;
    let (ts_text, ts_v, ts_num) = int_shape(s(d, "ts")?).ok_or("unknown created_at shape")?;
    let mut exp_tags: TagsV = vec![];
    let mut exp_content: Vec<u8> = vec![];
    for (mi, m) in members.iter().enumerate() {
        if mi > 0 {
            toks.push((",", b",".to_vec()));
        }
        if *m == "?" {
            let k = unk_key(s(unk, "key")?).ok_or("unknown key shape")?;
            let v = unk_val(s(unk, "val")?).ok_or("unknown value shape")?;
            toks.push(("ukey", format!("\"{}\"", k).into_bytes()));
            toks.push((":", b":".to_vec()));
            toks.push(("uval", v.as_bytes().to_vec()));
            continue;
        }
        let keytext = if keyesc == *m {
            // first letter as a \u escape
            let first = m.as_bytes()[0];
            format!("\"\\u{:04x}{}\"", first, &m[1..])
        } else {
            format!("\"{}\"", m)
        };
        toks.push(("key", keytext.into_bytes()));
        toks.push((":", b":".to_vec()));
        match *m {
            "id" => toks.push(("hex", format!("\"{}\"", hex_cased(&id, hexcase)).into_bytes())),
            "pubkey" => toks.push(("hex", format!("\"{}\"", hex_cased(&pk, hexcase)).into_bytes())),
            "sig" => toks.push(("hex", format!("\"{}\"", hex_cased(&sig, hexcase)).into_bytes())),
            "kind" => toks.push(("num", kind_text.as_bytes().to_vec())),
            "created_at" => toks.push(("num", ts_text.as_bytes().to_vec())),
            "content" => {
                if csize == "small" {
                    let mut t = vec![];
                    render_string(d.get("content").ok_or("content")?, &mut t, &mut exp_content)?;
                    toks.push(("str", t));
                } else {
                    let n: usize = csize[1..].parse().map_err(|_| "content size shape")?;
                    exp_content = (0..n).map(|i| b'a' + (i % 26) as u8).collect();
                    let mut t = vec![b'"'];
                    t.extend_from_slice(&exp_content);
                    t.push(b'"');
                    toks.push(("str", t));
                }
            }
            "tags" => {
                if tsize == "small" {
                    toks.push(("[", b"[".to_vec()));
                    for (ti, tag) in d.get("tags").and_then(|x| x.as_array()).ok_or("tags")?.iter().enumerate() {
                        if ti > 0 {
                            toks.push((",", b",".to_vec()));
                        }
                        toks.push(("[", b"[".to_vec()));
                        let mut et = vec![];
                        for (si, st) in tag.as_array().ok_or("tag")?.iter().enumerate() {
                            if si > 0 {
                                toks.push((",", b",".to_vec()));
                            }
                            let mut t = vec![];
                            let mut v = vec![];
                            render_string(st, &mut t, &mut v)?;
                            toks.push(("str", t));
                            et.push(v);
                        }
                        toks.push(("]", b"]".to_vec()));
                        exp_tags.push(et);
                    }
                    toks.push(("]", b"]".to_vec()));
                } else {
                    exp_tags = big_tags(tsize)?;
                    toks.push(("bigtags", tags_json(&exp_tags)));
                }
            }
            other => return Err(format!("unknown member {}", other)),
        }
    }
    toks.push(("}", b"}".to_vec()));
    if toks.len() != ntok {
        return Err(format!("token count: spec says {}, harness rendered {}", ntok, toks.len()));
    }

    // the spec's denotation must be what the harness rendered
    if csize == "small" && den_string(den.get("content").ok_or("den.content")?)? != exp_content {
        return Err("spec denotation of content differs from the rendering".into());
    }
    if tsize == "small" {
        let dt = den.get("tags").and_then(|x| x.as_array()).ok_or("den.tags")?;
        let mut v: TagsV = vec![];
        for t in dt {
            let mut tv = vec![];
            for st in t.as_array().ok_or("den tag")? {
                tv.push(den_string(st)?);
            }
            v.push(tv);
        }
        if v != exp_tags {
            return Err("spec denotation of tags differs from the rendering".into());
        }
    }
    if s(den, "kind")? != s(d, "kind")? || s(den, "ts")? != s(d, "ts")? {
        return Err("spec denotation of kind/created_at differs from the document".into());
    }

    // whitespace: before token g (1-based)
    let mut wsb: Vec<Vec<u8>> = vec![vec![]; toks.len() + 1];
    let wsall = s(d, "wsall")?;
    if wsall != "none" {
        let w = ws_class(wsall).ok_or("ws class")?;
        for g in 1..=toks.len() {
            wsb[g].extend_from_slice(w);
        }
    }
    let mut wsdesc = String::new();
    for w in d.get("ws").and_then(|x| x.as_array()).ok_or("ws")? {
        let g = w.get(0).and_then(|x| x.as_u64()).ok_or("ws gap")? as usize;
        let c = w.get(1).and_then(|x| x.as_str()).ok_or("ws class")?;
        if g < 1 || g > toks.len() {
            return Err(format!("ws gap {} out of range", g));
        }
        wsb[g].extend_from_slice(ws_class(c).ok_or("ws class")?);
        let prev = if g >= 2 { toks[g - 2].0 } else { "start" };
        if !wsdesc.is_empty() {
            wsdesc.push('+');
        }
        wsdesc.push_str(&format!("{}:{}|{}", c, prev, toks[g - 1].0));
    }
    let mut bytes = vec![];
    for (i, (_, t)) in toks.iter().enumerate() {
        bytes.extend_from_slice(&wsb[i + 1]);
        bytes.extend_from_slice(t);
    }
    let end = bytes.len();
    let tr = s(d, "trail")?;
    bytes.extend_from_slice(trail(tr).ok_or("trail")?);

    // input class (violation keys)
    let cb = order.iter().position(|m| *m == "content") < order.iter().position(|m| *m == "tags");
    let strdesc = |v: &Value| -> String {
        v.as_array().map(|a| a.iter().map(|c| format!("{}/{}", c[0].as_str().unwrap_or("?"), c[1].as_str().unwrap_or("?")))
            .collect::<Vec<_>>().join("+")).unwrap_or_default()
    };
    let class = match fam.as_str() {
        "F1" => format!("order:{}:trail={}", if cb { "content_before_tags" } else { "tags_before_content" }, tr),
        // (the key shape is in the replay file; only the empty key gets a class of its own)
        "F2" => format!("unknown_member:value={}{}{}", s(unk, "val")?,
            if s(unk, "key")? == "empty" { ":key=empty" } else { "" },
            if upos == 7 { ":last" } else { "" }),
        "F3a" | "F3b" | "F3d" => format!("whitespace:{}", wsdesc),
        "F3c" => format!("whitespace:every_gap:{}", wsall),
        "F3e" => format!("whitespace:unknown_member:{}", wsdesc),
        "F4" => {
            let k = s(d, "kind")?;
            let t = s(d, "ts")?;
            let ks = &k[1..];
            let tsn = &t[1..];
            let krej = matches!(k, "k65536" | "k99999" | "k2p32" | "k2p32p1" | "k2p32p65535" | "k10p20");
            let trej = matches!(t, "t2p64" | "t2p64p1" | "t10p20" | "t2p128");
            let kmay = matches!(k, "kfrac" | "kfrac5" | "kexp" | "kneg");
            let tmay = matches!(t, "tfrac" | "tfrac5" | "texp" | "tneg");
            // name the member that decides the expectation
            if krej {
                format!("kind={}", ks)
            } else if trej {
                format!("created_at={}", tsn)
            } else if kmay {
                format!("kind={}", ks)
            } else if tmay {
                format!("created_at={}", tsn)
            } else {
                format!("kind={}:created_at={}", ks, tsn)
            }
        }
        "F5" | "F5c" => {
            if d.get("content") != Some(&json!([["safe", "lit"], ["quote", "sh"], ["sp", "lit"], ["b3", "lit"]])) {
                format!("string:content:{}:{}", strdesc(&d["content"]), if cb { "deferred" } else { "direct" })
            } else {
                format!("string:tag:{}", strdesc(&d["tags"][0][1]))
            }
        }
        "F6" => format!("tags_shape:[{}]", exp_tags.iter().map(|t| t.len().to_string()).collect::<Vec<_>>().join(",")),
        "F7" => format!("size:tags={}:content={}", tsize, csize),
        "F8" => format!("outside_domain:keyesc={}:hex={}", keyesc, hexcase),
        "F10" => format!("buffer:{}:{}", if cb { "content_before_tags" } else { "tags_before_content" }, d.get("label").and_then(|x| x.as_str()).unwrap_or("")),
        "F11" => format!("minimal:kind={}:ts={}", s(d, "kind")?, s(d, "ts")?),
        _ => format!("mix:{}", if cb { "content_before_tags" } else { "tags_before_content" }),
    };
    Ok(Doc {
        bytes,
        end,
        expect,
        class,
        fam,
        exp: Expected { id, pk, sig, kind: kind_v, kind_num, ts: ts_v, ts_num, tags: exp_tags, content: exp_content },
        buf: d.get("buf").and_then(|x| x.as_str()).unwrap_or("large").to_string(),
        need: case.get("need").and_then(|x| x.as_u64()).unwrap_or(0) as usize,
    })
}

// ---------------------------------------------------------------------------------------------
// running the code under test
// ---------------------------------------------------------------------------------------------

#[derive(Debug, Clone)]
struct Obs {
    consumed: usize,
    bytes: Vec<u8>,
    id: [u8; 32],
    pk: [u8; 32],
    sig: [u8; 64],
    kind: u16,
    ts: u64,
    tags: Result<TagsV, String>,
    tags_gs: bool, // get_string agrees with the iterators
    content: Vec<u8>,
}

#[derive(Debug, Clone)]
enum Outcome {
    Ok(Box<Obs>),
    Err(String),
    Panic,          // from_json panicked
    AccessorPanic(usize, Vec<u8>), // accepted, an accessor panicked (consumed, bytes if readable)
}

fn read_tags(t: &Tags) -> (TagsV, bool) {
    let mut v: TagsV = vec![];
    for tag in t.iter() {
        v.push(tag.map(|x| x.to_vec()).collect());
    }
    let mut ok = t.count() == v.len();
    for (i, tag) in v.iter().enumerate() {
        for (j, st) in tag.iter().enumerate() {
            if t.get_string(i, j) != Some(st.as_slice()) {
                ok = false;
            }
        }
        if t.get_string(i, tag.len()).is_some() {
            ok = false;
        }
    }
    (v, ok)
}

fn observe(ev: &Event, consumed: usize) -> Obs {
    let id: [u8; 32] = ev.id().as_slice().try_into().unwrap();
    let pk: [u8; 32] = *ev.pubkey().as_bytes();
    let sig: [u8; 64] = ev.sig().as_slice().try_into().unwrap();
    let (tags, gs) = match ev.tags() {
        Ok(t) => {
            let (v, ok) = read_tags(t);
            (Ok(v), ok)
        }
        Err(e) => (Err(format!("{}", e.inner)), true),
    };
    Obs {
        consumed,
        bytes: ev.as_bytes().to_vec(),
        id,
        pk,
        sig,
        kind: ev.kind().as_u16(),
        ts: ev.created_at().as_u64(),
        tags,
        tags_gs: gs,
        content: ev.content().to_vec(),
    }
}

fn parse(json: &[u8], buf: &mut [u8]) -> Outcome {
    let r = catch_unwind(AssertUnwindSafe(|| match Event::from_json(json, buf) {
        Ok((c, ev)) => Ok((c, ev.as_bytes().len())),
        Err(e) => Err(format!("{}", e.inner)),
    }));
    match r {
        Err(_) => Outcome::Panic,
        Ok(Err(e)) => Outcome::Err(e),
        Ok(Ok((consumed, len))) => {
            let b: &[u8] = &buf[..len.min(buf.len())];
            let r2 = catch_unwind(AssertUnwindSafe(|| {
                let ev = unsafe { Event::delineate(b) }.map_err(|e| format!("{}", e.inner))?;
                Ok::<Obs, String>(observe(ev, consumed))
            }));
            match r2 {
                Ok(Ok(o)) => Outcome::Ok(Box::new(o)),
                _ => Outcome::AccessorPanic(consumed, b.to_vec()),
            }
        }
    }
}

fn fill(buf: &mut Vec<u8>, len: usize, how: &str, seed: u64) {
    buf.clear();
    match how {
        "00" => buf.resize(len, 0),
        "ff" => buf.resize(len, 0xFF),
        "a5" => buf.resize(len, 0xA5),
        _ => {
            let mut x = seed | 1;
            buf.extend((0..len).map(|_| {
                x ^= x << 13;
                x ^= x >> 7;
                x ^= x << 17;
                (x >> 24) as u8
            }));
        }
    }
}

// ---------------------------------------------------------------------------------------------
// the independent parser
// ---------------------------------------------------------------------------------------------

#[derive(Debug, Clone)]
struct Indep {
    end: usize,
    id: Vec<u8>,
    pk: Vec<u8>,
    sig: Vec<u8>,
    kind: Value,
    ts: Value,
    tags: TagsV,
    content: Vec<u8>,
}

fn unhex_opt(sv: &str) -> Option<Vec<u8>> {
    if sv.len() % 2 != 0 || !sv.bytes().all(|c| c.is_ascii_hexdigit()) {
        return None;
    }
    Some(vh::unhex(sv))
}

fn indep(bytes: &[u8]) -> Result<Indep, String> {
    let mut it = serde_json::Deserializer::from_slice(bytes).into_iter::<Value>();
    let v = match it.next() {
        Some(Ok(v)) => v,
        Some(Err(e)) => return Err(format!("serde_json: {}", e)),
        None => return Err("serde_json: no value".into()),
    };
    let end = it.byte_offset();
    let o: &Map<String, Value> = v.as_object().ok_or("not an object")?;
    let hexf = |k: &str| -> Result<Vec<u8>, String> {
        unhex_opt(o.get(k).and_then(|x| x.as_str()).ok_or(format!("member {} missing / not a string", k))?)
            .ok_or(format!("member {} is not hex", k))
    };
    let mut tags: TagsV = vec![];
    for t in o.get("tags").and_then(|x| x.as_array()).ok_or("tags missing / not an array")? {
        let mut tv = vec![];
        for st in t.as_array().ok_or("tag is not an array")? {
            tv.push(st.as_str().ok_or("tag element is not a string")?.as_bytes().to_vec());
        }
        tags.push(tv);
    }
    Ok(Indep {
        end,
        id: hexf("id")?,
        pk: hexf("pubkey")?,
        sig: hexf("sig")?,
        kind: o.get("kind").cloned().ok_or("kind missing")?,
        ts: o.get("created_at").cloned().ok_or("created_at missing")?,
        tags,
        content: o.get("content").and_then(|x| x.as_str()).ok_or("content missing / not a string")?.as_bytes().to_vec(),
    })
}

/// spec/harness expectation vs the independent parser: any difference is a machinery error
fn cross_check(doc: &Doc, ind: &Indep) -> Result<(), String> {
    let e = &doc.exp;
    if ind.end != doc.end {
        return Err(format!("closing brace offset: harness {}, serde_json {}", doc.end, ind.end));
    }
    if ind.id != e.id || ind.pk != e.pk || ind.sig != e.sig {
        return Err("id/pubkey/sig differ between spec and serde_json".into());
    }
    if ind.content != e.content {
        return Err("content differs between spec and serde_json".into());
    }
    if ind.tags != e.tags {
        return Err("tags differ between spec and serde_json".into());
    }
    for (name, v, ev, en) in [("kind", &ind.kind, e.kind, e.kind_num), ("created_at", &ind.ts, e.ts, e.ts_num)] {
        if !v.is_number() {
            return Err(format!("{} is not a number for serde_json", name));
        }
        match ev {
            Some(x) => {
                if v.as_u64() != Some(x) {
                    return Err(format!("{}: spec {} serde_json {}", name, x, v));
                }
            }
            None => {
                let f = v.as_f64().unwrap_or(f64::NAN);
                if !(f == en || ((f - en) / en).abs() < 1e-12) {
                    return Err(format!("{}: spec {} serde_json {}", name, en, v));
                }
            }
        }
    }
    Ok(())
}

fn num_agrees(v: &Value, got: u64) -> bool {
    if let Some(x) = v.as_u64() {
        return x == got;
    }
    // a fraction / exponent spelling, or an integer beyond u64: agree numerically and exactly
    match v.as_f64() {
        Some(f) => f >= 0.0 && f.fract() == 0.0 && f < 18446744073709551616.0 && (f as u64) == got && (got as f64) == f,
        None => false,
    }
}

// ---------------------------------------------------------------------------------------------
// verdict collection
// ---------------------------------------------------------------------------------------------

struct Sink {
    out: BufWriter<std::fs::File>,
    counts: BTreeMap<String, u64>,
    toolerrs: u64,
}

impl Sink {
    /// the first three violations of a key are written out in full; later ones are only counted
    fn full(&mut self, key: &str) -> bool {
        match self.counts.get_mut(key) {
            Some(n) if *n >= 3 => {
                *n += 1;
                true
            }
            _ => false,
        }
    }
    fn viol(&mut self, key: String, what: String, replay: Value) {
        let n = self.counts.entry(key.clone()).or_insert(0);
        *n += 1;
        if *n <= 3 {
            writeln!(self.out, "{}", json!({"t": "viol", "key": key, "what": what, "replay": replay})).unwrap();
        }
    }
    fn toolerr(&mut self, msg: String, doc_hex: String) {
        self.toolerrs += 1;
        if self.toolerrs <= 5 {
            writeln!(self.out, "{}", json!({"t": "toolerr", "msg": msg, "doc_hex": doc_hex})).unwrap();
        }
    }
}

fn replay_of(prop: &str, doc: &Doc, extra: Value) -> Value {
    json!({"kind": "event_json", "property": prop, "doc_hex": vh::hex(&doc.bytes), "end": doc.end, "expect": doc.expect,
           "class": doc.class, "fam": doc.fam, "doc_text": String::from_utf8_lossy(&doc.bytes[..doc.bytes.len().min(1500)]),
           "observed": extra})
}

fn short(b: &[u8]) -> String {
    if b.len() <= 48 { vh::hex(b) } else { format!("{}..({} bytes)", vh::hex(&b[..48]), b.len()) }
}

/// accessors of an accepted event vs what the independent parser reads from the same text
fn field_diffs(o: &Obs, ind: &Indep) -> Vec<(&'static str, String)> {
    let mut bad: Vec<(&'static str, String)> = vec![];
    if o.id[..] != ind.id[..] { bad.push(("id", short(&o.id))); }
    if o.pk[..] != ind.pk[..] { bad.push(("pubkey", short(&o.pk))); }
    if o.sig[..] != ind.sig[..] { bad.push(("sig", short(&o.sig))); }
    if !num_agrees(&ind.kind, o.kind as u64) { bad.push(("kind", o.kind.to_string())); }
    if !num_agrees(&ind.ts, o.ts) { bad.push(("created_at", o.ts.to_string())); }
    match &o.tags {
        Ok(t) => {
            if *t != ind.tags {
                bad.push(("tags", format!("{:?}", t.iter().map(|x| x.iter().map(|y| short(y)).collect::<Vec<_>>()).collect::<Vec<_>>())));
            } else if !o.tags_gs {
                bad.push(("tags_get_string", "get_string disagrees with the iterators".into()));
            }
        }
        Err(e) => bad.push(("tags", format!("tags() failed: {}", e))),
    }
    if o.content != ind.content { bad.push(("content", short(&o.content))); }
    bad
}

/// C01 on one document
fn check_c01(doc: &Doc, ind: &Indep, buf: &mut Vec<u8>, sink: &mut Sink, stats: &mut Stats) {
    fill(buf, doc.bytes.len() * 2 + 4096, "a5", 0);
    let out = parse(&doc.bytes, buf);
    let cls = &doc.class;
    // (a document of buffer class "small" is an ordinary must-accept text as far as the large buffer goes)
    let expect = if doc.expect == "small" { "accept" } else { doc.expect.as_str() };
    match (&out, expect) {
        (Outcome::Panic, "may") | (Outcome::Err(_), "may") | (Outcome::Err(_), "reject") => {
            stats.refused += 1;
        }
        (Outcome::Panic, "accept") => {
            stats.panics += 1;
            sink.viol(format!("C01:panic:{}", cls), format!("Event::from_json panicked on a document of class {} that must be accepted", cls),
                      replay_of("C01", doc, json!("panic")));
        }
        (Outcome::Panic, _) => {
            stats.panics += 1;
            sink.viol(format!("C01:panic:{}", cls), format!("Event::from_json panicked on a document of class {} that must be rejected with an error", cls),
                      replay_of("C01", doc, json!("panic")));
        }
        (Outcome::Err(e), _) => {
            stats.refused += 1;
            sink.viol(format!("C01:rejected:{}", cls), format!("a document of class {} that must be accepted was refused: {}", cls, e),
                      replay_of("C01", doc, json!({"err": e})));
        }
        (Outcome::Ok(_), "reject") | (Outcome::AccessorPanic(..), "reject") => {
            stats.accepted += 1;
            let got = if let Outcome::Ok(o) = &out { json!({"kind": o.kind, "created_at": o.ts}) } else { json!("accessor panic") };
            sink.viol(format!("C01:wrapped:{}", cls), format!("an integer member that does not fit its field was accepted ({}): accessors return {}", cls, got),
                      replay_of("C01", doc, got.clone()));
        }
        (Outcome::AccessorPanic(..), _) => {
            stats.accepted += 1;
            sink.viol(format!("C01:accessor_panic:{}", cls), format!("document of class {} was accepted but an accessor panicked", cls),
                      replay_of("C01", doc, json!("accessor panic")));
        }
        (Outcome::Ok(o), e) => {
            stats.accepted += 1;
            let pre = if e == "may" { "C01:outside_domain_accepted_but_disagrees" } else { "C01:field" };
            let bad = field_diffs(o, ind);
            if o.consumed != ind.end {
                sink.viol(format!("C01:consumed:{}", cls),
                          format!("consumed = {} but the closing brace ends at offset {} ({})", o.consumed, ind.end, cls),
                          replay_of("C01", doc, json!({"consumed": o.consumed})));
            }
            for (f, got) in bad {
                sink.viol(format!("{}:{}:{}", pre, f, cls),
                          format!("accessor {} returns {} but the independent parser reads something else from the same text ({})", f, got, cls),
                          replay_of("C01", doc, json!({"field": f, "got": got})));
            }
        }
    }
}

fn region(off: usize, tlen: usize) -> &'static str {
    match off {
        0..=3 => "length",
        4..=5 => "kind",
        6..=7 => "padding_bytes",
        8..=15 => "created_at",
        16..=47 => "id",
        48..=79 => "pubkey",
        80..=143 => "sig",
        x if x < 144 + tlen => "tags",
        x if x < 144 + tlen + 4 => "content_len",
        _ => "content",
    }
}

fn diff_regions(a: &[u8], b: &[u8], tlen: usize) -> Vec<&'static str> {
    let mut r: Vec<&'static str> = vec![];
    if a.len() != b.len() {
        r.push("size");
    }
    for i in 0..a.len().min(b.len()) {
        if a[i] != b[i] {
            let g = region(i, tlen);
            if !r.contains(&g) {
                r.push(g);
            }
        }
    }
    r
}

/// the reference image of the expected event, laid out by hand; None when it has no binary form
fn reference(e: &Expected) -> Option<(Vec<u8>, usize)> {
    let kind = e.kind.filter(|k| *k <= 65535)? as u16;
    let ts = e.ts?;
    let mut sz = 4 + 2 * e.tags.len();
    for t in e.tags.iter() {
        sz += 2;
        for st in t {
            if st.len() > 65535 {
                return None;
            }
            sz += 2 + st.len();
        }
    }
    if sz > 65535 {
        return None;
    }
    let tb = vh::build_tags(&e.tags);
    let tlen = tb.len();
    Some((vh::build_event(&e.id, kind, &e.pk, &e.sig, &tb, ts, &e.content).0, tlen))
}

/// C02 on one document (only documents that were accepted are compared: acceptance is C01's)
fn check_c02(doc: &Doc, buf: &mut Vec<u8>, sink: &mut Sink, stats: &mut Stats, seen: &mut HashSet<u64>, seed: u64) {
    let (r0, tlen) = match reference(&doc.exp) {
        Some(x) => x,
        None => return,
    };
    let cls = &doc.class;
    let rev = unsafe { Event::delineate(&r0) }.expect("reference event");
    for how in ["00", "ff", "noise"] {
        fill(buf, doc.bytes.len() * 2 + 4096, how, seed ^ (doc.bytes.len() as u64) << 8);
        match parse(&doc.bytes, buf) {
            Outcome::Ok(o) => {
                stats.accepted += 1;
                let regs = diff_regions(&o.bytes, &r0, tlen);
                let eq = catch_unwind(AssertUnwindSafe(|| {
                    let ev = unsafe { Event::delineate(&o.bytes) }.unwrap();
                    ev == rev
                })).unwrap_or(false);
                for g in regs.iter() {
                    let key = if *g == "padding_bytes" { "C02:noncanonical:padding_bytes".to_string() } else { format!("C02:noncanonical:{}:{}", g, cls) };
                    if sink.full(&key) {
                        continue;
                    }
                    sink.viol(key, format!("the event parsed from JSON into a buffer pre-filled with {} differs from the same event built from parts in region {} (document class {})", how, g, cls),
                              replay_of("C02", doc, json!({"prefill": how, "region": g, "parsed": short(&o.bytes), "reference": short(&r0)})));
                }
                if eq != regs.is_empty() {
                    sink.viol(format!("C02:eq_vs_bytes:{}", cls), format!("Event == gives {} but byte comparison gives {}", eq, regs.is_empty()),
                              replay_of("C02", doc, json!({"prefill": how})));
                }
            }
            Outcome::AccessorPanic(_, b) => {
                stats.accepted += 1;
                for g in diff_regions(&b, &r0, tlen) {
                    let key = if g == "padding_bytes" { "C02:noncanonical:padding_bytes".to_string() } else { format!("C02:noncanonical:{}:{}", g, cls) };
                    sink.viol(key, format!("the event parsed from JSON (prefill {}) differs from the same event built from parts in region {} ({})", how, g, cls),
                              replay_of("C02", doc, json!({"prefill": how, "region": g})));
                }
            }
            _ => {
                stats.refused += 1;
            }
        }
    }
    // per distinct event: from_parts image, as_json, re-parse
    let mut h = DefaultHasher::new();
    r0.hash(&mut h);
    if !seen.insert(h.finish()) {
        return;
    }
    stats.events += 1;
    let e = &doc.exp;
    let tb = vh::build_tags(&e.tags);
    fill(buf, r0.len() + 64, "noise", seed);
    let fp = catch_unwind(AssertUnwindSafe(|| {
        let tags = unsafe { Tags::delineate(&tb) }.map_err(|x| format!("{}", x.inner))?;
        Event::from_parts(Id::from_bytes(e.id), Kind::from_u16(e.kind.unwrap() as u16), Pubkey::from_bytes(e.pk), Sig::from_bytes(e.sig),
                          tags, Time::from_u64(e.ts.unwrap()), &e.content, buf)
            .map(|ev| ev.as_bytes().to_vec()).map_err(|x| format!("{}", x.inner))
    }));
    match fp {
        Ok(Ok(b0)) => {
            for g in diff_regions(&b0, &r0, tlen) {
                sink.viol(format!("C02:from_parts:{}:{}", g, cls), format!("Event::from_parts image differs from the documented layout in region {}", g),
                          replay_of("C02", doc, json!({"from_parts": short(&b0), "reference": short(&r0)})));
            }
        }
        Ok(Err(er)) => sink.viol(format!("C02:from_parts:failed:{}", cls), format!("Event::from_parts refused a valid event: {}", er), replay_of("C02", doc, json!(er))),
        Err(_) => sink.viol(format!("C02:from_parts:panic:{}", cls), "Event::from_parts panicked".into(), replay_of("C02", doc, json!("panic"))),
    }
    let js = catch_unwind(AssertUnwindSafe(|| rev.as_json().map_err(|x| format!("{}", x.inner))));
    let js = match js {
        Ok(Ok(j)) => j,
        Ok(Err(er)) => {
            sink.viol(format!("C02:as_json:failed:{}", cls), format!("as_json failed on a valid event: {}", er), replay_of("C02", doc, json!(er)));
            return;
        }
        Err(_) => {
            sink.viol(format!("C02:as_json:panic:{}", cls), "as_json panicked on a valid event".into(), replay_of("C02", doc, json!("panic")));
            return;
        }
    };
    let jtxt = String::from_utf8_lossy(&js[..js.len().min(1500)]).to_string();
    match indep(&js) {
        Err(er) => sink.viol(format!("C02:as_json:invalid_json:{}", cls), format!("the independent parser does not accept as_json output: {}", er),
                             replay_of("C02", doc, json!({"as_json": jtxt}))),
        Ok(i) => {
            let mut bad = vec![];
            if i.end != js.len() { bad.push("trailing_bytes"); }
            if i.id[..] != e.id[..] { bad.push("id"); }
            if i.pk[..] != e.pk[..] { bad.push("pubkey"); }
            if i.sig[..] != e.sig[..] { bad.push("sig"); }
            if i.kind.as_u64() != e.kind { bad.push("kind"); }
            if i.ts.as_u64() != e.ts { bad.push("created_at"); }
            if i.tags != e.tags { bad.push("tags"); }
            if i.content != e.content { bad.push("content"); }
            for f in bad {
                sink.viol(format!("C02:as_json:field:{}:{}", f, cls), format!("as_json output read back by the independent parser differs in {}", f),
                          replay_of("C02", doc, json!({"as_json": jtxt, "field": f})));
            }
        }
    }
    fill(buf, js.len() * 2 + 4096, "noise", seed.wrapping_add(7));
    match parse(&js, buf) {
        Outcome::Ok(o) => {
            for g in diff_regions(&o.bytes, &r0, tlen) {
                let key = if g == "padding_bytes" { "C02:noncanonical:padding_bytes".to_string() } else { format!("C02:reparse:differs:{}:{}", g, cls) };
                if sink.full(&key) {
                    continue;
                }
                sink.viol(key, format!("from_json(as_json(event)) differs from the event in region {}", g),
                          replay_of("C02", doc, json!({"as_json": jtxt, "region": g})));
            }
            if o.consumed != js.len() {
                sink.viol(format!("C02:reparse:consumed:{}", cls), format!("from_json(as_json(event)) consumed {} of {} bytes", o.consumed, js.len()),
                          replay_of("C02", doc, json!({"as_json": jtxt})));
            }
        }
        Outcome::Err(er) => sink.viol(format!("C02:reparse:rejected:{}", cls), format!("from_json refuses as_json output: {}", er),
                                      replay_of("C02", doc, json!({"as_json": jtxt, "err": er}))),
        Outcome::AccessorPanic(_, b) => {
            for g in diff_regions(&b, &r0, tlen) {
                let key = if g == "padding_bytes" { "C02:noncanonical:padding_bytes".to_string() } else { format!("C02:reparse:differs:{}:{}", g, cls) };
                if !sink.full(&key) {
                    sink.viol(key, format!("from_json(as_json(event)) differs from the event in region {}", g), replay_of("C02", doc, json!({"as_json": jtxt, "region": g})));
                }
            }
        }
        Outcome::Panic => sink.viol(format!("C02:reparse:panic:{}", cls), "from_json panicked on as_json output".into(),
                       replay_of("C02", doc, json!({"as_json": jtxt}))),
    }
}

// ---------------------------------------------------------------------------------------------
// the output-buffer dimension
// ---------------------------------------------------------------------------------------------

fn buffer_lengths(class: &str, need: usize) -> Vec<usize> {
    if let Some(n) = class.strip_prefix("len:") {
        return vec![n.parse().unwrap_or(0)];
    }
    match class {
        "fit" => (need..=need + 64).collect(),
        "roomy" => vec![need + 65, need + 100, need + 257, need + 1000, need * 2, need * 2 + 4096],
        "small" => {
            let mut v: Vec<usize> = (1..=16).filter(|k| *k <= need).map(|k| need - k).collect();
            for x in [0usize, 151, 152] {
                if x < need && !v.contains(&x) {
                    v.push(x);
                }
            }
            v
        }
        _ => vec![],
    }
}

fn bucket(len: usize, need: usize) -> String {
    if len >= need {
        match len - need {
            0 => "needed".into(),
            1..=8 => "needed+1..8".into(),
            9..=64 => "needed+9..64".into(),
            _ => "roomy".into(),
        }
    } else if need - len <= 16 {
        "needed-1..16".into()
    } else {
        "tiny".into()
    }
}

/// C01 / C02 over the concrete buffer lengths of the document's buffer class.  The outcome must not
/// depend on the length as long as it is >= the size of the event; below that the call must fail.
fn check_buffers(prop: &str, doc: &Doc, ind: &Indep, buf: &mut Vec<u8>, sink: &mut Sink, stats: &mut Stats, seed: u64) {
    let (r0, tlen) = match reference(&doc.exp) {
        Some(x) => x,
        None => return,
    };
    let need = r0.len();
    if doc.need != 0 && doc.need != need {
        sink.toolerr(format!("Size(doc): spec says {}, the laid-out event has {} bytes ({})", doc.need, need, doc.class), vh::hex(&doc.bytes[..doc.bytes.len().min(2000)]));
        return;
    }
    let cls = &doc.class;
    for len in buffer_lengths(&doc.buf, need) {
        let bk = bucket(len, need);
        let fills: &[&str] = if prop == "C02" && len >= need { &["noise", "ff"] } else { &["a5"] };
        for how in fills {
            fill(buf, len, how, seed ^ (len as u64) << 16);
            stats.buffer_runs += 1;
            let out = parse(&doc.bytes, &mut buf[..]);
            let rp = |obs: Value| -> Value {
                let mut r = replay_of(prop, doc, obs);
                r["buflen"] = json!(len);
                r["needed"] = json!(need);
                r
            };
            if len < need {
                if prop == "C01" {
                    if let Outcome::Ok(_) | Outcome::AccessorPanic(..) = &out {
                        stats.accepted += 1;
                        let key = format!("C01:accepted_with_too_small_buffer:{}:buffer={}", cls, bk);
                        if !sink.full(&key) {
                            sink.viol(key, format!("from_json returned Ok with an output buffer of {} bytes although the event needs {} ({})", len, need, cls), rp(json!("ok")));
                        }
                    } else {
                        stats.refused += 1;
                    }
                }
                continue;
            }
            match &out {
                Outcome::Ok(o) => {
                    stats.accepted += 1;
                    if prop == "C01" {
                        if o.consumed != ind.end {
                            let key = format!("C01:consumed:{}:buffer={}", cls, bk);
                            if !sink.full(&key) {
                                sink.viol(key, format!("consumed = {} but the closing brace ends at offset {} (output buffer of {} bytes, event needs {}; {})", o.consumed, ind.end, len, need, cls),
                                          rp(json!({"consumed": o.consumed})));
                            }
                        }
                        for (f, got) in field_diffs(o, ind) {
                            let key = format!("C01:field:{}:{}:buffer={}", f, cls, bk);
                            if !sink.full(&key) {
                                sink.viol(key, format!("accessor {} returns {} but the independent parser reads something else from the same text (output buffer of {} bytes, event needs {}; {})", f, got, len, need, cls),
                                          rp(json!({"field": f, "got": got})));
                            }
                        }
                    } else {
                        for g in diff_regions(&o.bytes, &r0, tlen) {
                            let key = if g == "padding_bytes" { "C02:noncanonical:padding_bytes".to_string() } else { format!("C02:noncanonical:{}:{}:buffer={}", g, cls, bk) };
                            if !sink.full(&key) {
                                sink.viol(key, format!("the event parsed into an output buffer of {} bytes (pre-filled with {}; event needs {}) differs from the same event built from parts in region {} ({})", len, how, need, g, cls),
                                          rp(json!({"prefill": how, "region": g, "parsed": short(&o.bytes), "reference": short(&r0)})));
                            }
                        }
                    }
                }
                Outcome::AccessorPanic(_, b) => {
                    stats.accepted += 1;
                    if prop == "C01" {
                        let key = format!("C01:accessor_panic:{}:buffer={}", cls, bk);
                        if !sink.full(&key) {
                            sink.viol(key, format!("accepted into an output buffer of {} bytes (event needs {}) but an accessor panicked ({})", len, need, cls), rp(json!("accessor panic")));
                        }
                    } else {
                        for g in diff_regions(b, &r0, tlen) {
                            let key = if g == "padding_bytes" { "C02:noncanonical:padding_bytes".to_string() } else { format!("C02:noncanonical:{}:{}:buffer={}", g, cls, bk) };
                            if !sink.full(&key) {
                                sink.viol(key, format!("the event parsed into an output buffer of {} bytes differs from the same event built from parts in region {} ({})", len, g, cls), rp(json!({"region": g})));
                            }
                        }
                    }
                }
                Outcome::Err(e) => {
                    stats.refused += 1;
                    if prop == "C01" {
                        let key = format!("C01:rejected:{}:buffer={}", cls, bk);
                        if !sink.full(&key) {
                            sink.viol(key, format!("refused although the output buffer of {} bytes is large enough (the event needs {}): {} ({})", len, need, e, cls), rp(json!({"err": e})));
                        }
                    }
                }
                Outcome::Panic => {
                    stats.panics += 1;
                    if prop == "C01" {
                        let key = format!("C01:panic:{}:buffer={}", cls, bk);
                        if !sink.full(&key) {
                            sink.viol(key, format!("from_json panicked with an output buffer of {} bytes, which is large enough (the event needs {}) ({})", len, need, cls), rp(json!("panic")));
                        }
                    }
                }
            }
        }
    }
}

#[derive(Default)]
struct Stats {
    buffer_runs: u64,
    docs: u64,
    accepted: u64,
    refused: u64,
    panics: u64,
    events: u64,
    scalars: u64,
    by_fam: BTreeMap<String, u64>,
    by_expect: BTreeMap<String, u64>,
    distinct: HashSet<u64>,
    nontrivial: HashSet<u64>,
    samples: Vec<Value>,
}

fn run_doc(prop: &str, doc: &Doc, buf: &mut Vec<u8>, sink: &mut Sink, stats: &mut Stats, seen: &mut HashSet<u64>, seed: u64, plain: bool) {
    stats.docs += 1;
    *stats.by_fam.entry(doc.fam.clone()).or_insert(0) += 1;
    *stats.by_expect.entry(doc.expect.clone()).or_insert(0) += 1;
    let mut h = DefaultHasher::new();
    doc.bytes.hash(&mut h);
    let hv = h.finish();
    stats.distinct.insert(hv);
    if !plain {
        stats.nontrivial.insert(hv);
    }
    if stats.by_fam[&doc.fam] <= 1 && stats.samples.len() < 24 {
        stats.samples.push(json!({"family": doc.fam, "class": doc.class, "expect": doc.expect,
            "document": String::from_utf8_lossy(&doc.bytes[..doc.bytes.len().min(700)])}));
    }
    let ind = match indep(&doc.bytes) {
        Ok(i) => i,
        Err(e) => {
            sink.toolerr(format!("the independent parser refuses a generated document ({}): {}", doc.class, e), vh::hex(&doc.bytes[..doc.bytes.len().min(4000)]));
            return;
        }
    };
    if let Err(e) = cross_check(doc, &ind) {
        sink.toolerr(format!("specification vs independent parser ({}): {}", doc.class, e), vh::hex(&doc.bytes[..doc.bytes.len().min(4000)]));
        return;
    }
    if prop == "C01" {
        check_c01(doc, &ind, buf, sink, stats);
    } else {
        check_c02(doc, buf, sink, stats, seen, seed);
    }
    if doc.buf != "large" && doc.expect != "reject" && doc.expect != "may" {
        check_buffers(prop, doc, &ind, buf, sink, stats, seed);
    }
}

// ---------------------------------------------------------------------------------------------
// sweep over Unicode scalar values
// ---------------------------------------------------------------------------------------------

fn scalar_list(which: &str, seed: u64) -> Vec<u32> {
    let all = || (0u32..=0x10FFFF).filter(|c| !(0xD800..=0xDFFF).contains(c));
    if which == "all" {
        return all().collect();
    }
    let mut v: Vec<u32> = (0u32..=0x7FF).collect();
    v.extend([0x800, 0x801, 0xFFF, 0x1000, 0x2028, 0x2029, 0xD7FE, 0xD7FF, 0xE000, 0xE001, 0xFEFF, 0xFFFD, 0xFFFE, 0xFFFF,
              0x10000, 0x10001, 0x1F600, 0x1FFFF, 0x20000, 0x3FFFF, 0x40000, 0xFFFFF, 0x100000, 0x10FFFE, 0x10FFFF]);
    use rand::{Rng, SeedableRng};
    let mut r = rand::rngs::StdRng::seed_from_u64(seed ^ 0x5CA1A5);
    let mut n = 0;
    while n < 50_000 {
        let c: u32 = r.gen_range(0x800..=0x10FFFF);
        if !(0xD800..=0xDFFF).contains(&c) {
            v.push(c);
            n += 1;
        }
    }
    v
}

fn sweep_doc(cps: &[u32], sp: &str, set: u64) -> Option<Doc> {
    let mut text = vec![];
    let mut val = vec![];
    for c in cps {
        spell(*c, sp, &mut text)?;
        utf8(*c, &mut val);
    }
    let (id, pk, sig) = hexvals(set);
    let mut content = b"<".to_vec();
    content.extend_from_slice(&val);
    content.push(b'>');
    let tags: TagsV = vec![vec![b"t".to_vec(), val.clone()], vec![val.clone()]];
    let mut b = format!("{{\"id\":\"{}\",\"pubkey\":\"{}\",\"created_at\":1700000000,\"kind\":1,\"tags\":[[\"t\",\"", vh::hex(&id), vh::hex(&pk)).into_bytes();
    b.extend_from_slice(&text);
    b.extend_from_slice(b"\"],[\"");
    b.extend_from_slice(&text);
    b.extend_from_slice(b"\"]],\"content\":\"<");
    b.extend_from_slice(&text);
    b.extend_from_slice(format!(">\",\"sig\":\"{}\"}}", vh::hex(&sig)).as_bytes());
    let end = b.len();
    let len = val.len() / cps.len().max(1);
    Some(Doc {
        bytes: b,
        end,
        expect: if sp.starts_with('p') { "may".into() } else { "accept".into() },
        class: format!("scalar:{}:{}byte", sp, len),
        fam: format!("sweep:{}", sp),
        exp: Expected { id, pk, sig, kind: Some(1), kind_num: 1.0, ts: Some(1_700_000_000), ts_num: 1.7e9, tags, content },
        buf: "large".into(),
        need: 0,
    })
}

fn spelling_exists(c: u32, sp: &str) -> bool {
    match sp {
        "lit" => lit_legal(c),
        "sh" => short_escape(c).is_some(),
        "ul" => c <= 0xFFFF,
        "uU" => c <= 0xFFFF && format!("{:04x}", c).bytes().any(|x| x.is_ascii_alphabetic()),
        "pl" | "pU" => c > 0xFFFF,
        _ => false,
    }
}

/// every scalar of the list in every legal spelling, K per document (the check runs K = 16: neighbours
/// interact, and K = 1: the scalar alone between the quotes)
fn sweep(prop: &str, list: &[u32], buf: &mut Vec<u8>, sink: &mut Sink, stats: &mut Stats, seen: &mut HashSet<u64>, seed: u64, k: usize, progress: &Progress) {
    let K: usize = k.max(1);
    // C02 quantifies over events (values), not spellings: one spelling suffices to carry the value
    let spellings: &[&str] = if prop == "C01" { &["lit", "sh", "ul", "uU", "pl", "pU"] } else { &["lit", "ul"] };
    for sp in spellings {
        let cps: Vec<u32> = list.iter().copied()
            .filter(|c| spelling_exists(*c, sp) && (prop == "C01" || *sp == "lit" || !lit_legal(*c))).collect();
        for (bi, chunk) in cps.chunks(K).enumerate() {
            stats.scalars += chunk.len() as u64;
            // same UTF-8 length within a batch keeps the class label exact: split on length change
            let mut start = 0;
            while start < chunk.len() {
                let l = char::from_u32(chunk[start]).unwrap().len_utf8();
                let mut endi = start;
                while endi < chunk.len() && char::from_u32(chunk[endi]).unwrap().len_utf8() == l {
                    endi += 1;
                }
                let part = &chunk[start..endi];
                start = endi;
                progress.at(part[0] as u64);
                let doc = match sweep_doc(part, sp, bi as u64) {
                    Some(d) => d,
                    None => continue,
                };
                // the batch is a document like any other; if it shows anything but the (value independent)
                // padding clause, the scalars are also run one by one to name the failing ones
                let count = |sk: &Sink| -> u64 {
                    sk.counts.iter().filter(|(k, _)| k.as_str() != "C02:noncanonical:padding_bytes").map(|(_, v)| *v).sum::<u64>() + sk.toolerrs
                };
                let before = count(sink);
                run_doc(prop, &doc, buf, sink, stats, seen, seed, false);
                if count(sink) != before && part.len() > 1 {
                    for c in part {
                        if let Some(mut d1) = sweep_doc(&[*c], sp, bi as u64) {
                            d1.class = if sink.counts.len() < 40 { format!("{}:U+{:04X}", d1.class, *c) } else { format!("{}:more", d1.class) };
                            run_doc(prop, &d1, buf, sink, stats, seen, seed, false);
                        }
                    }
                }
            }
        }
    }
}

// ---------------------------------------------------------------------------------------------

fn summary(stats: &Stats, sink: &Sink) -> Value {
    json!({"t": "summary", "docs": stats.docs, "accepted": stats.accepted, "refused": stats.refused, "panics": stats.panics,
           "events": stats.events, "scalars": stats.scalars, "buffer_runs": stats.buffer_runs, "by_fam": stats.by_fam, "by_expect": stats.by_expect,
           "distinct": stats.distinct.len(), "distinct_nontrivial": stats.nontrivial.len(),
           "samples": stats.samples, "violation_counts": sink.counts, "toolerrs": sink.toolerrs})
}

fn main() {
    let args: Vec<String> = std::env::args().collect();
    let mode = arg(&args, "--mode").expect("--mode");
    let prop = arg(&args, "--prop").expect("--prop");
    let opath = arg(&args, "--out").expect("--out");
    let seed: u64 = arg(&args, "--seed").and_then(|x| x.parse().ok()).unwrap_or(1);
    let from: usize = arg(&args, "--from").and_then(|x| x.parse().ok()).unwrap_or(0);
    let to: usize = arg(&args, "--to").and_then(|x| x.parse().ok()).unwrap_or(usize::MAX);
    let stride: usize = arg(&args, "--stride").and_then(|x| x.parse().ok()).unwrap_or(1).max(1);
    let offset: usize = arg(&args, "--offset").and_then(|x| x.parse().ok()).unwrap_or(0);
    let dry = args.iter().any(|a| a == "--dry");
    let skip: HashSet<u64> = arg(&args, "--skip").map(|x| x.split(',').filter_map(|y| y.parse().ok()).collect()).unwrap_or_default();
    let progress = Progress(std::fs::File::create(format!("{}.progress", opath)).expect("progress file"));
    start_watchdog();
    vh::silence_panics();
    let mut sink = Sink { out: BufWriter::new(std::fs::File::create(&opath).expect("out file")), counts: BTreeMap::new(), toolerrs: 0 };
    let mut stats = Stats::default();
    let mut seen: HashSet<u64> = HashSet::new();
    let mut buf: Vec<u8> = Vec::new();
    match mode.as_str() {
        "cases" => {
            let cpath = arg(&args, "--cases").expect("--cases");
            let f = std::io::BufReader::new(std::fs::File::open(&cpath).expect("cases file"));
            let plain = json!({"pos": 8, "key": "none", "val": "none"});
            // the file is either ndjson or TLC's raw output (lines `<<"CASE", "...">>`; others skipped);
            // --from/--to count case lines
            let mut i = 0usize;
            for line in f.lines() {
                let line = line.expect("read");
                let line = if let Some(r) = line.strip_prefix("<<\"CASE\", \"") {
                    match r.strip_suffix("\">>") {
                        Some(x) => x.replace("\\\"", "\"").replace("\\\\", "\\"),
                        None => {
                            sink.toolerr(format!("broken CASE line: {}", &line[..line.len().min(200)]), String::new());
                            continue;
                        }
                    }
                } else if line.starts_with('{') {
                    line
                } else {
                    continue;
                };
                i += 1;
                let i = i - 1;
                if i < from || i >= to || i % stride != offset % stride || skip.contains(&(i as u64)) {
                    continue;
                }
                progress.at(i as u64);
                ACTIVE.store(true, Ordering::Relaxed);
                let case: Value = match serde_json::from_str(&line) {
                    Ok(v) => v,
                    Err(e) => {
                        sink.toolerr(format!("case line {} is not JSON: {}", i, e), String::new());
                        continue;
                    }
                };
                match concretise(&case, &line) {
                    Ok(doc) if dry => {
                        writeln!(sink.out, "{}", json!({"t": "doc", "i": i, "replay": replay_of(&prop, &doc, json!(null))})).unwrap();
                    }
                    Ok(doc) => {
                        let d = &case["d"];
                        let is_plain = d["fam"] == "F1" && d["trail"] == "none" && d["unk"] == plain
                            && d["order"] == json!(["id", "pubkey", "created_at", "kind", "tags", "content", "sig"]);
                        run_doc(&prop, &doc, &mut buf, &mut sink, &mut stats, &mut seen, seed, is_plain);
                    }
                    Err(e) => sink.toolerr(format!("case line {}: {}", i, e), String::new()),
                }
            }
        }
        "sweep" => {
            let which = arg(&args, "--scalars").unwrap_or_else(|| "quick".into());
            let list = scalar_list(&which, seed);
            let a = from.min(list.len());
            let b = to.min(list.len());
            let list: Vec<u32> = list[a..b].iter().copied().filter(|c| !skip.contains(&(*c as u64))).collect();
            let (a, b) = (0, list.len());
            ACTIVE.store(!dry, Ordering::Relaxed);
            if dry {
                for c in &list[a..b] {
                    for sp in ["lit", "sh", "ul", "uU"] {
                        if let Some(doc) = sweep_doc(&[*c], sp, 0) {
                            writeln!(sink.out, "{}", json!({"t": "doc", "cp": c, "replay": replay_of(&prop, &doc, json!(null))})).unwrap();
                        }
                    }
                }
            } else {
                // alone first: a scalar that kills the process is then named exactly by the progress marker
                sweep(&prop, &list[a..b], &mut buf, &mut sink, &mut stats, &mut seen, seed, 1, &progress);
                sweep(&prop, &list[a..b], &mut buf, &mut sink, &mut stats, &mut seen, seed, 16, &progress);
            }
        }
        "replay" => {
            let fpath = arg(&args, "--file").expect("--file");
            let v: Value = serde_json::from_str(&std::fs::read_to_string(&fpath).expect("replay file")).expect("replay json");
            let rp = v.get("replay").unwrap_or(&v);
            let bytes = vh::unhex(rp["doc_hex"].as_str().expect("doc_hex"));
            let expect = rp["expect"].as_str().unwrap_or("accept").to_string();
            match indep(&bytes) {
                Err(e) => sink.toolerr(format!("replayed document is not an event for the independent parser: {}", e), String::new()),
                Ok(ind) => {
                    let arr32 = |b: &[u8]| -> [u8; 32] { let mut a = [0u8; 32]; let n = b.len().min(32); a[..n].copy_from_slice(&b[..n]); a };
                    let mut sg = [0u8; 64];
                    let n = ind.sig.len().min(64);
                    sg[..n].copy_from_slice(&ind.sig[..n]);
                    let doc = Doc {
                        bytes: bytes.clone(),
                        end: ind.end,
                        expect,
                        class: rp["class"].as_str().unwrap_or("replay").to_string(),
                        fam: "replay".into(),
                        exp: Expected { id: arr32(&ind.id), pk: arr32(&ind.pk), sig: sg, kind: ind.kind.as_u64(), kind_num: ind.kind.as_f64().unwrap_or(-1.0),
                                        ts: ind.ts.as_u64(), ts_num: ind.ts.as_f64().unwrap_or(-1.0), tags: ind.tags.clone(), content: ind.content.clone() },
                        buf: match rp.get("buflen").and_then(|x| x.as_u64()) { Some(n) => format!("len:{}", n), None => "large".into() },
                        need: 0,
                    };
                    progress.at(0);
                    ACTIVE.store(true, Ordering::Relaxed);
                    fill(&mut buf, bytes.len() * 2 + 4096, "a5", 0);
                    let o = parse(&bytes, &mut buf);
                    let show = match &o {
                        Outcome::Ok(x) => json!({"result": "ok", "consumed": x.consumed, "kind": x.kind, "created_at": x.ts, "content": short(&x.content),
                                                  "event_head": vh::hex(&x.bytes[..x.bytes.len().min(16)])}),
                        Outcome::Err(e) => json!({"result": "err", "err": e}),
                        Outcome::Panic => json!({"result": "panic"}),
                        Outcome::AccessorPanic(..) => json!({"result": "ok, accessor panic"}),
                    };
                    writeln!(sink.out, "{}", json!({"t": "replayed", "observed": show, "closing_brace_end": ind.end, "expect": doc.expect})).unwrap();
                    run_doc(&prop, &doc, &mut buf, &mut sink, &mut stats, &mut seen, seed, false);
                }
            }
        }
        other => {
            eprintln!("unknown mode {}", other);
            std::process::exit(2);
        }
    }
    ACTIVE.store(false, Ordering::Relaxed);
    let sm = summary(&stats, &sink);
    writeln!(sink.out, "{}", sm).unwrap();
    sink.out.flush().unwrap();
}
