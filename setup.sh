#!/bin/sh
# Build the framework from files on disk only (offline): harness in both profiles against the
# current /repo tree, and the spec-derived edge covers (they depend on /verif/spec only).
set -e
cd "$(dirname "$0")"
export CARGO_NET_OFFLINE=true
mkdir -p work evidence replays
[ -f harness/Cargo.lock ] || cp /repo/Cargo.lock harness/Cargo.lock
# only the binaries of integrated checks (others may be work in progress)
BINS="--bin storedrv --bin crashdrv --bin concdrv --bin kinddrv --bin totaldrv --bin jsondrv --bin fjsondrv --bin canondrv --bin layoutdrv --bin matchdrv --bin hlldrv --bin burstdrv --bin rebuilddrv"
(cd harness && RUSTFLAGS="-Awarnings" cargo build --offline --quiet $BINS && RUSTFLAGS="-Awarnings" cargo build --offline --quiet --release $BINS)
python3 - <<'PY'
import sys, os
sys.path.insert(0, "lib")
import storelib as S
import concurrent.futures as cf
with cf.ThreadPoolExecutor(max_workers=5) as ex:
    list(ex.map(S.gen_edges, ["core", "c09", "c10", "c11", "c18", "q", "c16", "c11b", "c12x", "c09b", "c10b", "c09c", "c10c", "c10d", "c10e", "c12y", "qv", "c09t", "c09d", "c18b", "c11c", "c18c"]))
PY
echo setup done
