"""C05 - queries return exactly the matching events, newest first, newest-k under limit.

  (a) filter-exhaustive on curated states: TLC enumerates the filter grammar (spec/FilterGen.tla);
      every filter is executed on the real store in four curated store contents of universe `q`.
  (b) history-exhaustive: on every call of seed-sampled edge-cover histories (universes q, core) a
      seed-sampled subset of the grammar is executed as probes.
  Judge: TLC evaluates PocketQuery!QueryOK (TraceStore.tla, Prop = "C05") on every recorded answer
  against the retrievable set observed on the same trace line (ties free, scrape refusal constrained
  in the stated direction only, `now` logged as an interval).
"""
import json
import os
import random
import re
import sys
import time

sys.path.insert(0, os.path.join(os.path.dirname(os.path.abspath(__file__)), "..", "lib"))
import common as C
import storelib as S

RE_CASE = re.compile(r'^<<"CASE", "(.*)">>$')
RE_BADQ = re.compile(r'^<<"BADQ", (\d+), (-?\d+), (\d+), "(.*)", \{(.*)\}>>$')
INF = 2000000000

CURATED_STATES = {
    "all": [("store", i) for i in range(1, 18)],
    "ties": [("store", i) for i in (13, 1, 2, 3, 17, 4, 5, 9, 14, 16)],
    "empty": [("store", 1), ("remove", 1)],
    "leftovers": [("store", i) for i in (7, 11, 2, 1, 3, 4, 5, 6, 8, 15, 16, 17, 12, 10, 13, 14, 9)] + [("remove", 4), ("reopen", 0), ("store", 7)],
}


def gen_filters(wd, u):
    S_ = lambda b: u["strs"].index(b.encode().hex())
    now0 = int(time.time())
    vocab = dict(ids=[1, 4, 12], authors=[1, 2, 3], kinds=[1, 7, 0, 30000], names=[S_("t"), S_("u"), S_("w"), S_("d")],
                 vals=[S_("x"), S_("y"), S_("zz")], now0=now0)
    vp = os.path.join(wd, "vocab.json")
    json.dump(vocab, open(vp, "w"))
    outp = os.path.join(wd, "filtergen.out")
    rc, _ = C.run_tlc("FilterGen.tla", "Gen_FilterGen.cfg", env={"VOCAB": vp}, workers=4, timeout=600, heap="4g",
                      out_path=outp)
    filters = []
    okline = False
    gen = dist = 0
    for line in open(outp):
        line = line.rstrip("\n")
        m = RE_CASE.match(line)
        if m:
            filters.append(json.loads(m.group(1).replace('\\"', '"').replace("\\\\", "\\")))
        elif "No error has been found" in line:
            okline = True
        else:
            mm = C.RE_STATES.search(line)
            if mm:
                gen, dist = int(mm.group(1)), int(mm.group(2))
    os.remove(outp)
    if not okline or not filters:
        raise C.ToolError("FilterGen failed")
    return filters, dist, now0


def plan_of(f):
    if f["ids"]:
        return "ids"
    if f["authors"] and f["kinds"]:
        return "authors+kinds"
    if f["authors"] and f["tags"]:
        return "authors+tags"
    if f["kinds"] and f["tags"]:
        return "kinds+tags"
    if f["tags"]:
        return "tags"
    if f["authors"]:
        return "authors"
    return "scrape"


def feature_of(f):
    fs = []
    if any(len(t["vals"]) > 1 for t in f["tags"]):
        fs.append("multivalue")
    if len(f["tags"]) > 1:
        fs.append("multiletter")
    if f["limit"] < INF:
        fs.append("limit")
    if f["since"] > min(f["until"], 1700000000):
        fs.append("inverted")
    if f["screen"]:
        fs.append("screen")
    if f["allow"]:
        fs.append("allow%d" % f["allow"])
    return "+".join(fs) or "plain"


def judge_q(upath, tfiles, fpath):
    """run the C05 judge; returns list of (trace, line, h, fidx, res, viols)"""
    import concurrent.futures as cf

    def one(t):
        n = sum(1 for _ in open(t))
        if n == 0:
            return [], 0
        rc, out = C.run_tlc("TraceStore.tla", "Trace_C05.cfg", env={"UNIVERSE": upath, "TRACE": t, "FILTERS": fpath},
                            workers=1, timeout=1800, heap="4g", deque=True, stack="1g")
        if "NOTCONSUMED" in out or "Model checking completed" not in out:
            raise C.ToolError("C05 judge failed on %s:\n%s" % (t, out[-2500:]))
        bad = []
        for r in C.tlc_json_lines(out, "BADQ"):
            bad.append((t, r["l"], r["h"], r["f"], r["res"], sorted(r["v"])))
        return bad, n
    bad, lines = [], 0
    with cf.ThreadPoolExecutor(max_workers=min(8, C.NCPU)) as ex:
        for b, n in ex.map(one, tfiles):
            bad += b
            lines += n
    return bad, lines


def run(prop, tier, seed, replay=None):
    V = C.Verdict(prop, tier, seed, "model_checking")
    rnd = random.Random("C05-%d" % seed)
    bindir = C.build_harness("dev", bins=["storedrv"])
    wd = C.workdir("C05_%s" % tier)
    upath = S.universe_path("q")
    u = json.load(open(upath))

    if replay:
        rp = json.load(open(replay))["replay"]
        up = os.path.join(wd, "universe.json")
        json.dump(rp["universe"], open(up, "w"))
        fp = os.path.join(wd, "filters.json")
        json.dump([rp["filter"]], open(fp, "w"))
        ops = rp["ops"] + [{"k": "queries", "a": 0, "b": 1}]
        tf = S.run_storedrv2(bindir, up, [ops], wd, "replay", fp, no_probe=True, shards=1)
        bad, lines = judge_q(up, tf, fp)
        for l in open(tf[0]):
            r = json.loads(l)
            if r["k"] == "queries":
                print("  retr=%s  answer=%s" % (r["st"]["retr"], r["q"]))
        for b in bad:
            V.violation("C05:%s:replay" % "+".join(b[5]), "replayed: QueryOK violated (%s), result %s" % (b[5], b[4]), rp)
        V.coverage = dict(states=1, transitions=1, traces_validated_against_impl=1, samples=[rp["filter"]],
                          evaluations=1, distinct_nontrivial=2, rule="replay of one recorded query")
        return V.finish()

    filters, nfilters_tlc, now0 = gen_filters(wd, u)
    total_grammar = len(filters)
    if tier == "quick":
        # stratified by family: the small families entirely, a seeded sample of the big ones
        byfam = {}
        for f in filters:
            byfam.setdefault(f.get("fam", "?"), []).append(f)
        filters = []
        for fam, fs in sorted(byfam.items()):
            filters += fs if len(fs) <= 1500 else rnd.sample(fs, 1500)
    fpath = os.path.join(wd, "filters.json")
    json.dump(filters, open(fpath, "w"))

    # (a) every filter on each curated state
    hs = []
    nsh = 8 if tier == "quick" else 16
    per = (len(filters) + nsh - 1) // nsh
    for name, prefix in CURATED_STATES.items():
        pre = [{"k": k, "a": a} for (k, a) in prefix]
        for s in range(nsh):
            lo, hi = s * per, min(len(filters), (s + 1) * per)
            if lo >= hi:
                continue
            ops = list(pre)
            for b in range(lo, hi, 400):
                ops.append({"k": "queries", "a": b, "b": min(hi, b + 400)})
            hs.append(ops)
    t0 = time.time()
    tfa = S.run_storedrv2(bindir, upath, hs, wd, "qa", fpath, no_probe=True, shards=min(16, len(hs)))
    t1 = time.time()
    bad, lines_a = judge_q(upath, tfa, fpath)
    C.log("[C05] (a) %d filters x %d states: replay %.1fs judge %.1fs, %d failing answers" %
          (len(filters), len(CURATED_STATES), t1 - t0, time.time() - t1, len(bad)))
    evaluations = len(filters) * len(CURATED_STATES)
    report(V, bad, filters, u, "curated")

    # (b) probes along edge-cover histories
    nprobe = 30
    pf = rnd.sample(filters, nprobe)
    ppath = os.path.join(wd, "probes.json")
    json.dump(pf, open(ppath, "w"))
    nh = 400 if tier == "quick" else 6000
    edges, total_edges = S.sample_edges("q", nh, rnd)
    tfb = S.run_storedrv2(bindir, upath, edges, wd, "qb", ppath, no_probe=False)
    badb, lines_b = judge_q(upath, tfb, ppath)
    C.log("[C05] (b) %d histories, %d lines x %d probes, %d failing answers" % (len(edges), lines_b, nprobe, len(badb)))
    evaluations += lines_b * nprobe
    report(V, badb, pf, u, "history")

    # (c) tag-value geometry (universe qv): every self-derived probe (each event's id / author / author+kind / each of its
    # tag values alone, with its author, with its kind) plus value pairs, after every call of a few fixed histories
    import filters as FL
    vpath = S.universe_path("qv")
    uv = json.load(open(vpath))
    pv = FL.probe_filters(uv)
    sidx = {bytes.fromhex(x): i for i, x in enumerate(uv["strs"])}
    t_ = sidx[b"t"]
    vals = [sidx[k] for k in (b"abc", b"abc\x00", b"v" * 182 + b"1", b"v" * 182 + b"2", b"v" * 182, b"ab")]
    for i in range(len(vals)):
        for j in range(len(vals)):
            if i != j:
                pv.append(FL.flt(tags=[(t_, [vals[i], vals[j]])]))
                pv.append(FL.flt(authors=[1, 2], tags=[(t_, [vals[i], vals[j]])], limit=2))
    # several (author, kind) pairs in both orders, a replaceable kind among them whose event is newer than the others
    for ks in ([3, 1], [1, 3], [3, 1, 7], [7, 3, 1], [1059, 3, 1]):
        pv.append(FL.flt(authors=[1], kinds=ks))
        pv.append(FL.flt(authors=[2, 1], kinds=ks))
        pv.append(FL.flt(authors=[1, 2], kinds=ks, limit=3))
    pv.append(FL.flt(tags=[(sidx[b"u"], [sidx[b"abc"]])]))
    pv.append(FL.flt(tags=[(t_, [sidx[b"abc"]]), (sidx[b"p"], [uv["pk_sidx"][1]])]))
    vfp = os.path.join(wd, "probes_qv.json")
    json.dump(pv, open(vfp, "w"))
    nv = uv["n"]
    vh_ = [[{"k": "store", "a": i} for i in range(1, nv + 1)],
           [{"k": "store", "a": i} for i in range(nv, 0, -1)] + [{"k": "remove", "a": 1}, {"k": "reopen", "a": 0}, {"k": "rebuild", "a": 0}],
           [{"k": "store", "a": i} for i in (2, 4, 5, 7, 9, 1, 3)] + [{"k": "remove", "a": 2}, {"k": "store", "a": 8}, {"k": "store", "a": 6}]]
    tfc = S.run_storedrv2(bindir, vpath, vh_, wd, "qc", vfp, no_probe=False, shards=3)
    badc, lines_c = judge_q(vpath, tfc, vfp)
    C.log("[C05] (c) value geometry: %d histories, %d lines x %d probes, %d failing answers" % (len(vh_), lines_c, len(pv), len(badc)))
    evaluations += lines_c * len(pv)
    report(V, badc, pv, uv, "value geometry")

    # (d) more results than any internal page or ceiling: one author with 520 events, limits above 500 and none at all
    mpath = S.universe_path("many")
    um = json.load(open(mpath))
    tx = [i for i, x in enumerate(um["strs"]) if bytes.fromhex(x) == b"t"][0], [i for i, x in enumerate(um["strs"]) if bytes.fromhex(x) == b"x"][0]
    pm = [FL.flt(authors=[1]), FL.flt(authors=[1], limit=510), FL.flt(kinds=[1], limit=501), FL.flt(kinds=[1]), FL.flt(since=10, until=515),
          FL.flt(tags=[(tx[0], [tx[1]])]), FL.flt(authors=[1, 2], kinds=[1], limit=519), FL.flt(authors=[1], tags=[(tx[0], [tx[1]])]),
          FL.flt(ids=list(range(1, 521)))]
    mfp = os.path.join(wd, "probes_many.json")
    json.dump(pm, open(mfp, "w"))
    mh = [[{"k": "store", "a": i} for i in range(1, um["n"] + 1)] + [{"k": "queries", "a": 0, "b": len(pm)}, {"k": "remove", "a": 520},
                                                                     {"k": "queries", "a": 0, "b": len(pm)}]]
    tfd = S.run_storedrv2(bindir, mpath, mh, wd, "qd", mfp, no_probe=True, shards=1)
    badd, lines_d = judge_q(mpath, tfd, mfp)
    C.log("[C05] (d) many results: %d lines, %d probes, %d failing answers" % (lines_d, len(pm), len(badd)))
    evaluations += 2 * len(pm)
    report(V, badd, pm, um, "many results")

    plans = {}
    for f in filters:
        k = plan_of(f) + ":" + feature_of(f)
        plans[k] = plans.get(k, 0) + 1
    V.coverage = dict(
        states=nfilters_tlc, transitions=nfilters_tlc,
        traces_validated_against_impl=len(hs) + len(edges),
        samples=[dict(state="all", filter=filters[0]), dict(state="ties", filter=filters[len(filters) // 2])],
        evaluations=evaluations, distinct_nontrivial=len(filters) * (len(CURATED_STATES) - 1),
        rule="cases = (store state, filter) pairs executed on the real store; TLC enumerates the filter grammar "
             "(FilterGen.tla, %d filters, one initial state each; quick tier seed-samples %d); non-trivial = the state "
             "is not the empty store; distinct = distinct (state, filter)" % (total_grammar, len(filters)),
        filter_classes=plans, grammar_size=total_grammar, edge_cover_q=total_edges, now0=now0,
        exhaustive=(tier == "thorough"),
    )
    V.assumptions = ["answers judged against the retrievable set observed through has_event/get_event_by_id on the same line",
                     "ties at the limit cut and order among equal timestamps are free",
                     "scrape refusal judged only in the stated direction; `now` is the interval logged around the call"]
    return V.finish()


def report(V, bad, filters, u, where):
    seen = {}
    for (t, line, h, fidx, res, viols) in bad:
        f = filters[fidx - 1]
        key = "C05:%s:%s:%s" % ("+".join(viols), plan_of(f), feature_of(f))
        seen[key] = seen.get(key, 0) + 1
        if seen[key] > 2:
            continue
        lines_h = S.history_of(t, h)
        ops = [dict(k=r["k"], a=r["a"]) for r in lines_h if r["k"] not in ("reset", "crash", "queries")]
        what = "query %s on state reached by %s answered %s: %s (%s)" % (
            json.dumps(f), [[o["k"], o["a"]] for o in ops][:30], res, ",".join(viols), where)
        V.violation(key, what, dict(kind="query", universe=u, ops=ops, filter=f, viols=viols))
