"""C15 - event references stay valid and unchanged while the store lives.

  design level : PocketStoreSteps.tla, invariant RefsValid (every reference handed out was taken from the mapping
                 that is still current).  With MAY_MOVE = TRUE (the pinned design: growth = set_len + mremap(MAY_MOVE))
                 TLC produces the counterexample; with MAY_MOVE = FALSE the invariant holds.
  code level   : histories that take references (by offset, by id, from a query) after every store and then keep
                 storing - sequentially and from other threads, crossing many growth steps (dev profile: 2048-byte
                 chunks) - log after every call the base address that fresh lookups yield and whether every held
                 reference whose mapping is still current denotes unchanged bytes (stale references are never
                 dereferenced).  TLC (TraceStore.tla, Prop = "C15") evaluates the clause on every transition.
  The mapping moving at a growth step is a KNOWN FINDING (known_findings.json); byte changes, inconsistent bases or
  moves without growth are violations.
"""
import json
import os
import random
import sys
import time

sys.path.insert(0, os.path.join(os.path.dirname(os.path.abspath(__file__)), "..", "lib"))
import common as C
import storelib as S


def histories(u, rnd, n, length):
    hs = []
    ne = u["n"]
    for _ in range(n):
        ops = []
        for _ in range(length):
            r = rnd.random()
            if r < 0.05:
                ops.append({"k": "salt", "a": rnd.randint(1, ne)})     # resubmission with another signature
            elif r < 0.55:
                ops.append({"k": "store", "a": rnd.randint(1, ne)})
            elif r < 0.75:
                ops.append({"k": "remove", "a": rnd.randint(1, ne)})
            elif r < 0.90:
                ops.append({"k": "pstore", "a": 0, "evs": rnd.sample(range(1, ne + 1), rnd.randint(2, 4))})
            elif r < 0.95:
                ops.append({"k": "vanish", "a": rnd.randint(1, u["nauthors"])})
            else:
                ops.append({"k": "reopen", "a": rnd.randint(0, 1)})
        hs.append(ops)
    return hs


def run(prop, tier, seed, replay=None):
    V = C.Verdict(prop, tier, seed, "model_checking")
    rnd = random.Random("C15-%d" % seed)
    bindir = C.build_harness("dev", bins=["storedrv"])
    wd = C.workdir("C15_%s" % tier)
    if replay:
        rp = json.load(open(replay))["replay"]
        up = os.path.join(wd, "universe.json")
        json.dump(rp["universe"], open(up, "w"))
        jobs = [("replay", up, rp["universe"], [rp["ops"]])]
        mst = mtr = 1
        cex = None
    else:
        r = C.model_check("MC_Steps.tla", "MC_Steps_refsfixed.cfg", {}, workers=4, timeout=600, heap="3g")
        mst, mtr = r["states"], r["transitions"]
        rc, out = C.run_tlc("MC_Steps.tla", "MC_Steps_refs.cfg", env={}, workers=4, timeout=600, heap="3g")
        cex = "Invariant RefsValid is violated" in out
        C.log("[mc] RefsValid: holds with MAY_MOVE=FALSE (%d states); counterexample with MAY_MOVE=TRUE: %s" % (mst, cex))
        n_u, n_h, ln = (4, 25, 60) if tier == "quick" else (30, 80, 150)
        jobs = []
        for name in ["core", "q", "sz"]:       # sz: map geometry (many growth steps, events across chunk and page boundaries)
            up = S.universe_path(name)
            u = json.load(open(up))
            hs0 = histories(u, rnd, n_h, ln)
            if name == "core":
                # parallel stores in which one store is refused AFTER its append (11 names the stored foreign event 1:
                # InvalidDelete) while the others append: whatever the refused one does to the map must not touch theirs
                S_ = lambda i: {"k": "store", "a": i}
                for _ in range(8 if tier == "quick" else 40):
                    h = [S_(1), S_(2)]
                    for _ in range(6):
                        others = rnd.sample([3, 4, 5, 6, 7, 9, 10, 12, 13], 3)
                        evs = others + [11]
                        rnd.shuffle(evs)
                        h.append({"k": "pstore", "a": 0, "evs": evs})
                        h.append({"k": "remove", "a": rnd.choice(others)})
                    hs0.append(h)
            if name == "sz":
                # two ephemeral events of one author and kind back to back (nothing is indexed, the offsets stay readable)
                S_ = lambda i: {"k": "store", "a": i}
                hs0 += [[S_(22), S_(28), S_(1), S_(22)], [S_(1), S_(28), S_(22), S_(28), S_(2)], [S_(22), S_(28)]]
            jobs.append((name, up, u, hs0))
        for j in range(n_u):
            name = "r%d" % (seed * 1000 + 500 + j)
            up = S.universe_path(name)
            u = json.load(open(up))
            jobs.append((name, up, u, histories(u, rnd, n_h, ln)))
    calls = hist = 0
    moved = growths = 0
    samples = []
    keys = {}
    for name, up, u, hs in jobs:
        tfiles = S.run_storedrv(bindir, up, hs, wd, name, on_disk=(name == "sz"))
        bad, lines = S.judge("C15", up, tfiles)
        for t in tfiles:
            prev = None
            for l in open(t):
                r = json.loads(l)
                if r["k"] == "reset":
                    hist += 1
                else:
                    calls += 1
                    if prev and prev["st"].get("open") == 1 and r["st"].get("open") == 1 and r["st"]["gen"] == prev["st"]["gen"] \
                            and r["st"]["flen"] > prev["st"]["flen"] and r["k"] in ("store", "pstore"):
                        growths += 1
                        if prev["st"]["nheld"] > 0 and prev["st"]["rbase"] != r["st"]["rbase"]:
                            moved += 1
                prev = r
        if len(samples) < 3 and hs:
            samples.append(dict(universe=name, history=[[o["k"], o.get("a", 0)] for o in hs[0][:15]]))
        for b in bad:
            key = "C15:%s:%s" % ("+".join(b["clauses"]), b["k"])
            keys[key] = keys.get(key, 0) + 1
            if keys[key] > 3:
                continue
            lines_h = S.history_of(b["trace"], b["h"])
            ops = []
            for r in lines_h:
                if r["k"] in ("reset", "crash"):
                    continue
                ops.append(dict(k=r["k"], a=r["a"]))
            # the recorded lines do not carry pstore's event list: take the ops from the generated history
            hid = b["h"]
            what = "%s at call %s(%d) -> %s: base before %s, after %s, file length %s -> %s (universe %s)" % (
                ",".join(b["clauses"]), b["k"], b["a"], b["res"],
                _st(lines_h, b, -1, "rbase"), _st(lines_h, b, 0, "rbase"), _st(lines_h, b, -1, "flen"), _st(lines_h, b, 0, "flen"), name)
            V.violation(key, what, dict(kind="refs_history", universe=u, ops=hs[hid] if hid < len(hs) else ops, clauses=b["clauses"]))
    C.log("[C15] %d histories, %d calls, %d growth steps with references held, %d of them moved the mapping; keys %s" %
          (hist, calls, growths, moved, keys))
    V.coverage = dict(
        states=mst, transitions=mtr, traces_validated_against_impl=hist, samples=samples,
        evaluations=calls, distinct_nontrivial=growths,
        rule="cases = public calls of histories that hold references (by offset, by id, from a query) taken after every "
             "successful store; non-trivial = calls that enlarge the backing file while references are held (counted: growth steps)",
        growth_steps_with_refs=growths, growth_steps_that_moved_the_mapping=moved,
        design_counterexample_with_MAY_MOVE=cex, violation_keys=keys,
    )
    V.assumptions = ["address stability is an observation about one process's address space",
                     "stale references (taken from a mapping that has moved) are never dereferenced by the harness"]
    return V.finish()


def _st(lines_h, b, delta, field):
    # lines_h[0] is the reset line; trace line numbers are global, so locate by call position
    idx = None
    for i, r in enumerate(lines_h):
        if r["k"] == b["k"] and r["a"] == b["a"] and r["res"] == b["res"]:
            idx = i
    if idx is None or idx + delta < 0:
        return "?"
    return lines_h[idx + delta]["st"].get(field)
