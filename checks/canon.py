"""Check of property C08: event verification = NIP-01 canonical serialisation + SHA-256 id + BIP-340.

  1. TLC model-checks spec/NostrCanon.tla (Canon has a left inverse on every enumerated and every
     tampered event; every Tamper step changes the canonical text <=> verification must reject;
     non-canonical spellings are different texts) and, in the same run, emits
       CASE  lines: an enumerated event + its canonical text (+ non-canonical texts of the same fields),
       TCASE lines: (original event, tampered event, expected verdict).
  2. harness/src/bin/canondrv.rs runs the real code on every case: sign_new / id / verify, the
     independent canonicaliser (SHA-256 of the spec's text computed directly; serde_json as a
     cross-check of the tool chain), and verify() of every single-field mutation.
  3. The verdict compares the observations with the specification's expectation.
SHA-256 and BIP-340 (libsecp256k1) are trusted primitives.
"""
import json
import os
import random
import subprocess
import sys
import time

sys.path.insert(0, os.path.join(os.path.dirname(os.path.abspath(__file__)), "..", "lib"))
import common as C

PROP = "C08"

TIERS = {
    # cfg, TLC timeout, tamper cases executed (None = all), events with all 1024 bits flipped, shards, shard timeout
    "quick": dict(cfg="MC_NostrCanon_quick.cfg", tlc_timeout=300, tcases=12000, full=160, shards=4, timeout=150),
    "thorough": dict(cfg="MC_NostrCanon_thorough.cfg", tlc_timeout=1500, tcases=None, full=5000, shards=4, timeout=900),
}

# strings that are NOT valid UTF-8 lie outside the property's domain ("strings over Unicode"): observed, never judged
PROBES = [
    ("f4908080", "code point 0x110000 (beyond Unicode)"),
    ("f7bfbfbf", "code point 0x1fffff (beyond Unicode)"),
    ("eda080", "encoded surrogate U+D800"),
    ("c0af", "overlong '/'"),
    ("80", "lone continuation byte"),
    ("e282", "truncated 3-byte sequence"),
    ("ff", "byte 0xff"),
]


def unescape(s):
    return s.replace('\\"', '"').replace("\\\\", "\\")


def run_spec(tier, wd):
    """TLC: model check + emission.  Returns (states, transitions, path of raw output)."""
    conf = TIERS[tier]
    raw = os.path.join(wd, "tlc.out")
    t0 = time.time()
    rc, _ = C.run_tlc("NostrCanon.tla", conf["cfg"], workers=4, timeout=conf["tlc_timeout"], heap="4g", stack="1g", out_path=raw)
    ok = False
    tail = []
    gen = dist = 0
    with open(raw, errors="replace") as f:
        for line in f:
            if line.startswith('<<"CASE"') or line.startswith('<<"TCASE"'):
                continue
            tail.append(line)
            if len(tail) > 60:
                tail.pop(0)
            if "Model checking completed. No error has been found." in line:
                ok = True
            m = C.RE_STATES.search(line)
            if m:
                gen, dist = int(m.group(1)), int(m.group(2))
    if not ok:
        raise C.ToolError("model check of NostrCanon.tla/%s did not pass (rc=%s):\n%s" % (conf["cfg"], rc, "".join(tail)[-3000:]))
    C.log("[mc] NostrCanon/%s: %d distinct states, %d generated, %.1fs" % (conf["cfg"], dist, gen, time.time() - t0))
    return dist, gen, raw


def char_class(cps):
    """the most special escape class among the code points (used in violation keys)"""
    order = ["ctl_u", "ctl_short", "quote", "backslash", "del", "slash", "utf8_4", "utf8_3", "utf8_2", "plain"]
    seen = set()
    for c in cps:
        if c in (8, 9, 10, 12, 13):
            seen.add("ctl_short")
        elif c < 32:
            seen.add("ctl_u")
        elif c == 34:
            seen.add("quote")
        elif c == 92:
            seen.add("backslash")
        elif c == 127:
            seen.add("del")
        elif c == 47:
            seen.add("slash")
        elif c >= 65536:
            seen.add("utf8_4")
        elif c >= 2048:
            seen.add("utf8_3")
        elif c >= 128:
            seen.add("utf8_2")
        else:
            seen.add("plain")
    for k in order:
        if k in seen:
            return k
    return "empty"


def all_cps(c):
    out = list(c["content"])
    for t in c["tags"]:
        for s in t:
            out += s
    return out


def ts_str(d):
    return "".join(str(x) for x in d) if isinstance(d, list) else str(d)


def case_class(c):
    if c.get("f") == "num":
        ts = ts_str(c["ts"])
        return "num:kind%s:ts%s" % ("16bit" if c["kind"] > 255 else "8bit",
                                    "64bit" if int(ts) >= 2 ** 32 else "32bit" if int(ts) >= 2 ** 31 else "31bit")
    shape = "notags" if not c["tags"] else "tags%dx%d" % (len(c["tags"]), max(len(t) for t in c["tags"]))
    return "%s:%s:%s" % (c.get("f", "?"), shape, char_class(all_cps(c)))


def text(cps):
    return "".join(chr(x) for x in cps)


def nontrivial(c):
    """an event is non-trivial when its canonical text depends on more than plain printable ASCII in an
    empty structure: a character that needs escaping or is multi-byte / DEL / '/', at least one tag, or
    a created_at / kind other than 1"""
    return (any(x < 32 or x in (34, 92, 47, 127) or x >= 128 for x in all_cps(c)) or len(c["tags"]) > 0
            or ts_str(c["ts"]) != "1" or c["kind"] != 1)


def load_cases(raw, tier, rnd):
    """CASE lines are parsed (they are judged field by field); TCASE lines are sampled and passed on raw"""
    conf = TIERS[tier]
    cases, traw = [], []
    with open(raw, errors="replace") as f:
        for line in f:
            if line.startswith('<<"CASE", "'):
                cases.append(json.loads(unescape(line.rstrip("\n")[len('<<"CASE", "'):-3])))
            elif line.startswith('<<"TCASE", "'):
                traw.append(line.rstrip("\n")[len('<<"TCASE", "'):-3])
    if not cases:
        raise C.ToolError("TLC emitted no CASE line")
    n_t = len(traw)
    if conf["tcases"] is not None and n_t > conf["tcases"]:
        traw = rnd.sample(traw, conf["tcases"])
    # tamper cases stay serialised (there are hundreds of thousands); they are parsed on demand
    tcases = [unescape(x) for x in traw]
    return cases, tcases, n_t


def choose_full(cases, n, rnd):
    """events on which every one of the 1024 bits of id / pubkey / sig is flipped: every family,
    preferring structure; seed-sampled"""
    by = {}
    for i, c in enumerate(cases):
        by.setdefault(c["f"], []).append(i)
    chosen = set()
    fams = sorted(by)
    per = max(1, n // len(fams))
    for f in fams:
        idx = by[f]
        chosen.update(rnd.sample(idx, min(per, len(idx))))
    return chosen


MAX_CRASHES = 1500      # per shard; beyond that the rest of the shard is reported as not executed


def run_shard(binary, path, ncases, timeout, respath):
    """runs one shard; a crash or hang of the harness costs exactly the case in progress"""
    skip = 0
    crashes = []
    with open(respath, "w") as out:
        while skip < ncases:
            try:
                p = subprocess.run([binary, "run", path, str(skip)], stdout=subprocess.PIPE, stderr=subprocess.PIPE,
                                   timeout=timeout)
                rc, so, se = p.returncode, p.stdout, p.stderr
            except subprocess.TimeoutExpired as e:
                rc, so, se = "hang", e.stdout or b"", e.stderr or b""
            lines = [l for l in so.decode("utf-8", "replace").split("\n") if l.strip()]
            if rc != 0 and lines and not lines[-1].endswith("}"):
                lines.pop()
            for l in lines:
                out.write(l + "\n")
            if rc == 0:
                break
            if rc == "hang" or rc < 0:
                bad = skip + len(lines)
                crashes.append((bad, "hang" if rc == "hang" else "signal %d" % -rc))
                skip = bad + 1
                if len(crashes) >= MAX_CRASHES or sum(1 for _, w in crashes if w == "hang") >= 3:
                    break
                continue
            raise C.ToolError("canondrv failed with exit code %s near case %d of %s: %s" % (
                rc, skip + len(lines), path, se.decode("utf-8", "replace")[-500:]))
    return crashes


def execute(bindir, wd, items, conf):
    """items: list of (i, case dict | serialised tamper case); returns {i: observation}"""
    import concurrent.futures as cf
    binary = os.path.join(bindir, "canondrv")
    k = conf["shards"]
    shards = [items[j::k] for j in range(k)]
    paths = []
    for j, sh in enumerate(shards):
        p = os.path.join(wd, "cases_%d.ndjson" % j)
        with open(p, "w") as f:
            for i, c in sh:
                if isinstance(c, str):
                    f.write('{"i":%d,"t":"tamper",%s\n' % (i, c[1:]))
                else:
                    f.write(json.dumps(dict(c, i=i), separators=(",", ":")) + "\n")
        paths.append(p)
    obs = {}
    crashed = []
    with cf.ThreadPoolExecutor(max_workers=k) as ex:
        futs = [ex.submit(run_shard, binary, paths[j], len(shards[j]), conf["timeout"], paths[j] + ".res")
                for j in range(k) if shards[j]]
        for j, fu in enumerate(futs):
            for pos, why in fu.result():
                crashed.append((shards[j][pos][0], why))
    for j in range(k):
        rp = paths[j] + ".res"
        if os.path.exists(rp):
            with open(rp) as f:
                for l in f:
                    r = json.loads(l)
                    obs[r["i"]] = r
    for i, why in crashed:
        obs[i] = dict(i=i, t="crash", crash=why)
    if not os.environ.get("VERIF_KEEP"):
        for p in paths:           # hundreds of MB in the thorough tier; the replay files carry what matters
            for q in (p, p + ".res"):
                if os.path.exists(q):
                    os.remove(q)
    return obs


def judge_case(c, r):
    """compare one observation with the specification's expectation; returns [(what, detail)] and
    raises ToolError when the tool chain itself disagrees (spec text vs serde_json)"""
    out = []
    cls = case_class(c)
    if r.get("t") == "crash":
        return [("crash_%s:%s" % (r["crash"].split()[0], cls),
                 "the process died/hung inside the code under test while running this case (%s)" % r["crash"])]
    if not r["serde_same"]:
        raise C.ToolError("the specification's canonical text and serde_json disagree (tool error, not a verdict) on %s: "
                          "spec %r serde %r" % (json.dumps({k: c[k] for k in ("ts", "kind", "tags", "content")}),
                                                text(c["canon"]), r.get("serde_text")))
    if c["expect"] != "accept":
        raise C.ToolError("CASE line with expectation %r" % c["expect"])
    if r["sign"] != "ok":
        out.append(("sign_new_%s" % r["sign"].split(":")[0], "sign_new -> %s" % r["sign"]))
    else:
        if r["id_impl"] != r["id_spec"]:
            out.append(("id_mismatch", "sign_new(...).id() = %s but SHA-256 of the canonical text %r is %s" % (
                r["id_impl"], text(c["canon"]), r["id_spec"])))
        if r["v_signed"] != "ok":
            out.append(("signed_event_%s" % ("panics" if r["v_signed"].startswith("panic") else "rejected"),
                        "verify() of the event made by sign_new -> %s" % r["v_signed"]))
    if r["v_indep"] != "ok":
        out.append(("valid_event_%s" % ("panics" if r["v_indep"].startswith("panic") else "rejected"),
                    "verify() of a correctly hashed (id = SHA-256 of %r) and signed event -> %s" % (text(c["canon"]), r["v_indep"])))
    for b in r["bad"]:
        name = b["name"].split(":")[0] if not b["name"].startswith("noncanonical") else b["name"]
        if b["outcome"] == "ok":
            out.append(("accepted_%s" % name, "verify() ACCEPTED the event after mutation %s (the binary event is in the replay file)" % b["name"]))
        else:
            out.append(("panic_on_%s" % name, "verify() -> %s after mutation %s (the binary event is in the replay file)" % (b["outcome"], b["name"])))
    return [("%s:%s" % (w, cls), d) for w, d in out]


def judge_tamper(c, r):
    if r.get("t") == "crash":
        return [("crash_%s:tamper_%s:%s" % (r["crash"].split()[0], c["name"], case_class(dict(c["m"], f="tamper"))),
                 "the process died/hung inside the code under test (%s) on the tampered event %s" % (
                     r["crash"], json.dumps({k: c["m"][k] for k in ("pkflip", "ts", "kind", "tags", "content")})))]
    if c["expect"] != "reject":
        raise C.ToolError("TCASE line with expectation %r (the spec's own invariant forbids it)" % c["expect"])
    if r["same"]:
        raise C.ToolError("tampered event equals the original after concretisation: %s" % json.dumps(c))
    if r["base"] != "ok":
        return []      # the original does not verify: reported through its own CASE line
    if r["v"].startswith("err:"):
        return []
    w = "accepted_tamper" if r["v"] == "ok" else "panic_on_tamper"
    return [("%s_%s:%s" % (w, c["name"], case_class(dict(c["m"], f="tamper"))),
             "verify() -> %s for the event with original fields %s tampered (%s) into %s, carrying the original id and signature" % (
                 r["v"], json.dumps({k: c["o"][k] for k in ("ts", "kind", "tags", "content")}), c["name"],
                 json.dumps({k: c["m"][k] for k in ("pkflip", "ts", "kind", "tags", "content")})))]


def pretty(c):
    return dict(family=c.get("f"), created_at=ts_str(c["ts"]), kind=c["kind"], tags=[[text(s) for s in t] for t in c["tags"]],
                content=text(c["content"]), canonical_text=text(c["canon"]) if "canon" in c else None)


def brief(c):
    p = pretty(c)
    return dict(created_at=p["created_at"], kind=p["kind"], tags=p["tags"], content=p["content"])


def run(prop, tier, seed, replay=None):
    V = C.Verdict(prop, tier, seed, "model_checking")
    rnd = random.Random("%s-%d" % (prop, seed))
    bindir = C.build_harness("dev", bins=["canondrv"])
    wd = C.workdir("%s_%s" % (prop, tier))
    conf = TIERS[tier]
    if replay:
        return run_replay(replay, bindir, wd, V, conf)

    states, transitions, raw = run_spec(tier, wd)
    cases, tcases, n_t = load_cases(raw, tier, rnd)
    os.remove(raw)
    full = choose_full(cases, conf["full"], rnd)
    items = []
    for i, c in enumerate(cases):
        c["t"], c["full"] = "case", i in full
        c["pkhex"] = c["canon"][4:68]
        items.append((i, c))
    for j, c in enumerate(tcases):
        items.append((len(cases) + j, c))
    probes = [(len(items) + j, dict(t="probe", content_hex=h, what=w)) for j, (h, w) in enumerate(PROBES)]
    items += probes
    t0 = time.time()
    obs = execute(bindir, wd, items, conf)
    C.log("[%s] %d events + %d tamper cases executed in %.1fs" % (prop, len(cases), len(tcases), time.time() - t0))

    missing = [i for i, _ in items if i not in obs]
    n_crashed = sum(1 for r in obs.values() if r.get("t") == "crash")
    if missing and n_crashed == 0:
        raise C.ToolError("%d cases have no observation (first: %d)" % (len(missing), missing[0]))
    if missing:
        C.log("[%s] %d cases not executed: the harness died %d times (each death is reported for its case)" % (
            prop, len(missing), n_crashed))
        missing_set = set(missing)
        items = [(i, c) for i, c in items if i not in missing_set]
        probes = [(i, p) for i, p in probes if i not in missing_set]

    n_verify = n_mut = 0
    kept = {}
    seen_case = set()
    total_viol = 0
    for i, c in items:
        r = obs[i]
        n_verify += r.get("n_verify", 0)
        n_mut += r.get("n_mut", 0)
        if isinstance(c, str):
            if r.get("t") == "tamper" and r["base"] == "ok" and not r["same"] and r["v"].startswith("err:") \
                    and '"expect":"reject"' in c:
                continue          # rejected, as the specification expects
            c = dict(json.loads(c), t="tamper")
            found = judge_tamper(c, r)
        elif c["t"] == "case":
            found = judge_case(c, r)
        else:
            found = []
        for what, detail in found:
            total_viol += 1
            key = "%s:%s" % (prop, what)
            kept[key] = kept.get(key, 0) + 1
            if kept[key] > 2 or len(V.violations) >= 300 or (key, i) in seen_case:
                continue
            seen_case.add((key, i))
            cc = dict(c)
            if c["t"] == "case":
                cc["full"] = True
            V.violation(key, "%s: %s; event %s" % (what, detail, json.dumps(brief(c) if c["t"] == "case" else c["name"])),
                        dict(kind="canon_case", case=cc, failed=what, observed=r))
    # most specific first: an id mismatch explains the rest
    V.violations.sort(key=lambda v: (0 if "id_mismatch" in v["key"] or "valid_event" in v["key"] else 1))

    distinct = set()
    for c in cases:
        if nontrivial(c):
            distinct.add(tuple(c["canon"]))
    dt = set()
    for c in tcases:
        dt.add(c[c.index('"o":'):])          # the (original, tampered) pair, without the tamper's name
    fam = {}
    for c in cases:
        fam[c["f"]] = fam.get(c["f"], 0) + 1
    alphabet = sorted({x for c in cases if c["f"] in ("content", "tagstr") for x in all_cps(c)})
    V.coverage = dict(
        states=states, transitions=transitions,
        traces_validated_against_impl=len(cases) + len(tcases) - len(missing) - n_crashed,
        samples=[pretty(cases[i]) for i in sorted(rnd.sample(range(len(cases)), min(4, len(cases))))]
                + ([json.loads(tcases[0])] if tcases else []),
        evaluations=n_verify, distinct_nontrivial=len(distinct) + len(dt),
        rule="cases = events enumerated by TLC from NostrCanon.tla (strings of length <= 2 over the alphabet below in content "
             "and in a tag, 3 over a sub-alphabet in the thorough tier; tag structures; nested-looking strings; kind / created_at "
             "boundaries) each executed through sign_new + verify + an independently hashed and signed copy + every single-field "
             "mutation, plus TLC-emitted (original, tampered) pairs; evaluations = individual verify() calls; distinct = distinct "
             "canonical texts; non-trivial = the text depends on an escaped / multi-byte / DEL / '/' character, on at least one tag, "
             "or on a kind / created_at other than 1 (plain-ASCII events without tags are not counted); every distinct TLC tamper "
             "pair counts as one more non-trivial case",
        events=len(cases), events_by_family=fam, tamper_cases_in_spec=n_t, tamper_cases_executed=len(tcases),
        mutations_executed=n_mut, events_with_all_1024_bits_flipped=len(full),
        alphabet_size=len(alphabet), alphabet_ascii_complete=all(x in alphabet for x in range(128)),
        harness_deaths=n_crashed, cases_not_executed=len(missing), violations_total=total_viol,
        violation_keys=dict(sorted(kept.items(), key=lambda kv: -kv[1])[:40]),
        out_of_domain_observations=[dict(content_hex=p["content_hex"], what=p["what"], verify=obs[i].get("verify", obs[i].get("crash")),
                                         sign_new=obs[i].get("sign_new", obs[i].get("crash"))) for i, p in probes],
        model=dict(module="NostrCanon.tla", cfg=conf["cfg"]),
        exhaustive=False,
    )
    V.assumptions = ["SHA-256 and BIP-340 (libsecp256k1) are trusted: collision-free / unforgeable",
                     "strings are valid UTF-8 (the property quantifies over Unicode strings); byte strings that are not "
                     "UTF-8 are observed (out_of_domain_observations) but not judged",
                     "canonical form: the seven NIP-01 short escapes, \\u00xx (lower case) for the other C0 controls, everything "
                     "else verbatim - the form serde_json and the other nostr implementations produce; cross-checked against "
                     "serde_json on every case",
                     "bounded: strings of length <= 2 (3 over a sub-alphabet) and the listed structures; bits of id/pubkey/sig "
                     "are all flipped on a subset of events and sampled (rotating) on the others"]
    return V.finish()


def run_replay(path, bindir, wd, V, conf):
    rp = json.load(open(path))["replay"]
    c = rp["case"]
    obs = execute(bindir, wd, [(0, c)], dict(conf, shards=1))
    r = obs[0]
    print("  case: %s" % json.dumps(pretty(c) if c["t"] == "case" else c))
    print("  observed: %s" % json.dumps({k: v for k, v in r.items() if k != "bad"}))
    for b in r.get("bad", []):
        print("  not rejected: %s -> %s" % (b["name"], b["outcome"]))
    found = judge_case(c, r) if c["t"] == "case" else judge_tamper(c, r)
    for what, detail in found:
        V.violation("%s:%s" % (PROP, what), "replayed: %s: %s" % (what, detail), rp)
    V.coverage = dict(states=1, transitions=1, traces_validated_against_impl=1, samples=[pretty(c) if c["t"] == "case" else c],
                      evaluations=max(1, r.get("n_verify", 1)), distinct_nontrivial=1 + r.get("n_mut", 0),
                      rule="replay of one recorded case: the case itself plus each mutated event derived from it")
    return V.finish()
