"""C06 - the filter/event match predicate equals NIP-01 semantics.

  1. TLC enumerates the (filter, event) grammar of spec/NostrMatch.tla (one initial state per
     pair), model-checks the laws of the predicate itself (`Sanity`) on every pair and prints one
     CASE line per pair with the specification's boolean `Matches(f, e)` (the same operator as
     PocketQuery!Matches).
  2. harness/src/bin/matchdrv.rs lays the operands out by hand (vh::build_event / build_tags and
     the filter layout), calls `Filter::event_matches` and compares.  `Err` or a panic on these
     well-formed operands is a violation as well.
  3. The same operands built through OwnedFilter::new / OwnedEvent::new and the JSON parsers are
     compared with the by-hand ones; differences are reported in the evidence (`path_divergence`)
     but never decide the verdict of C06 (they are C19 / C01 / C07's business).
"""
import json
import os
import re
import shutil
import subprocess
import sys
import time

sys.path.insert(0, os.path.join(os.path.dirname(os.path.abspath(__file__)), "..", "lib"))
import common as C

RE_CASE = re.compile(r'^<<"CASE", "(.*)">>$')
NSHARD = 4
NV = 4          # concretisation variants in matchdrv


def generate(tier, wd):
    """TLC: model-check Sanity on every pair and emit the cases.  Returns (shard files, n, states, transitions)"""
    cfg = "Gen_NostrMatch_%s.cfg" % tier
    out = os.path.join(wd, "gen.out")
    t0 = time.time()
    rc, _ = C.run_tlc("NostrMatch.tla", cfg, workers=1, timeout=900 if tier == "thorough" else 240, heap="4g",
                      out_path=out, metadir=os.path.join(wd, "md_gen"))
    shards = [open(os.path.join(wd, "cases_%d.ndjson" % k), "w") for k in range(NSHARD)]
    n = 0
    ok = False
    tail = []
    with open(out, errors="replace") as f:
        for line in f:
            m = RE_CASE.match(line.rstrip("\n"))
            if m:
                s = m.group(1).replace('\\"', '"').replace("\\\\", "\\")
                shards[n % NSHARD].write('{"i":%d,%s\n' % (n, s[1:]))
                n += 1
            else:
                if "Model checking completed. No error has been found." in line:
                    ok = True
                tail.append(line)
                if len(tail) > 60:
                    tail.pop(0)
    for s in shards:
        s.close()
    text = "".join(tail)
    gen, dist = C.tlc_counts(text)
    if not ok or rc != 0:
        raise C.ToolError("TLC on NostrMatch.tla/%s did not pass (the spec's own laws must hold):\n%s" % (cfg, text[-3000:]))
    if n != dist or n == 0:
        raise C.ToolError("CASE lines (%d) != distinct states (%d): broken TLC output" % (n, dist))
    C.log("[tlc] NostrMatch %s: %d pairs (%d generated) in %.1fs" % (tier, dist, gen, time.time() - t0))
    os.remove(out)
    return [s.name for s in shards], n, dist, gen


def run_drv(binpath, cases, out, extra, timeout):
    cmd = [binpath, "--cases", cases, "--out", out] + extra
    return subprocess.Popen(cmd, stdout=subprocess.PIPE, stderr=subprocess.STDOUT, text=True), timeout


def run_cases(binpath, files, wd, tag, extra, timeout=600):
    """run matchdrv on every shard in parallel; a crashed / hung shard is bisected down to the case"""
    procs = []
    for k, fpath in enumerate(files):
        out = os.path.join(wd, "sum_%s_%d.json" % (tag, k))
        if os.path.exists(out):
            os.remove(out)
        p, _ = run_drv(binpath, fpath, out, extra, timeout)
        procs.append((p, fpath, out))
    sums, crashes = [], []
    deadline = time.time() + timeout
    for p, fpath, out in procs:
        try:
            p.communicate(timeout=max(1, deadline - time.time()))
            rc = p.returncode
        except subprocess.TimeoutExpired:
            p.kill()
            p.communicate()
            rc = -9
        if rc == 0 and os.path.exists(out):
            sums.append(json.load(open(out)))
        else:
            C.log("[matchdrv] shard %s ended with rc=%s: isolating the case" % (os.path.basename(fpath), rc))
            lines = open(fpath).read().splitlines()
            s, cr = isolate(binpath, lines, wd, extra, rc)
            sums += s
            crashes += cr
    return sums, crashes


def isolate(binpath, lines, wd, extra, rc0, depth=0):
    if not lines:
        return [], []
    if len(lines) == 1:
        return [], [dict(case=json.loads(lines[0]), rc=rc0)]
    sums, crashes = [], []
    mid = len(lines) // 2
    for part in (lines[:mid], lines[mid:]):
        fp = os.path.join(wd, "iso_%d_%d.ndjson" % (depth, os.getpid()))
        open(fp, "w").write("\n".join(part) + "\n")
        out = fp + ".sum"
        if os.path.exists(out):
            os.remove(out)
        try:
            p = subprocess.run([binpath, "--cases", fp, "--out", out] + extra, stdout=subprocess.PIPE,
                               stderr=subprocess.STDOUT, timeout=120)
            rc = p.returncode
        except subprocess.TimeoutExpired:
            rc = -9
        if rc == 0 and os.path.exists(out):
            sums.append(json.load(open(out)))
        else:
            s, c = isolate(binpath, part, wd, extra, rc, depth + 1)
            sums += s
            crashes += c
    return sums, crashes


def clause_truth(case):
    f, e = case["f"], case["e"]
    t = {}
    t["ids"] = (not f["ids"]) or e["id"] in f["ids"]
    t["authors"] = (not f["authors"]) or e["au"] in f["authors"]
    t["kinds"] = (not f["kinds"]) or e["kind"] in f["kinds"]
    t["since"] = f["since"] <= e["ts"]
    t["until"] = e["ts"] <= f["until"]
    t["tags"] = all(any(len(tg) >= 2 and tg[0] == c["name"] and tg[1] in c["vals"] for tg in e["tags"]) for c in f["tags"])
    return t


def classify(case, want, got):
    """violation key: the input class of the failing pair"""
    f, e = case["f"], case["e"]
    t = clause_truth(case)
    g = got.split(":")[0]
    if want == "false":
        return "C06:spec_false_impl_%s:failing_clauses=%s" % (g, "+".join(k for k in t if not t[k]))
    # spec true: which clauses were satisfied non-trivially, and on which boundary
    feats = []
    for k in ("ids", "authors", "kinds"):
        if f[k]:
            key = {"ids": "id", "authors": "au", "kinds": "kind"}[k]
            if f[k].index(e[key]) > 0:
                feats.append("%s_match_not_first_listed" % k)
    if f["since"] > 0:
        feats.append("since%sts" % ("=" if f["since"] == e["ts"] else "<"))
    if f["until"] < 4:
        feats.append("until%sts" % ("=" if f["until"] == e["ts"] else ">"))
    if e["ts"] in (0, 4):
        feats.append("ts=%s" % ("0" if e["ts"] == 0 else "MAX"))
    if f["tags"]:
        feats.append("tagcons=%d" % len(f["tags"]))
        if any(len(c["name"]) != 1 for c in f["tags"]):
            feats.append("name_not_single_letter")
        if any(len(c["vals"]) > 1 and any(len(tg) >= 2 and tg[0] == c["name"] and tg[1] in c["vals"][1:] for tg in e["tags"])
               for c in f["tags"]):
            feats.append("value_not_first_listed")
        if any(len(tg) > 2 for tg in e["tags"]):
            feats.append("event_tag_3_strings")
    return "C06:spec_true_impl_%s:%s" % (g, "+".join(feats) or "no_boundary_feature")


def merge(sums):
    tot = dict(cases=0, evals=0, spec_true=0, nontrivial=0, mismatches=0, mismatch_list=[], paths={}, divergences=[], samples=[])
    for s in sums:
        for k in ("cases", "evals", "spec_true", "nontrivial", "mismatches"):
            tot[k] += s[k]
        tot["mismatch_list"] += s["mismatch_list"]
        tot["divergences"] += s["divergences"]
        tot["samples"] += s["samples"]
        for k, v in s["paths"].items():
            tot["paths"][k] = tot["paths"].get(k, 0) + v
    return tot


def report(V, tot, crashes, profile):
    seen = {}
    for m in sorted(tot["mismatch_list"], key=lambda m: m["i"]):
        key = classify(m["case"], m["want"], m["got"])
        seen[key] = seen.get(key, 0) + 1
        if seen[key] > 2:
            continue
        what = ("Filter::event_matches (%s build, operands laid out by hand) returned %s, NIP-01 semantics (NostrMatch!Matches) "
                "says %s: filter %s event %s (concretisation variant %d)" %
                (profile, m["got"], m["want"], json.dumps(m["case"]["f"]), json.dumps(m["case"]["e"]), m["variant"]))
        V.violation(key, what, dict(kind="match_case", case=m["case"], variant=m["variant"], profile=profile,
                                    filter_hex=m["filter_hex"], event_hex=m["event_hex"], want=m["want"], got=m["got"]))
    for c in crashes:
        V.violation("C06:crash:harness_process_died", "matchdrv died (rc=%s) on case %s" % (c["rc"], json.dumps(c["case"])),
                    dict(kind="match_case", case=c["case"], variant=-1, profile=profile))


def run(prop, tier, seed, replay=None):
    V = C.Verdict(prop, tier, seed, "model_checking")
    profiles = ["release"] if tier == "quick" else ["release", "dev"]
    bindirs = {p: C.build_harness(p, bins=["matchdrv"]) for p in profiles}
    wd = C.workdir("%s_%s" % (prop, tier))
    if replay:
        return run_replay(prop, replay, bindirs, wd, V)

    files, n, states, transitions = generate(tier, wd)
    extra = ["--seed", str(seed)] + (["--all-variants"] if tier == "thorough" else [])
    totals = {}
    for prof in profiles:
        t0 = time.time()
        sums, crashes = run_cases(os.path.join(bindirs[prof], "matchdrv"), files, wd, prof, extra)
        tot = merge(sums)
        totals[prof] = tot
        C.log("[matchdrv] %s: %d pairs, %d evaluations, %d mismatches with the spec, %d crashes in %.1fs" %
              (prof, tot["cases"], tot["evals"], tot["mismatches"], len(crashes), time.time() - t0))
        if tot["cases"] + len(crashes) != n:
            raise C.ToolError("matchdrv processed %d of %d cases" % (tot["cases"], n))
        report(V, tot, crashes, prof)
    t = totals[profiles[0]]
    div = {}
    for prof in profiles:
        for k, v in totals[prof]["paths"].items():
            if "different_answer" in k or "construction_failed" in k:
                div["%s:%s" % (prof, k)] = v
    V.coverage = dict(
        states=states, transitions=transitions,
        traces_validated_against_impl=sum(totals[p]["cases"] for p in profiles),
        samples=t["samples"][:4],
        evaluations=sum(totals[p]["evals"] for p in profiles),
        distinct_nontrivial=t["nontrivial"],
        spec_true=t["spec_true"], spec_false=t["cases"] - t["spec_true"],
        rule="cases = distinct (filter, event) pairs of the grammar of NostrMatch.tla (one TLC state each; TLC's 'transitions' "
             "is the number of generated initial states, the graph has no edges), every one executed on the real "
             "Filter::event_matches with operands laid out by hand; evaluations = calls of event_matches (quick: one "
             "seed-chosen concretisation variant per pair, thorough: all %d, plus the calls on differently-built operands); "
             "non-trivial = the filter constrains something" % NV,
        construction_paths={p: totals[p]["paths"] for p in profiles},
        path_divergence=div,
        path_divergence_examples=[d for p in profiles for d in totals[p]["divergences"]][:8],
        profiles=profiles, exhaustive=True,
        model=dict(module="NostrMatch.tla", cfg="Gen_NostrMatch_%s.cfg" % tier, invariants=["Sanity", "Emit"]),
    )
    if div:
        C.log("[matchdrv] construction-path divergences (not part of the C06 verdict): %s" % json.dumps(div))
    shutil.rmtree(wd, ignore_errors=True)      # case shards are large; replay files carry the failing cases
    V.assumptions = ["exhaustive within the grammar of NostrMatch.tla only (3 values per list, 5 time points, 4 names, 3 values)",
                     "the by-hand layout of vh::build_event / build_tags / the filter layout is what 'well-formed operand' means",
                     "TLC is trusted"]
    return V.finish()


def run_replay(prop, path, bindirs, wd, V):
    rp = json.load(open(path))["replay"]
    prof = rp.get("profile", "release")
    if prof not in bindirs:
        bindirs[prof] = C.build_harness(prof, bins=["matchdrv"])
    fp = os.path.join(wd, "replay.ndjson")
    open(fp, "w").write(json.dumps(rp["case"]) + "\n")
    out = os.path.join(wd, "replay.sum")
    extra = ["--verbose"] + (["--variant", str(rp["variant"])] if rp.get("variant", -1) >= 0 else ["--all-variants"])
    try:
        p = subprocess.run([os.path.join(bindirs[prof], "matchdrv"), "--cases", fp, "--out", out] + extra,
                           stdout=subprocess.PIPE, stderr=subprocess.STDOUT, text=True, timeout=120)
        rc, txt = p.returncode, p.stdout
    except subprocess.TimeoutExpired:
        rc, txt = -9, "timeout"
    print(txt.strip())
    if rc != 0 or not os.path.exists(out):
        V.violation("C06:crash:harness_process_died", "matchdrv died (rc=%s) on the replayed case" % rc, rp)
        tot = dict(cases=1, evals=0, samples=[])
    else:
        tot = merge([json.load(open(out))])
        report(V, tot, [], prof)
    V.coverage = dict(states=1, transitions=1, traces_validated_against_impl=1, samples=[rp["case"]],
                      evaluations=max(1, tot["evals"]), distinct_nontrivial=1, rule="replay of one recorded (filter, event) pair")
    return V.finish()
