"""Check of property C07: filter JSON parsing is faithful, order-independent and round-trips.

  1. TLC model-checks spec/NostrJsonFilter.tla: every state is the description of one filter
     document (abstract tokens); the invariants say that acceptance and meaning (Expect, Den) do
     not depend on member order, whitespace or unknown members, and the three meaning-preserving
     rewrites are the transitions.  The same run emits every state as a CASE line (document,
     expectation, denoted value).  quick: the large families are seed-sampled inside the spec
     (C07_MOD / C07_SEED), but all subsets x orders of the six named members, all 52 x 52
     tag-letter pairs and all integer-boundary combinations are always generated; thorough:
     everything.
  2. harness/src/bin/fjsondrv.rs concretises every document to bytes, parses them with
     serde_json (independent parser; disagreement with the spec's denotation = tool error) and
     with Filter::from_json, compares acceptance / consumed length / accessors, round-trips every
     accepted filter through as_json, and re-parses the document in normal member order.  Bulk
     in the release profile, a sample (and all integer-boundary cases) in the dev profile
     (overflow checks on).
  3. Violations are keyed by failure kind and input class, e.g. C07:rejected:tag_letter_pair:e,a.
"""
import json
import os
import subprocess
import sys
import time

sys.path.insert(0, os.path.join(os.path.dirname(os.path.abspath(__file__)), "..", "lib"))
import common as C

MODULE = "NostrJsonFilter.tla"
CFG = "Gen_NostrJsonFilter.cfg"

# family numbers of spec/NostrJsonFilter.tla (bit numbers of C07_FAMS)
FAM = dict(named0=0, named1=1, named2=2, letters=3, triples=4, quads=5, lists=6, tagvals=7, unknown=8, unknown2=9,
           ws=10, ints=11, may=12, mixed=13, hand=14)

# TLC computes initial states in one thread: parallelism comes from several TLC processes
# (their worker counts add up to 4)
SHARDS = {
    "quick": [  # (families, workers)
        (["named0", "letters", "quads", "lists", "ws", "ints", "may", "hand"], 2),
        (["named1", "named2", "triples", "tagvals", "unknown", "unknown2", "mixed"], 2),
    ],
    "thorough": [
        (["named2", "quads", "lists"], 1),
        (["triples", "named0", "letters"], 1),
        (["mixed", "ws", "ints", "may", "hand"], 1),
        (["unknown2", "named1", "tagvals", "unknown"], 1),
    ],
}
MOD = {"quick": 16, "thorough": 1}
TLC_TIMEOUT = {"quick": 120, "thorough": 420}
DEV_STRIDE = {"quick": 5, "thorough": 4}
DEV_ALWAYS = "int1,int3,kinds,single"
HARNESS_TIMEOUT = {"quick": 60, "thorough": 300}
MAX_REPORTED = 400

LETTERS = "abcdefghijklmnopqrstuvwxyzABCDEFGHIJKLMNOPQRSTUVWXYZ"
BENIGN_VALS = {"plain", "empty", "hex1", "hex2", "space"}


def mask(fams):
    m = 0
    for f in fams:
        m |= 1 << FAM[f]
    return m


def run_tlc_shards(tier, seed, wd):
    """run the TLC shards in parallel; returns (list of output files, states, transitions, per-shard info)"""
    import concurrent.futures as cf
    shards = SHARDS[tier]

    def one(i):
        fams, workers = shards[i]
        out = os.path.join(wd, "tlc_%d.out" % i)
        env = {"C07_MOD": str(MOD[tier]), "C07_SEED": str(seed), "C07_FAMS": str(mask(fams))}
        t0 = time.time()
        rc, _ = C.run_tlc(MODULE, CFG, env=env, workers=workers, timeout=TLC_TIMEOUT[tier], heap="3g", out_path=out)
        ok, gen, dist, ncases = False, 0, 0, 0
        tail = []
        with open(out, errors="replace") as f:
            for line in f:
                if line.startswith('<<"CASE"'):
                    ncases += 1
                    continue
                tail.append(line)
                if len(tail) > 60:
                    tail.pop(0)
                if "Model checking completed. No error has been found." in line:
                    ok = True
                m = C.RE_STATES.search(line)
                if m:
                    gen, dist = int(m.group(1)), int(m.group(2))
        if not ok or rc != 0:
            raise C.ToolError("TLC on %s (families %s) did not pass (rc=%s):\n%s" % (MODULE, fams, rc, "".join(tail)[-3000:]))
        if ncases != dist:
            raise C.ToolError("TLC emitted %d CASE lines for %d distinct states (families %s)" % (ncases, dist, fams))
        return dict(out=out, families=fams, states=dist, transitions=gen, cases=ncases, wall=round(time.time() - t0, 1))

    with cf.ThreadPoolExecutor(max_workers=len(shards)) as ex:
        infos = list(ex.map(one, range(len(shards))))
    return infos


def run_harness(binpath, case_files, out_path, extra, timeout, wd, tag):
    """Run fjsondrv over the case files.  A crash or hang of the batch is isolated to one case:
    the driver records the number of the case it is working on (--mark) and is restarted behind it.
    Returns (failure records, summaries, crashes)."""
    fails, summaries, crashes = [], [], []
    start = 0
    mark = os.path.join(wd, "mark_%s" % tag)
    for attempt in range(25):
        cmd = [binpath, "run", "--out", out_path, "--from", str(start), "--mark", mark] + extra
        for cf_ in case_files:
            cmd += ["--cases", cf_]
        if os.path.exists(mark):
            os.remove(mark)
        t0 = time.time()
        try:
            p = subprocess.run(cmd, stdout=subprocess.PIPE, stderr=subprocess.STDOUT, text=True, timeout=timeout)
            rc, how = p.returncode, "exit %d" % p.returncode
            outtxt = p.stdout
        except subprocess.TimeoutExpired as e:
            rc, how, outtxt = -999, "hang (no result within %ds)" % timeout, (e.stdout or "")
        if rc == 2:
            raise C.ToolError("fjsondrv (%s): %s" % (tag, (outtxt or "")[-3000:]))
        got_summary = False
        if os.path.exists(out_path):
            for line in open(out_path, errors="replace"):
                try:
                    r = json.loads(line)
                except ValueError:
                    continue  # torn last line of a crashed batch
                if "summary" in r:
                    summaries.append(r["summary"])
                    got_summary = True
                else:
                    fails.append(r)
        if rc == 0 and got_summary:
            C.log("[fjsondrv %s] %d cases executed in %.1fs" % (tag, summaries[-1]["executed"], time.time() - t0))
            return fails, summaries, crashes
        # crashed or hung: which case?
        if not os.path.exists(mark):
            raise C.ToolError("fjsondrv (%s) died before its first case: %s %s" % (tag, how, (outtxt or "")[-1000:]))
        k = int(open(mark).read().strip() or "0")
        # describe the case the batch died in (concretised by the driver without running the code under test)
        shown = os.path.join(wd, "show_%s.ndjson" % tag)
        cmd = [binpath, "run", "--out", shown, "--show", str(k)]
        for cf_ in case_files:
            cmd += ["--cases", cf_]
        rec = None
        if subprocess.run(cmd, stdout=subprocess.DEVNULL, stderr=subprocess.DEVNULL, timeout=timeout).returncode == 0:
            for line in open(shown):
                r = json.loads(line)
                if "summary" not in r:
                    rec = r
        crashes.append(dict(case=k, how=how, rec=rec))
        C.log("[fjsondrv %s] %s at case %d; continuing behind it" % (tag, how, k))
        start = k + 1
    raise C.ToolError("fjsondrv (%s): more than 25 crashes/hangs" % tag)


# ------------------------------------------------------------------------------------------------
# violation keys: failure kind + input class
# ------------------------------------------------------------------------------------------------

def member_name(m):
    if m["k"] == "tag":
        return "#" + LETTERS[m["l"] - 1]
    if m["k"] == "unk":
        return "?" + m["key"]
    return m["k"]


def input_class(r):
    d = r.get("doc") or {}
    mem = d.get("mem", []) if isinstance(d, dict) else []
    fam, kind, field = r.get("fam", ""), r["kind"], r.get("field", "")
    if field in ("limit", "since", "until", "kinds") and kind in ("wrapped", "panic", "mismatch"):
        for m in mem:
            if m["k"] == field:
                return "%s=%s" % (field, ",".join(m["v"]))
    if kind.startswith("as_json") or kind.startswith("roundtrip"):
        vals = [v for m in mem if m["k"] == "tag" for v in m["v"] if v not in BENIGN_VALS]
        if vals:
            return "tag_value_" + vals[0]
        if fam == "hand":
            return "hand_built:" + ",".join(member_name(m) for m in mem)
    letters = [LETTERS[m["l"] - 1] for m in mem if m["k"] == "tag"]
    if fam in ("single", "pairs", "triples", "quads"):
        name = {1: "tag_letter", 2: "tag_letter_pair", 3: "tag_letter_triple"}.get(len(letters), "tag_letters")
        return "%s:%s" % (name, ",".join(letters))
    unk = [m for m in mem if m["k"] == "unk"]
    if unk and fam in ("unknown", "unknown2", "mixed", "ws"):
        pos = [i for i, m in enumerate(mem) if m["k"] == "unk"][0]
        return "unknown_member:%s=%s@%d" % (unk[0]["key"], unk[0]["v"][0], pos)
    if fam == "ws":
        return "whitespace:%s@gap%s" % (d["ws"][1], d["ws"][0])
    if fam in ("tagval1", "tagval2", "tagval3"):
        return "tag_values:" + ",".join(v for m in mem if m["k"] == "tag" for v in m["v"])
    if fam == "lists":
        return "list_sizes:" + ",".join("%s=%d" % (member_name(m), len(m["v"])) for m in mem)
    if fam in ("int1", "int3", "kinds"):
        return "integers:" + ",".join("%s=%s" % (m["k"], "/".join(m["v"])) for m in mem if m["k"] in ("limit", "since", "until", "kinds"))
    return "member_order:" + ",".join(member_name(m) for m in mem)


def describe(r, profile):
    if r.get("hand"):
        doc = "binary filter %s" % r["hex"]
    else:
        doc = bytes.fromhex(r["hex"]).decode("utf-8", "replace")
    def vis(t):     # one line, control characters visible
        return t.replace("\\", "\\\\").replace("\n", "\\n").replace("\r", "\\r").replace("\t", "\\t")
    return "C07 %s [%s profile] on %s : %s (expectation %s, from_json outcome %s)" % (
        r["kind"], profile, vis(doc[:300]), vis(r["detail"]), r["expect"], vis(r.get("outcome", "?")))


def replay_dict(r, profile):
    return dict(kind="filter_document", hand=bool(r.get("hand")), hex=r["hex"], hex_sorted=r.get("hex_sorted", ""),
                expect=r["expect"], want=r["want"], fam=r.get("fam", ""), doc=r.get("doc"), profile=profile,
                failure=dict(kind=r["kind"], field=r.get("field", ""), detail=r["detail"]),
                text=None if r.get("hand") else bytes.fromhex(r["hex"]).decode("utf-8", "replace"))


def report(V, prop, records):
    """records: list of (failure record, profile).  One violation per (kind, class) first, so that the
    replay files written by Verdict.finish (at most 10) cover distinct defects."""
    by_key = {}
    order = []
    for r, profile in records:
        key = "%s:%s:%s" % (prop, r["kind"], input_class(r))
        if key not in by_key:
            by_key[key] = []
            order.append(key)
        if len(by_key[key]) < 2:
            by_key[key].append((r, profile))
    # order: first one key per input category (letters / unknown members / tag values / integers / ...),
    # then one per (category, failure kind), then the rest - so that the (at most 10) replay files
    # written by Verdict.finish cover distinct defects
    def category(key):
        cls = key.split(":", 2)[2]
        for pre, cat in (("tag_letter", "letters"), ("unknown_member", "unknown"), ("tag_value", "tagvalue"), ("hand_built", "tagvalue"),
                         ("limit=", "limit"), ("since=", "time"), ("until=", "time"), ("kinds=", "kinds"), ("whitespace", "ws")):
            if cls.startswith(pre):
                return cat
        return "other"
    prio = ["rejected", "wrapped", "as_json_invalid", "panic", "mismatch", "order_dependent", "roundtrip_bytes"]
    ranked = sorted(order, key=lambda k: (prio.index(k.split(":")[1]) if k.split(":")[1] in prio else len(prio)))
    seq, seen_cat, seen_ck = [], set(), set()
    for key in ranked:
        if category(key) not in seen_cat:
            seen_cat.add(category(key))
            seen_ck.add((category(key), key.split(":")[1]))
            seq.append(key)
    for key in ranked:
        ck = (category(key), key.split(":")[1])
        if ck not in seen_ck:
            seen_ck.add(ck)
            seq.append(key)
    chosen = set(seq)
    seq += [k for k in order if k not in chosen]
    n = 0
    for key in seq:
        r, profile = by_key[key][0]
        V.violation(key, describe(r, profile), replay_dict(r, profile))
        n += 1
        if n >= MAX_REPORTED:
            break
    return len(order)


# ------------------------------------------------------------------------------------------------

def run(prop, tier, seed, replay=None):
    V = C.Verdict(prop, tier, seed, "model_checking")
    t_start = time.time()
    import concurrent.futures as cf
    wd = C.workdir("%s_%s" % (prop, tier))

    def build():
        rel = os.path.join(C.build_harness("release", bins=["fjsondrv"]), "fjsondrv")
        dev = os.path.join(C.build_harness("dev", bins=["fjsondrv"]), "fjsondrv")
        return rel, dev

    if replay:
        bin_rel, bin_dev = build()
        return run_replay(prop, replay, bin_rel, bin_dev, wd, V)

    # 1. model check + generate (independent of the code under test: runs while cargo builds the harness)
    t0 = time.time()
    with cf.ThreadPoolExecutor(max_workers=2) as ex:
        fb = ex.submit(build)
        ft = ex.submit(run_tlc_shards, tier, seed, wd)
        try:
            bin_rel, bin_dev = fb.result()
        finally:
            infos = ft.result()
    states = sum(i["states"] for i in infos)
    transitions = sum(i["transitions"] for i in infos)
    C.log("[tlc] %s: %d states (= documents), %d transitions, invariants hold; %.1fs" % (MODULE, states, transitions, time.time() - t0))
    case_files = [i["out"] for i in infos]

    # 2. run the real code: release for everything, dev (overflow checks) for a sample
    with cf.ThreadPoolExecutor(max_workers=2) as ex:
        f_rel = ex.submit(run_harness, bin_rel, case_files, os.path.join(wd, "res_release.ndjson"), [],
                          HARNESS_TIMEOUT[tier], wd, "release")
        f_dev = ex.submit(run_harness, bin_dev, case_files, os.path.join(wd, "res_dev.ndjson"),
                          ["--stride", str(DEV_STRIDE[tier]), "--offset", str(seed % DEV_STRIDE[tier]), "--always", DEV_ALWAYS],
                          HARNESS_TIMEOUT[tier], wd, "dev")
        rel_fails, rel_sum, rel_crashes = f_rel.result()
        dev_fails, dev_sum, dev_crashes = f_dev.result()

    records = [(r, "release") for r in rel_fails]
    seen = {(r["hex"], r["kind"], r.get("field", "")) for r in rel_fails}
    records += [(r, "dev") for r in dev_fails if (r["hex"], r["kind"], r.get("field", "")) not in seen]
    for crashes, profile in ((rel_crashes, "release"), (dev_crashes, "dev")):
        for c in crashes:
            r = c["rec"] or dict(kind="crash", field="", fam="?", doc={}, hex="", expect="?", want={}, hand=False)
            if r["expect"] == "may":
                continue    # outside the property's domain: a crash there is C03's business
            r["detail"] = "the driver process died (%s) while working on this case" % c["how"]
            r["outcome"] = c["how"]
            records.append((r, profile))
    nkeys = report(V, prop, records)

    def total(sums, k):
        return sum(s[k] for s in sums)

    def merge_counts(sums):     # "family:failure kind:field" -> number of failure records (the driver writes out at most 250 of each)
        out = {}
        for s_ in sums:
            for k, n in s_.get("failure_counts", {}).items():
                out[k] = out.get(k, 0) + n
        return out

    fam_stats = {}
    for s in rel_sum:
        for f, st in s["by_family"].items():
            a = fam_stats.setdefault(f, dict(executed=0, ok=0, err=0, panic=0))
            for k in a:
                a[k] += st[k]
    expects = {}
    for s in rel_sum:
        for k, n in s["by_expect"].items():
            expects[k] = expects.get(k, 0) + n
    executed = total(rel_sum, "executed") + total(dev_sum, "executed")
    samples = (rel_sum[0]["samples"] if rel_sum else [])[:8]
    V.coverage = dict(
        states=states, transitions=transitions,
        traces_validated_against_impl=executed,
        samples=samples,
        evaluations=total(rel_sum, "evaluations") + total(dev_sum, "evaluations"),
        distinct_nontrivial=total(rel_sum, "distinct_nontrivial"),
        rule="case = one filter document (a state of NostrJsonFilter.tla) concretised to bytes and run through "
             "Filter::from_json / accessors / as_json / from_json again and through serde_json; evaluations = calls of "
             "the real code (from_json, accessor sweep, as_json); distinct = distinct document byte strings; "
             "non-trivial = distinct documents inside the property's must-domain with at least one member",
        documents_release=total(rel_sum, "executed"), documents_dev=total(dev_sum, "executed"),
        distinct_documents=total(rel_sum, "distinct"),
        by_expectation=expects, by_family=fam_stats,
        failing_documents=total(rel_sum, "failing_documents"), failure_records=total(rel_sum, "failures") + total(dev_sum, "failures"),
        failure_counts_release=merge_counts(rel_sum), distinct_violation_keys_reported=nkeys,
        model=dict(module=MODULE, cfg=CFG, invariants=["TypeOK", "OrderIndependent", "WsIndependent", "UnknownIndependent",
                                                       "AcceptIsExact", "Defaults"], action_properties=["MeaningPreserved"],
                   sample_modulus=MOD[tier], shards=[dict(families=i["families"], states=i["states"], transitions=i["transitions"],
                                                          wall_s=i["wall"]) for i in infos]),
        always_exhaustive=["all 1957 subsets x orders of the six named members", "all 52 x 52 ordered tag-letter pairs and 52 single letters",
                           "all limit x since x until boundary shapes in all 6 orders", "every whitespace class at every gap of 4 documents"],
        exhaustive=(tier == "thorough"),
    )
    V.assumptions = ["documents are drawn from the families of NostrJsonFilter.tla (bounded: <= 9 members, <= 3 values per list, <= 4 tag members)",
                     "serde_json is the independent JSON parser; TLC is trusted",
                     "duplicate members, tag names that are not one ASCII letter, fraction/exponent spellings of integer members and "
                     "surrogate-pair escapes are outside the property's domain (expectation 'may': executed, not judged)",
                     "hand-built filters use valid UTF-8 tag values, one-letter tag names, no duplicate letters"]
    V.notes = dict(wall_total_s=round(time.time() - t_start, 1))
    if not os.environ.get("VERIF_KEEP"):
        for f in case_files:        # the raw TLC output is large (thorough: ~350 MB); the result files stay
            try:
                os.remove(f)
            except OSError:
                pass
    return V.finish()


def run_replay(prop, path, bin_rel, bin_dev, wd, V):
    rp = json.load(open(path))
    rp = rp.get("replay", rp)
    rfile = os.path.join(wd, "replay_in.json")
    json.dump(rp, open(rfile, "w"))
    records, samples, evals = [], [], 0
    for profile, binp in (("release", bin_rel), ("dev", bin_dev)):
        out = os.path.join(wd, "replay_%s.ndjson" % profile)
        p = subprocess.run([binp, "replay", "--file", rfile, "--out", out], stdout=subprocess.PIPE, stderr=subprocess.STDOUT,
                           text=True, timeout=60)
        if p.returncode == 2:
            raise C.ToolError("fjsondrv replay: %s" % p.stdout[-2000:])
        if p.returncode != 0:
            records.append((dict(kind="crash", field="", fam=rp.get("fam", ""), doc=rp.get("doc"), hex=rp["hex"], expect=rp["expect"],
                                 want=rp["want"], hand=rp.get("hand", False), hex_sorted=rp.get("hex_sorted", ""),
                                 detail="the driver died with exit status %d" % p.returncode, outcome="crash"), profile))
            continue
        for line in open(out):
            r = json.loads(line)
            if "summary" in r:
                samples += r["summary"]["samples"]
                evals += r["summary"]["evaluations"]
                print("  [%s] %s -> %s" % (profile, r["summary"]["samples"][0]["document"][:300], r["summary"]["samples"][0]["outcome"]))
            else:
                print("  [%s] %s %s: %s" % (profile, r["kind"], r["field"], r["detail"][:300]))
                r["doc"] = rp.get("doc")
                r["fam"] = rp.get("fam", "")
                records.append((r, profile))
    report(V, prop, records)
    V.coverage = dict(states=1, transitions=1, traces_validated_against_impl=2, samples=samples[:2], evaluations=evals,
                      distinct_nontrivial=1, rule="replay of one recorded document in both profiles")
    return V.finish()
