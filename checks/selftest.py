"""Binding self-test of the store trace judges (DESIGN 4.4): `./check SELFTEST` (not registered in MANIFEST.json; also
run by the thorough tier of C04).

For every property judged by TraceStore.tla a trace recorded from the real store (accepted by the judge) is corrupted in
ONE field, at ONE line, in a way that property owns; the judge must reject exactly that line with the expected clause.
This shows that the specification is bound to the recorded fields (a judge that only checked the length of the trace, or
whose clause antecedent never held, would accept the corrupted trace).  A failure is a tool error (exit 2), never a verdict.
"""
import copy
import json
import os
import random
import sys

sys.path.insert(0, os.path.join(os.path.dirname(os.path.abspath(__file__)), "..", "lib"))
import common as C
import storelib as S


def _lines(tp):
    return [json.loads(l) for l in open(tp)]


def _write(tp, lines):
    with open(tp, "w") as f:
        for r in lines:
            f.write(json.dumps(r) + "\n")


def _find(lines, pred):
    """first (index, previous line, line) of one history satisfying pred(prev, cur)"""
    for i in range(1, len(lines)):
        p, c = lines[i - 1], lines[i]
        if p["h"] == c["h"] and c["k"] != "reset" and pred(p, c):
            return i
    return None


def corruptions(u):
    ev = {e["id"]: e for e in u["events"]}

    def holders_of_other(c):       # an event that shares the address of a retrievable one and is not retrievable itself
        for x in c["st"]["retr"]:
            a = ev[x]["addr"]
            if a:
                for e in u["events"]:
                    if e["addr"] == a and e["id"] not in c["st"]["retr"]:
                        return e["id"]
        return None

    def c04(p, c):
        return c["k"] == "store" and c["res"] == "ok" and len(p["st"]["retr"]) >= 1 and p["st"]["retr"][0] in c["st"]["retr"] and p["st"]["retr"][0] != c["a"]

    def m04(p, c):
        c["st"]["retr"] = [x for x in c["st"]["retr"] if x != p["st"]["retr"][0]]

    def c09(p, c):
        return c["k"] == "store" and c["res"] == "ok" and holders_of_other(c) is not None

    def m09(p, c):
        c["st"]["retr"] = sorted(c["st"]["retr"] + [holders_of_other(c)])

    def c11(p, c):
        return c["k"] == "store" and any(t >= 1 for t in p["st"]["delAddr"]) and p["st"]["delAddr"] == c["st"]["delAddr"]

    def m11(p, c):
        d = c["st"]["delAddr"]
        i = next(i for i, t in enumerate(d) if t >= 1)
        d[i] -= 1

    def c12(p, c):
        return c["k"] == "store" and c["res"] not in ("ok",) and len(c["st"]["ix"]) >= 1

    def m12(p, c):
        c["st"]["ix"][0] += 1

    def c16(p, c):
        return c["k"] in ("reopen", "rebuild") and c["res"] == "ok" and len(c["st"]["retr"]) >= 1

    def m16(p, c):
        c["st"]["retr"] = c["st"]["retr"][1:]

    def c17(p, c):
        return c["k"] == "store" and c["res"] == "ok" and len(c["st"]["retr"]) >= 1

    def m17(p, c):
        c["st"]["ix"][0] += 1

    def c18(p, c):
        return c["k"] == "remove" and c["res"] == "ok" and c["a"] in p["st"]["retr"] and len(c["st"]["retr"]) >= 1

    def m18(p, c):
        c["st"]["retr"] = c["st"]["retr"][1:]

    def c10(p, c):
        e = ev.get(c["a"]) if c["k"] == "store" else None
        return e is not None and e["kind"] == 5 and any(ev[x]["au"] != e["au"] and x != c["a"] for x in c["st"]["retr"]) and \
            all(x in c["st"]["retr"] for x in p["st"]["retr"])

    def m10(p, c):
        e = ev[c["a"]]
        victim = next(x for x in c["st"]["retr"] if ev[x]["au"] != e["au"] and x != c["a"])
        c["st"]["retr"] = [x for x in c["st"]["retr"] if x != victim]

    return {
        "C04": ("core", c04, m04, {"StaysUntil"}),
        "C09": ("c09", c09, m09, {"AtMostOne"}),
        "C10": ("c10", c10, m10, {"ForeignHarmless"}),
        "C11": ("c11", c11, m11, {"DeletionSticks"}),
        "C12": ("core", c12, m12, {"FailChangedCounts"}),
        "C16": ("core", c16, m16, {"Transparent"}),
        "C17": ("core", c17, m17, {"Accounting"}),
        "C18": ("c18", c18, m18, {"RemoveExact"}),
    }


def run(prop, tier, seed, replay=None):
    rnd = random.Random("selftest-%d" % seed)
    bindir = C.build_harness("dev", bins=["storedrv"])
    wd = C.workdir("SELFTEST")
    failures = []
    traces = {}
    for p in ("C04", "C09", "C10", "C11", "C12", "C16", "C17", "C18"):
        uname = {"C04": "core", "C09": "c09", "C10": "c10", "C11": "c11", "C12": "core", "C16": "core", "C17": "core", "C18": "c18"}[p]
        upath = S.universe_path(uname)
        u = json.load(open(upath))
        if uname not in traces:
            hs = [S.random_history(u, rnd, 40) for _ in range(12)]
            tf = S.run_storedrv(bindir, upath, hs, wd, "good_" + uname, shards=1)
            traces[uname] = tf[0]
        good = traces[uname]
        _, pred, mutate, want = corruptions(u)[p]
        bad, n = S.judge_one(p, upath, good)
        if bad:
            failures.append("%s: the unmodified trace is rejected (%s)" % (p, bad[0]))
            continue
        lines = _lines(good)
        i = _find(lines, pred)
        if i is None:
            failures.append("%s: no line of the recorded trace exercises the clause (vacuous self-test)" % p)
            continue
        cor = copy.deepcopy(lines)
        mutate(cor[i - 1], cor[i])
        cp = os.path.join(wd, "corrupt_%s.ndjson" % p)
        _write(cp, cor)
        bad, n = S.judge_one(p, upath, cp)
        at = [b for b in bad if b["line"] == i + 1]
        if not at or not (want & set(at[0]["clauses"])):
            failures.append("%s: corrupted line %d (%s %s) not rejected with %s; judge said %s" %
                            (p, i + 1, lines[i]["k"], lines[i]["a"], sorted(want), [(b["line"], b["clauses"]) for b in bad][:4]))
        else:
            print("SELFTEST %s: corruption of line %d (%s(%s), universe %s) rejected with %s" %
                  (p, i + 1, lines[i]["k"], lines[i]["a"], uname, at[0]["clauses"]))
    if failures:
        raise C.ToolError("binding self-test failed:\n  " + "\n  ".join(failures))
    print("SELFTEST: all 8 store trace judges reject a single-field corruption they own")
    return 0
