"""C13 - killing the process at any instant leaves a consistent, reopenable store.

  design level : TLC model-checks PocketStoreSteps.tla (one action per critical section, Crash at every
                 point): DurableInv, HeaderInv, ReaderInv, OneWinner, CommitAtomic.
  code level   : for seed-sampled edge-cover histories (every (state, call) pair is the last call of one
                 history) plus creation / opening / growth histories, crashdrv takes an image of the durable
                 files at every yield point at every occurrence inside the last call, reopens every image and
                 TLC (TraceCrash.tla) checks: reopen succeeds, the recovered state is the pre- or the post-state
                 of the interrupted call in the reference run (vanish: a subset of its targets gone), every
                 retrievable event and every earlier offset reads back, queries work, and a continuation
                 behaves as on the never-interrupted reference store.
"""
import concurrent.futures as cf
import json
import os
import random
import subprocess
import sys
import time

sys.path.insert(0, os.path.join(os.path.dirname(os.path.abspath(__file__)), "..", "lib"))
import common as C
import storelib as S
import filters as F

STEP_CFGS = ["same", "rm", "crash"]


def model_check_steps():
    st = tr = 0
    for c in STEP_CFGS:
        r = C.model_check("MC_Steps.tla", "MC_Steps_%s.cfg" % c, {}, workers=4, timeout=600, heap="3g")
        st += r["states"]
        tr += r["transitions"]
    return st, tr


PLAN = {
    # universe -> (edges quick, edges thorough, extra growth/opening histories quick, thorough)
    "core": (200, 30000, 20, 300),
    "c18": (50, 6000, 0, 0),       # vanish-heavy (gift-wraps, several authors)
    "sz": (0, 0, 30, 400),         # map geometry: ends on / around the chunk boundary, multi-chunk events
}


def build_histories(tier, seed, rnd, uname="core"):
    q_edges, t_edges, q_extra, t_extra = PLAN[uname]
    n_edges = q_edges if tier == "quick" else t_edges
    n_extra = q_extra if tier == "quick" else t_extra
    hs = []
    u = json.load(open(S.universe_path(uname)))
    n = u["n"]

    def cont_for(last):
        c = []
        if last["k"] == "store":
            c.append(last)
        c.append({"k": "store", "a": rnd.randint(1, n)})
        c.append({"k": "remove", "a": rnd.randint(1, n)})
        c.append({"k": "store", "a": rnd.randint(1, n)})
        return c
    hs.append(dict(ops=[{"k": "create"}], cont=[{"k": "store", "a": 1}, {"k": "store", "a": 3}, {"k": "store", "a": 1}]))
    if n_edges:
        edges, total = S.sample_edges(uname, n_edges, rnd)
    else:
        edges, total = [], 0
    for h in edges:
        if not h or h[-1]["k"] == "rebuild":
            continue
        hs.append(dict(ops=h, cont=cont_for(h[-1])))
    # interrupted opening of an existing store, and growth: long runs of stores so that the last call
    # pads, grows the file (set_len / remap) at various fill levels (dev profile: 2048-byte chunks)
    for j in range(n_extra):
        k = rnd.randint(2, 14)
        pre = [{"k": "store", "a": rnd.randint(1, n)} for _ in range(k)]
        if rnd.random() < 0.3:
            pre.insert(rnd.randint(0, len(pre)), {"k": "reopen", "a": 0})
        last = rnd.choice([{"k": "store", "a": rnd.randint(1, n)}] * 4 + [{"k": "reopen", "a": 0}, {"k": "remove", "a": rnd.randint(1, n)},
                          {"k": "vanish", "a": rnd.randint(1, u["nauthors"])}])
        hs.append(dict(ops=pre + [last], cont=cont_for(last)))
    if uname == "sz":
        # map geometry: interrupted multi-chunk / boundary stores, then a LONG continuation (every other event stored) so that
        # the store grows again several times after the recovery
        for j in range(6 if tier == "quick" else 60):
            big = rnd.choice([23, 24, 24])
            pre = [{"k": "store", "a": rnd.randint(1, 22)} for _ in range(rnd.randint(0, 3))]
            order = list(range(1, n + 1))
            rnd.shuffle(order)
            cont = [{"k": "store", "a": i} for i in order] + [{"k": "remove", "a": order[0]}, {"k": "store", "a": order[0]}]
            hs.append(dict(ops=pre + [{"k": "store", "a": big}], cont=cont))
    for i, h in enumerate(hs):
        h["id"] = i
    return hs, total, u


def run_crashdrv(bindir, upath, hs, wd, fpath, on_disk=False):
    shards = min(C.NCPU, max(1, len(hs) // 20))
    per = (len(hs) + shards - 1) // shards
    procs, files = [], []
    for s in range(shards):
        chunk = hs[s * per:(s + 1) * per]
        if not chunk:
            continue
        hp = os.path.join(wd, "ch%d.ndjson" % s)
        tp = os.path.join(wd, "ct%d.ndjson" % s)
        with open(hp, "w") as f:
            for h in chunk:
                f.write(json.dumps(h) + "\n")
        cmd = [os.path.join(bindir, "crashdrv"), "--universe", upath, "--hist", hp, "--out", tp, "--filters", fpath]
        if on_disk:
            # the map-geometry histories keep their stores and images on the disk file system of /verif (not on tmpfs)
            dd = os.path.join(wd, "disk")
            os.makedirs(dd, exist_ok=True)
            cmd += ["--tmp", dd]
        procs.append((subprocess.Popen(cmd, stdout=subprocess.PIPE, stderr=subprocess.STDOUT), hp, tp, cmd))
        files.append(tp)
    crashed = []
    for p, hp, tp, cmd in procs:
        try:
            out, _ = p.communicate(timeout=1800)
            if p.returncode != 0:
                crashed.append((hp, tp, cmd, "exit %s" % p.returncode))
        except subprocess.TimeoutExpired:
            p.kill()
            p.communicate()
            crashed.append((hp, tp, cmd, "timeout"))
    # a crash / hang of the code under test: isolate to single histories
    lost = []
    for hp, tp, cmd, why in crashed:
        C.log("[crashdrv] batch failed (%s); isolating" % why)
        keep = []
        for l in open(hp).read().splitlines():
            h1, t1 = hp + ".one", tp + ".one"
            open(h1, "w").write(l + "\n")
            c = list(cmd)
            c[c.index("--hist") + 1] = h1
            c[c.index("--out") + 1] = t1
            try:
                p = subprocess.run(c, stdout=subprocess.PIPE, stderr=subprocess.STDOUT, timeout=120)
                good = p.returncode == 0
            except subprocess.TimeoutExpired:
                good = False
            if good:
                keep.append(open(t1).read())
            else:
                lost.append(json.loads(l))
        open(tp, "w").write("".join(keep))
    return files, lost


def real_kills(bindir, upath, hs, tfiles, wd, fpath, rnd, k):
    """Cross-check of the image model with real kills: for k seed-sampled (history, yield point, occurrence) a child
    process replays the history and SIGKILLs itself at that point; another process opens the directory it left behind.
    Returns a trace file (same line format, `r`/`cont`/`q`/`opened` from the killed store) and the number of cases in
    which the killed store and the image of the same point differ."""
    lines = []
    for t in tfiles:
        for l in open(t):
            lines.append(l)
    if not lines:
        return None, 0, 0
    pick = rnd.sample(lines, min(k, len(lines)))
    byh = {h["id"]: h for h in hs}
    out_path = os.path.join(wd, "kills.ndjson")
    differ = done = 0
    tmp = "/dev/shm" if os.path.isdir("/dev/shm") else "/tmp"
    import tempfile
    with open(out_path, "w") as out:
        for l in pick:
            r = json.loads(l)
            h = byh[r["h"]]
            with tempfile.TemporaryDirectory(prefix="pvk", dir=tmp) as td:
                d = os.path.join(td, "s")
                os.mkdir(d)
                cp = os.path.join(td, "case.json")
                json.dump(dict(ops=h["ops"], point=r["point"], occ=r["occ"]), open(cp, "w"))
                contp = os.path.join(td, "cont.json")
                json.dump(h["cont"], open(contp, "w"))
                p = subprocess.run([os.path.join(bindir, "crashdrv"), "kill", "--universe", upath, "--dir", d, "--case", cp],
                                   stdout=subprocess.PIPE, stderr=subprocess.STDOUT, timeout=120)
                if p.returncode != -9:
                    continue   # the point was not reached in this process (e.g. timing-dependent growth): skip
                q = subprocess.run([os.path.join(bindir, "crashdrv"), "inspect", "--universe", upath, "--dir", d, "--cont", contp,
                                    "--filters", fpath], stdout=subprocess.PIPE, stderr=subprocess.DEVNULL, timeout=120, text=True)
                try:
                    ins = json.loads(q.stdout.strip().splitlines()[-1])
                except Exception:
                    ins = dict(opened="inspect died rc=%s" % q.returncode, r={"open": 0}, q=[], cont=[])
                done += 1
                if ins["opened"] == "ok" and r["opened"] == "ok":
                    a, b = ins["r"], r["r"]
                    if (a.get("retr"), a.get("delIds"), a.get("delAddr"), a.get("ix")) != (b.get("retr"), b.get("delIds"), b.get("delAddr"), b.get("ix")):
                        differ += 1
                elif ins["opened"] != r["opened"]:
                    differ += 1
                nr = dict(r)
                if ins["opened"] != "ok":
                    ins["r"] = dict(open=0, retr=[], corrupt=[], delIds=[], delAddr=[], find=[], ix=[], end=-1, flen=-1, gen=0,
                                    offs=[], extra=[], bak=0)
                nr.update(opened=ins["opened"], r=ins["r"], q=ins["q"], cont=ins["cont"])
                out.write(json.dumps(nr) + "\n")
    return out_path, done, differ


def judge(upath, tfiles, fpath):
    def one(t):
        n = sum(1 for _ in open(t))
        if n == 0:
            return [], [], 0
        rc, out = C.run_tlc("TraceCrash.tla", "TraceCrash.cfg", env={"UNIVERSE": upath, "TRACE": t, "FILTERS": fpath},
                            workers=1, timeout=1800, heap="3g", deque=True, stack="1g")
        if "NOTCONSUMED" in out or "Model checking completed" not in out:
            raise C.ToolError("TraceCrash failed on %s:\n%s" % (t, out[-2500:]))
        bad = C.tlc_json_lines(out, "BAD")
        for b in bad:
            b["trace"] = t
        return bad, C.tlc_json_lines(out, "IMG"), n
    bad, img, lines = [], [], 0
    with cf.ThreadPoolExecutor(max_workers=min(8, C.NCPU)) as ex:
        for b, i, n in ex.map(one, tfiles):
            bad += b
            img += i
            lines += n
    return bad, img, lines


def run(prop, tier, seed, replay=None):
    V = C.Verdict(prop, tier, seed, "fault_enumeration")
    rnd = random.Random("C13-%d" % seed)
    bindir = C.build_harness("dev", bins=["crashdrv"])
    wd0 = C.workdir("C13_%s" % tier)

    if replay:
        rp = json.load(open(replay))["replay"]
        plan = [(rp.get("universe_name", "core"), [dict(id=0, ops=rp["ops"], cont=rp["cont"])], 0)]
        mst = mtr = 1
    else:
        mst, mtr = model_check_steps()
        C.log("[mc] PocketStoreSteps: %d states, %d transitions" % (mst, mtr))
        plan = []
        for uname in PLAN:
            hs, total, _ = build_histories(tier, seed, rnd, uname)
            plan.append((uname, hs, total))

    lines = kills = kdiffer = nhist = 0
    img_all, lost_all, cover = [], [], {}
    sample_hist = []
    seen = {}
    for uname, hs, total in plan:
        if not hs:
            continue
        wd = os.path.join(wd0, uname)
        os.makedirs(wd, exist_ok=True)
        upath = S.universe_path(uname)
        u = json.load(open(upath))
        fpath = os.path.join(wd, "probes.json")
        json.dump(F.probe_filters(u), open(fpath, "w"))
        t0 = time.time()
        tfiles, lost = run_crashdrv(bindir, upath, hs, wd, fpath, on_disk=(uname == "sz"))
        t1 = time.time()
        bad, img, n = judge(upath, tfiles, fpath)
        C.log("[C13] %s: %d histories, %d images, crashdrv %.1fs, judge %.1fs, %d bad images" % (uname, len(hs), n, t1 - t0, time.time() - t1, len(bad)))
        # real kills (SIGKILL of a child process at the yield point) for a seed-sampled subset
        t2 = time.time()
        share = max(10, int((60 if tier == "quick" else 1200) * len(hs) / max(1, sum(len(p[1]) for p in plan))))
        kpath, k, kd = real_kills(bindir, upath, hs, tfiles, wd, fpath, rnd, share)
        if kpath and k:
            kbad, _, _ = judge(upath, [kpath], fpath)
            for b in kbad:
                b["real_kill"] = True
            bad += kbad
            C.log("[C13] %s: %d real kills in %.1fs: %d judged bad, %d differ from the image of the same point" % (uname, k, time.time() - t2, len(kbad), kd))
        kills += k
        kdiffer += kd
        lines += n
        nhist += len(hs)
        img_all += img
        cover[uname] = dict(edge_cover_size=total, histories=len(hs), images=n)
        sample_hist += [dict(universe=uname, ops=[[o["k"], o.get("a", 0)] for o in h["ops"]][:12], cont=h["cont"]) for h in hs[:2]]
        byh = {h["id"]: h for h in hs}
        for b in bad:
            key = "C13:%s:%s:%s%s" % ("+".join(sorted(b["v"])), b["k"], b["point"], ":real_kill" if b.get("real_kill") else "")
            seen[key] = seen.get(key, 0) + 1
            if seen[key] > 2:
                continue
            h = byh.get(b["h"], {})
            what = "image taken at yield point %s (occurrence %d) inside %s(%d) of history %s of universe %s: %s" % (
                b["point"], b["occ"], b["k"], b["a"], [[o["k"], o.get("a", 0)] for o in h.get("ops", [])][:30], uname, ",".join(sorted(b["v"])))
            V.violation(key, what, dict(kind="crash_image", universe_name=uname, ops=h.get("ops"), cont=h.get("cont"), point=b["point"],
                                        occ=b["occ"], clauses=sorted(b["v"])))
        for h in lost:
            V.violation("C13:harness_died:%s" % h["ops"][-1]["k"],
                        "the process died or hung while exploring kill points of history %s (universe %s)" % (h["ops"][:30], uname),
                        dict(kind="crash_image", universe_name=uname, ops=h["ops"], cont=h["cont"], point="?", occ=0, clauses=["Died"]))
        lost_all += lost
    points = {}
    for i in img_all:
        k = "%s:%s:%s" % (i["k"], i["point"], i["which"])
        points[k] = points.get(k, 0) + 1
    distinct_points = len({(i["k"], i["point"]) for i in img_all})
    V.coverage = dict(
        evaluations=lines, distinct_nontrivial=len({(i["k"], i["point"], i["which"]) for i in img_all if i["which"] in ("pre", "post", "other")}),
        rule="cases = images of the durable files taken at a yield point (pocket_db::verif::point) at one occurrence inside the "
             "interrupted last call of a history; histories = TLC edge cover of PocketStore.tla on universes core and c18 (seed-sampled) "
             "+ creation + interrupted opening + growth runs (universes core, sz); distinct non-trivial = distinct (call kind, yield "
             "point, recovered = pre | post | partial) where pre and post differ",
        samples=sample_hist[:4],
        histories=nhist, universes=cover, distinct_call_points=distinct_points,
        image_outcomes=points, model=dict(module="PocketStoreSteps.tla", configs=STEP_CFGS, states=mst, transitions=mtr),
        harness_batches_lost=len(lost_all), real_kills=kills, real_kills_differing_from_image=kdiffer,
    )
    V.assumptions = ["kill = process death with the OS surviving: an image is a copy of event.map and lmdb/data.mdb taken while the "
                     "process is parked at the yield point (page cache contents); power loss is out of scope (NO_SYNC)",
                     "LMDB's own commit atomicity is trusted: kill points sit before and after commit, not inside it",
                     "yield points exist only where pocket-db has them (feature verif)",
                     "a seed-sampled subset of the images is cross-checked with real SIGKILLs of a child process at the same point"]
    return V.finish()
