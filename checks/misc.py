"""Supplementary coverage beyond the 20 listed properties (not registered in MANIFEST.json; DESIGN 11.8):
extra key-value tables behave like maps and are untouched by every store call, reopen and rebuild; the used size of
the event map never shrinks within one file generation.  Same pipeline as the store checks (TraceStore.tla, Prop=MISC).
A divergence is printed as DIVERGENCE, never as VIOLATION (no listed property owns these behaviours)."""
import json
import os
import random
import sys

sys.path.insert(0, os.path.join(os.path.dirname(os.path.abspath(__file__)), "..", "lib"))
import common as C
import storelib as S
import store as ST


def run(prop, tier, seed, replay=None):
    rnd = random.Random("MISC-%d" % seed)
    bindir = C.build_harness("dev", bins=["storedrv"])
    wd = C.workdir("MISC_%s" % tier)
    total_bad = 0
    lines_total = 0
    for uname in ["core", "c16"]:
        upath = S.universe_path(uname)
        u = json.load(open(upath))
        hs = [S.random_history(u, rnd, 50) for _ in range(40 if tier == "quick" else 400)]
        for h in hs:
            for _ in range(12):
                h.insert(rnd.randint(0, len(h)), ST.extra_ops(rnd))
        tfiles = S.run_storedrv(bindir, upath, hs, wd, uname, extra=True)
        bad, lines = S.judge("MISC", upath, tfiles)
        lines_total += lines
        total_bad += len(bad)
        for b in bad[:5]:
            print("DIVERGENCE misc=%s at %s(%d) -> %s (universe %s)" % (",".join(b["clauses"]), b["k"], b["a"], b["res"], uname))
    print("MISC: %d trace lines judged, %d divergences" % (lines_total, total_bad))
    interrupted_rebuild(tier, rnd, wd)
    return 0


def interrupted_rebuild(tier, rnd, wd):
    """kills inside Store::rebuild: step model PocketRebuild.tla (Recoverable holds; named deviation: no recovery on
    reopen), images taken at every rebuild.* yield point validated against it by TraceRebuild.tla"""
    import subprocess
    mc = C.model_check("MC_Rebuild.tla", "MC_Rebuild.cfg", {}, workers=1, timeout=300, heap="2g")
    bindir = C.build_harness("dev", bins=["rebuilddrv"])
    nloss, nbad, nlines = {}, 0, 0
    for uname in ["core", "c16", "c11"]:
        upath = S.universe_path(uname)
        u = json.load(open(upath))
        edges, _ = S.sample_edges(uname, 40 if tier == "quick" else 400, rnd)
        hs = [h for h in edges if h] + [[]]
        for h in hs[::3]:
            h.insert(rnd.randint(0, len(h)), dict(ST.extra_ops(rnd), k="xput"))
        hp = os.path.join(wd, "rb_%s_h.ndjson" % uname)
        tp = os.path.join(wd, "rb_%s_t.ndjson" % uname)
        with open(hp, "w") as f:
            for i, h in enumerate(hs):
                f.write(json.dumps({"id": i, "ops": h}) + "\n")
        p = subprocess.run([os.path.join(bindir, "rebuilddrv"), "--universe", upath, "--hist", hp, "--out", tp],
                           stdout=subprocess.PIPE, stderr=subprocess.STDOUT, text=True, timeout=1800)
        if p.returncode != 0:
            raise C.ToolError("rebuilddrv failed: %s" % p.stdout[-800:])
        rc, out = C.run_tlc("TraceRebuild.tla", "TraceRebuild.cfg", env={"TRACE": tp}, workers=1, timeout=900, heap="3g", stack="1g")
        done = C.tlc_json_lines(out, "REBUILD")
        if not done:
            nc = C.tlc_json_lines(out, "NOTCONSUMED")
            if nc:
                line = open(tp).read().splitlines()[nc[-1]["reached"] - 1]
                print("DIVERGENCE misc=RebuildStepOrder: the recorded yield points of Store::rebuild are not a path of PocketRebuild.tla; "
                      "first unmatched line: %s" % line[:300])
                nbad += 1
                continue
            raise C.ToolError("TraceRebuild failed:\n" + out[-2000:])
        nlines += done[-1]["n"]
        for b in C.tlc_json_lines(out, "BAD")[:5]:
            nbad += 1
            print("DIVERGENCE misc=%s at %s (occurrence %d, universe %s): reopening the image shows '%s', the model predicts '%s'; "
                  "with the backup pieces put back: '%s'" % (b["why"], b["point"], b["occ"], uname, b["reopen"], b["predicted"], b["recover"]))
        for x in C.tlc_json_lines(out, "LOSS"):
            nloss.setdefault(x["point"], {}).setdefault(x["sees"], 0)
            nloss[x["point"]][x["sees"]] += 1
    print("MISC rebuild: model %d states (Recoverable holds); %d image lines validated against it, %d divergences from the model" %
          (mc["states"], nlines, nbad))
    print("MISC rebuild: named deviation (no recovery of an interrupted rebuild on reopen) observed as the model predicts: %s" %
          json.dumps(nloss, sort_keys=True))
