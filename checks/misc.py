"""Supplementary coverage beyond the 20 listed properties (not registered in MANIFEST.json; DESIGN 11.8):
extra key-value tables behave like maps and are untouched by every store call, reopen and rebuild; the used size of
the event map never shrinks within one file generation.  Same pipeline as the store checks (TraceStore.tla, Prop=MISC).
A divergence is printed as DIVERGENCE, never as VIOLATION (no listed property owns these behaviours)."""
import json
import os
import random
import sys

sys.path.insert(0, os.path.join(os.path.dirname(os.path.abspath(__file__)), "..", "lib"))
import common as C
import storelib as S
import store as ST


def run(prop, tier, seed, replay=None):
    rnd = random.Random("MISC-%d" % seed)
    bindir = C.build_harness("dev", bins=["storedrv"])
    wd = C.workdir("MISC_%s" % tier)
    total_bad = 0
    lines_total = 0
    for uname in ["core", "c16"]:
        upath = S.universe_path(uname)
        u = json.load(open(upath))
        hs = [S.random_history(u, rnd, 50) for _ in range(40 if tier == "quick" else 400)]
        for h in hs:
            for _ in range(12):
                h.insert(rnd.randint(0, len(h)), ST.extra_ops(rnd))
        tfiles = S.run_storedrv(bindir, upath, hs, wd, uname, extra=True)
        bad, lines = S.judge("MISC", upath, tfiles)
        lines_total += lines
        total_bad += len(bad)
        for b in bad[:5]:
            print("DIVERGENCE misc=%s at %s(%d) -> %s (universe %s)" % (",".join(b["clauses"]), b["k"], b["a"], b["res"], uname))
    print("MISC: %d trace lines judged, %d divergences" % (lines_total, total_bad))
    return 0
