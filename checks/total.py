"""C03 - every parsing entry point is total and memory-safe on arbitrary bytes and buffer sizes.

  TLC enumerates NostrTotal.tla: every (entry point, corruption operator, byte class | junk kind, output-buffer
  class) combination; the harness sweeps each abstract case over all its concrete members (every position of every
  base text, every byte of the class, every buffer length of the class) in BOTH build profiles (overflow checks
  on / off) and records what it observed: err, ok_wellformed (all accessors / iterators / serializers ran), panic,
  oob_write (guard bytes around the output buffer), consumed_gt_len, ok_malformed; a shard that dies or hangs is
  attributed to the abstract case that was running.  The spec's Forbidden set decides.
"""
import json
import os
import random
import subprocess
import sys
import time

sys.path.insert(0, os.path.join(os.path.dirname(os.path.abspath(__file__)), "..", "lib"))
import common as C

FORBIDDEN = {"panic", "hang", "abort", "oob_write", "consumed_gt_len", "ok_malformed"}


def gen_cases(wd):
    rc, out = C.run_tlc("NostrTotal.tla", "Gen_NostrTotal.cfg", env={}, workers=2, timeout=300, heap="2g")
    if "No error has been found" not in out:
        raise C.ToolError("NostrTotal generation failed:\n" + out[-2000:])
    cases = C.tlc_json_lines(out, "CASE")
    gen, dist = C.tlc_counts(out)
    return cases, dist


def run_shards(bindir, cases, wd, tag, stride, nshards, timeout):
    shards = [[] for _ in range(nshards)]
    for i, c in enumerate(cases):
        shards[i % nshards].append(c)
    results, incidents = [], []
    procs = []
    for s, chunk in enumerate(shards):
        if not chunk:
            continue
        cp = os.path.join(wd, "%s_c%d.ndjson" % (tag, s))
        rp = os.path.join(wd, "%s_r%d.ndjson" % (tag, s))
        with open(cp, "w") as f:
            for c in chunk:
                f.write(json.dumps(c) + "\n")
        cmd = [os.path.join(bindir, "totaldrv"), "--cases", cp, "--out", rp, "--stride", str(stride)]
        procs.append([subprocess.Popen(cmd, stdout=subprocess.DEVNULL, stderr=subprocess.DEVNULL), cp, rp, cmd, chunk])
    t0 = time.time()
    for pr in procs:
        p, cp, rp, cmd, chunk = pr
        while True:
            died = None
            try:
                p.wait(timeout=max(5, timeout - (time.time() - t0)))
                if p.returncode != 0:
                    died = "abort"
            except subprocess.TimeoutExpired:
                p.kill()
                p.wait()
                died = "hang"
            done, begun = [], None
            if os.path.exists(rp):
                for l in open(rp):
                    try:
                        r = json.loads(l)
                    except ValueError:
                        continue
                    if "begin" in r:
                        begun = r["begin"]
                    elif "case" in r:
                        done.append(r)
                        begun = None
            results += done
            if not died:
                break
            # attribute the death to the abstract case that was running, then continue after it
            incidents.append((died, begun))
            rest = chunk[len(done) + 1:]
            if not rest:
                break
            # a change that makes a parser spin hangs on many inputs: three attributed hangs are a verdict, the rest of the
            # exploration would only cost one time limit per further input
            if sum(1 for d, _ in incidents if d == "hang") >= 3:
                for q in procs:
                    if q[0].poll() is None:
                        q[0].kill()
                        q[0].wait()
                return results, incidents
            timeout = min(timeout, 30)
            chunk = rest
            with open(cp, "w") as f:
                for c in rest:
                    f.write(json.dumps(c) + "\n")
            t0 = time.time()
            p = subprocess.Popen(cmd, stdout=subprocess.DEVNULL, stderr=subprocess.DEVNULL)
    return results, incidents


def run(prop, tier, seed, replay=None):
    V = C.Verdict(prop, tier, seed, "exploration")
    wd = C.workdir("C03_%s" % tier)
    if replay:
        rp = json.load(open(replay))["replay"]
        cases = [rp["case"]]
        states = 1
    else:
        cases, states = gen_cases(wd)
    stride = 1
    totals = {}
    evaluations = 0
    classes_bad = {}
    samples = []
    for profile in ("dev", "release"):
        bindir = C.build_harness(profile, bins=["totaldrv"])
        t0 = time.time()
        results, incidents = run_shards(bindir, cases, wd, profile, stride, nshards=min(12, C.NCPU), timeout=60)   # an unchanged tree needs 2 - 4 s
        n = sum(r["n"] for r in results)
        evaluations += n
        C.log("[C03] %s profile: %d abstract cases, %d concrete inputs in %.1fs, %d died/hung" %
              (profile, len(results), n, time.time() - t0, len(incidents)))
        for r in results:
            c = r["case"]
            for k, v in r["counts"].items():
                totals[k] = totals.get(k, 0) + v
            if len(samples) < 4 and r["n"] > 0:
                samples.append(dict(case=c, concrete_inputs=r["n"], counts=r["counts"]))
            for b in r["bad"]:
                if b["obs"] not in FORBIDDEN:
                    continue
                key = "C03:%s:%s:%s:%s" % (b["obs"], c["entry"], b.get("site", ""), profile)
                classes_bad[key] = classes_bad.get(key, 0) + 1
                if classes_bad[key] > 1:
                    continue
                what = "%s in %s parser (%s) on input derived by %s from base text %d, output buffer %d bytes, %s profile; input (hex, first 600 bytes): %s" % (
                    b["obs"], c["entry"], b.get("site", ""), b["mut"], b["base"], b["buflen"], profile, b["input_hex"][:160])
                V.violation(key, what, dict(kind="total", case=c, concrete=b, profile=profile))
        for died, c in incidents:
            key = "C03:%s:%s:%s" % (died, (c or {}).get("entry", "?"), profile)
            V.violation(key, "the process %s while sweeping abstract case %s (%s profile)" % (
                "died (abort / stack overflow / segfault)" if died == "abort" else "did not terminate", c, profile),
                dict(kind="total", case=c or {}, concrete={}, profile=profile))
    distinct = len(cases) * 2
    V.coverage = dict(
        evaluations=evaluations, distinct_nontrivial=distinct,
        rule="abstract cases = states of NostrTotal.tla (entry point x corruption operator x byte class | junk kind x output-buffer "
             "class, %d states enumerated by TLC); each is swept over all its concrete members (every position of every base text "
             "with stride %d, every byte of the class, every buffer length of the class) in the dev (overflow checks on) and release "
             "profiles; evaluations = concrete parser calls; distinct non-trivial = abstract cases x profiles" % (states, stride),
        samples=samples, observation_totals=totals, forbidden_classes=sorted(classes_bad.keys()),
        model=dict(module="NostrTotal.tla", states=states),
    )
    V.assumptions = ["inputs are those reachable by the model's corruption operators from the base texts plus the junk documents, not all byte strings",
                     "out-of-range reads surface as panics (bounds-checked indexing); writes outside the output buffer are observed through guard "
                     "bytes; an out-of-bounds read through a future unsafe block would not be seen"]
    return V.finish()
