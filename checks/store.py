"""Checks of the store-level properties C04 C09 C10 C11 C12 C16 C17 C18.

  1. TLC model-checks the generative API-level spec (PocketStore.tla) on the property's primary
     universe: design-level invariants + every property-owned clause on every transition.
  2. The edge cover of the abstract state graph (one history per transition) is replayed into the
     real Store (seed-sampled in the quick tier), plus seeded random histories over byte-level
     universes; the projection of the store is logged after every call.
  3. TLC validates the traces against TraceStore.tla asserting the clauses owned by the property.
"""
import json
import os
import random
import sys
import time

sys.path.insert(0, os.path.join(os.path.dirname(os.path.abspath(__file__)), "..", "lib"))
import common as C
import storelib as S
import filters as F
import universe as U

CONF = {
    "C04": dict(universes=["core", "c09", "c09b", "c09c", "c10c", "c10", "c11b", "c16"], probes=False, extra=False),
    "C09": dict(universes=["c09", "c09b", "core", "c09c", "c09t", "c09d"], probes=False, extra=False),
    "C10": dict(universes=["c10", "c10b", "core", "c10c", "c10d", "c10e", "c10f"], probes=False, extra=False),
    "C11": dict(universes=["c11", "c11b", "core", "c16", "c09t", "c11c"], probes=False, extra=False),
    "C12": dict(universes=["core", "c12x", "c10", "c11", "c12y"], probes=True, extra=True),
    "C16": dict(universes=["core", "c16", "c11"], probes=True, extra=True),
    "C17": dict(universes=["core", "c18", "c09", "c09b", "c09c", "qv", "c09d", "c18b"], probes=True, extra=False),
    "C18": dict(universes=["c18", "core", "c18b", "c18c"], probes=True, extra=True),
}

SIZES = {
    # (edges on primary, edges on the other universes, random universes, histories each, ops each)
    "quick": (1500, 400, 5, 22, 40),
    "thorough": (60000, 15000, 24, 120, 80),
}


def nontrivial_pred(prop, u):
    ev = {e["id"]: e for e in u["events"]}

    def has_holder(pre, e):
        return e["addr"] != 0 and any(ev[x]["addr"] == e["addr"] for x in pre["st"].get("retr", []) if x in ev)

    def p(pre, r):
        if pre is None or pre["st"].get("open") != 1:
            return False
        st = pre["st"]
        k = r["k"]
        if prop == "C04":
            return (k == "store" and r["res"] == "ok") or (k == "reopen" and len(st.get("offs", [])) > 0)
        if prop == "C09":
            return k == "store" and r["a"] in ev and has_holder(pre, ev[r["a"]])
        if prop == "C10":
            if k != "store" or r["a"] not in ev or ev[r["a"]]["kind"] != 5:
                return False
            e = ev[r["a"]]
            return any((d["t"] == "e" and d["id"] in ev and ev[d["id"]]["au"] != e["au"]) or
                       (d["t"] == "a" and d["aau"] != e["au"]) for d in e["dels"])
        if prop == "C11":
            marked = len(st.get("delIds", [])) > 0 or any(t >= 0 for t in st.get("delAddr", []))
            return marked or (k == "store" and r["a"] in ev and ev[r["a"]]["kind"] == 5)
        if prop == "C12":
            return k == "store" and r["res"] != "ok"
        if prop == "C16":
            return k in ("reopen", "rebuild") and (len(st.get("retr", [])) > 0 or len(st.get("delIds", [])) > 0)
        if prop == "C17":
            return len(r["st"].get("retr", [])) > 0 or len(st.get("retr", [])) > 0
        if prop == "C18":
            return k in ("remove", "vanish") or (k == "store" and r["a"] in ev and 20000 <= ev[r["a"]]["kind"] < 30000)
        return True
    return p


def extra_ops(rnd):
    keys = ["", "00", "6b31", "ff00ff", "6b" * 40]
    k = rnd.choice(keys)
    if rnd.random() < 0.75:
        return {"k": "xput", "a": rnd.randint(0, 1), "key": k, "val": rnd.choice(["", "76", "00" * 10, "ab" * 300])}
    return {"k": "xdel", "a": rnd.randint(0, 1), "key": k}


def relevant_edge(prop, u):
    """which edges of the cover exercise the property (used to stratify the sample)"""
    ev = {e["id"]: e for e in u["events"]}

    def pred(res, h):
        last = h[-1]
        k, a = last["k"], last.get("a", 0)
        e = ev.get(a) if k == "store" else None
        if prop == "C04":
            return (k == "store" and res == "ok") or k == "reopen"
        if prop == "C09":
            return e is not None and e["addr"] != 0
        if prop == "C10":
            return e is not None and e["kind"] == 5 and any(
                (d["t"] == "e" and d["id"] in ev and ev[d["id"]]["au"] != e["au"]) or (d["t"] == "a" and d["aau"] != e["au"])
                for d in e["dels"])
        if prop == "C11":
            return e is not None and (e["kind"] == 5 or res == "deleted")
        if prop == "C12":
            return k == "store" and res != "ok"
        if prop == "C16":
            return k in ("reopen", "rebuild")
        if prop == "C18":
            return k in ("remove", "vanish") or (e is not None and 20000 <= e["kind"] < 30000)
        return True
    return pred


def build_histories(prop, uname, u, n_edges, rnd, conf):
    hs = []
    if n_edges:
        edges, total = S.sample_edges(uname, n_edges, rnd, pred=relevant_edge(prop, u), frac=0.6, all_if_leq=2500)
        for h in edges:
            for v in S.with_variants(h, rnd, p_reopen=0.2 if prop in ("C04", "C16", "C11") else 0.08,
                                     p_rebuild=0.2 if prop in ("C16", "C11") else 0.05, n_events=u["n"]):
                hs.append(v)
    else:
        total = 0
    if prop == "C12":
        # a share of the histories end in a store issued while every LMDB reader slot is taken
        for h in hs[::5]:
            if h and h[-1]["k"] == "store":
                h[-1] = dict(h[-1], k="sstore")
    if conf["extra"]:
        # sprinkle extra-table operations into a third of the histories
        for h in hs[::3]:
            pos = rnd.randint(0, len(h))
            h.insert(pos, extra_ops(rnd))
    return hs, total


def geometry_histories(rnd, tier):
    """targeted histories over universe `sz`: the end of the map lands before / on / after a chunk boundary, then the
    store is reopened, rebuilt and written again; 'drain' histories empty the store (everything removed, or only
    ephemeral events stored) before a reopen"""
    hs = []
    S_ = lambda i: {"k": "store", "a": i}
    R_ = lambda i: {"k": "remove", "a": i}
    RO, RB = {"k": "reopen", "a": 0}, {"k": "rebuild", "a": 0}
    for i in range(1, 25):
        j = rnd.randint(1, 25)
        hs.append([S_(i), RO, S_(j), RO, S_(25)])
        hs.append([S_(i), RB, S_(j), RB, RO])
        hs.append([S_(25), S_(i), RO, S_(j)])
    for big in (26, 27):                                                        # contents of 2^16 - 1 and more than 2^16 bytes
        i = rnd.randint(1, 25)
        hs.append([S_(i), S_(big), RO, S_(25), S_(big)])
        hs.append([S_(big), S_(i), RB, RO])
    for _ in range(12 if tier == "quick" else 120):
        a, b, c = rnd.sample(range(1, 26), 3)
        hs.append([S_(a), S_(b), R_(a), R_(b), RO, S_(c), RO, S_(a)])             # drained by removal
        hs.append([S_(22), RO, S_(a), RO])                                      # only an ephemeral event before the reopen
        hs.append([S_(a), {"k": "vanish", "a": 1}, {"k": "vanish", "a": 2}, RO, S_(b), RB, S_(a)])
        hs.append([S_(a), S_(22), R_(a), RB, S_(b), RO])
    return hs


def expiry_histories(rnd, tier):
    """histories over the run-time universe exp<now> (NIP-40 tags running out 2 s after the universe was built): the
    wall clock passes the expiration times in the middle of the history ('sleep' is a stuttering step of the spec)"""
    S_ = lambda i: {"k": "store", "a": i}
    RO, RB, Z = {"k": "reopen", "a": 0}, {"k": "rebuild", "a": 0}, {"k": "sleep", "a": 2600}
    hs = [
        [S_(i) for i in range(1, 11)] + [Z, {"k": "nop", "a": 0}, S_(1), S_(2), S_(3), S_(6), RO, RB, S_(7), {"k": "remove", "a": 1}, S_(1)],
        [S_(1), S_(7), Z, S_(1), S_(7), S_(10), RB, S_(1)],
        [S_(3), S_(4), Z, S_(3), RB, S_(3), S_(4)],
        [S_(6), S_(2), S_(5), Z, S_(6), S_(2), RO, S_(5), {"k": "vanish", "a": 1}, S_(2)],
        [S_(3), S_(9), Z, RB, S_(3), S_(9), S_(8)],
        [Z, S_(1), S_(2), S_(4), S_(5), S_(9), S_(10), S_(3), RB, RO, S_(2)],
    ]
    for _ in range(2 if tier == "quick" else 10):
        order = list(range(1, 11))
        rnd.shuffle(order)
        k = rnd.randint(2, 9)
        tail = [rnd.choice([S_(rnd.randint(1, 10)), RO, RB, {"k": "remove", "a": rnd.randint(1, 10)}]) for _ in range(6)]
        hs.append([S_(i) for i in order[:k]] + [Z] + [S_(i) for i in order[k:]] + tail)
    return hs


PAIR_FIELDS = ("retr", "corrupt", "delIds", "delAddr", "find", "ix", "extra")


def stutter_pairs(uname, u, rnd, n_fail, n_rand):
    """C16, 'with reopen/rebuild inserted at every position': in the specification reopen and rebuild are stuttering steps
    of the observable state, so a history H and the same history with a reopen / rebuild inserted are ONE behaviour of the
    spec modulo stuttering - the implementation must answer the remaining calls identically.  Returns (H, H', position).
    Bases: covered edges whose last store is refused (the refused event is resubmitted after an obstacle has been removed:
    state that a refused store may have left behind the abstract state is what a reopen would lose), and random histories."""
    n = u["n"]
    ev = {e["id"]: e for e in u["events"]}
    bases = []
    if n_fail:
        edges, _ = S.sample_edges(uname, n_fail, rnd, pred=lambda res, h: h[-1]["k"] == "store" and res != "ok", frac=1.0)
        for h in edges:
            last = h[-1]
            e = ev.get(last.get("a", 0))
            named = [d["id"] for d in (e["dels"] if e else []) if d["t"] == "e" and isinstance(d.get("id"), int) and 1 <= d["id"] <= n]
            same = [x["id"] for x in u["events"] if e and x["addr"] == e["addr"] != 0 and x["id"] != e["id"]]
            cand = named + same + [last.get("a", 1)]
            x = rnd.choice(cand) if rnd.random() < 0.8 else rnd.randint(1, n)
            tail = [{"k": "remove", "a": x}, dict(last)] + [{"k": "store", "a": rnd.randint(1, n)} for _ in range(rnd.randint(0, 2))]
            bases.append((h + tail, len(h)))
    for _ in range(n_rand):
        h = [op for op in S.random_history(u, rnd, rnd.randint(5, 10)) if op["k"] not in ("reopen", "rebuild")]
        if len(h) >= 2:
            bases.append((h, None))
    pairs = []
    for h, after in bases:
        pos = after if (after is not None and rnd.random() < 0.6) else rnd.randint(1, len(h) - 1)
        ins = rnd.choice([{"k": "reopen", "a": 0}, {"k": "reopen", "a": 1}, {"k": "rebuild", "a": 0}])
        pairs.append((h, h[:pos] + [ins] + h[pos:], pos))
    return pairs


def compare_pairs(prop, pairs, tfiles, uname, u, V, conf):
    """suffix of H vs suffix of H' (see stutter_pairs)"""
    by_h = {}
    for tp in tfiles:
        for l in open(tp):
            r = json.loads(l)
            by_h.setdefault(r["h"], []).append(r)
    nviol = ncmp = 0
    for i, (h, h2, pos) in enumerate(pairs):
        a = [r for r in by_h.get(2 * i, []) if r["k"] != "reset"]
        b = [r for r in by_h.get(2 * i + 1, []) if r["k"] != "reset"]
        if len(a) != len(h) or len(b) != len(h2) or b[pos]["res"] != "ok":
            continue          # crashed / store unusable / reopen failed: judged by the per-line clauses, not here
        if any(r["res"] in ("closed", "crash") for r in a + b):
            continue
        for j in range(pos, len(h)):
            x, y = a[j], b[j + 1]
            ncmp += 1
            diff = [f for f in PAIR_FIELDS if x["st"].get(f) != y["st"].get(f)]
            if x["res"] != y["res"]:
                diff.insert(0, "result")
            if diff:
                nviol += 1
                ins = h2[pos]
                key = "C16:SuffixDiverges:%s:%s:%s" % (ins["k"], x["k"], x["res"].split(":")[0])
                what = ("C16 violated (SuffixDiverges): after %s inserted at position %d, call %s(%d) answers %s instead of %s "
                        "(differs in %s); history %s of universe %s" % (
                            ins["k"], pos, x["k"], x["a"], y["res"], x["res"], ",".join(diff),
                            [[o["k"], o["a"]] for o in h], uname))
                V.violation(key, what, dict(kind="stutter_pair", universe=u, ops=h, ops2=h2, pos=pos, extra=False, probes=False))
                break
    return ncmp, nviol


def run(prop, tier, seed, replay=None):
    conf = CONF[prop]
    V = C.Verdict(prop, tier, seed, "model_checking")
    rnd = random.Random(seed * 7919 + hash(prop) % 1000)
    rnd = random.Random("%s-%d" % (prop, seed))
    bindir = C.build_harness("dev", bins=["storedrv", "kinddrv"] if prop == "C09" else ["storedrv"])
    wd = C.workdir("%s_%s" % (prop, tier))

    if replay:
        return run_replay(prop, replay, bindir, wd, V)

    kinds_checked = 0
    if prop == "C09":
        kinds_checked = check_kinds(bindir, wd, V)

    # 1. model check the design on the primary universe
    prim = conf["universes"][0]
    mc = C.model_check("PocketStore.tla", "MC_PocketStore.cfg", {"UNIVERSE": S.universe_path(prim)},
                       workers=min(8, C.NCPU))
    C.log("[mc] %s on %s: %d states, %d transitions in %.1fs" % (prop, prim, mc["states"], mc["transitions"], mc["wall"]))

    n_prim, n_other, n_ru, n_rh, n_rops = SIZES[tier]
    all_scan = dict(calls=0, histories=0, distinct=0, distinct_nontrivial=0, samples=[])
    total_lines = 0
    edge_totals = {}
    jobs = []  # (uname, upath, u, histories, filters_path)
    for i, uname in enumerate(conf["universes"]):
        upath = S.universe_path(uname)
        u = json.load(open(upath))
        hs, total = build_histories(prop, uname, u, n_prim if i == 0 else n_other, rnd, conf)
        edge_totals[uname] = dict(edges_in_cover=total, replayed=len(hs))
        jobs.append((uname, upath, u, hs))
    if prop in ("C04", "C16", "C17"):
        upath = S.universe_path("sz")
        jobs.append(("sz", upath, json.load(open(upath)), geometry_histories(rnd, tier)))
    if prop == "C18":
        # one author with 520 events: vanish removes every one of them (no page size or result ceiling in between)
        mp = S.universe_path("many")
        mu = json.load(open(mp))
        allst = [{"k": "store", "a": i} for i in range(1, mu["n"] + 1)]
        jobs.append(("many", mp, mu, [allst + [{"k": "vanish", "a": 1}, {"k": "reopen", "a": 0}, {"k": "store", "a": 1}],
                                      allst[::-1] + [{"k": "remove", "a": 7}, {"k": "vanish", "a": 2}, {"k": "vanish", "a": 1}]]))
    # wall-clock dimension: expiration tags that run out while the history is running
    jobs.append(("exp", None, None, expiry_histories(rnd, tier)))      # the universe is built when the job starts
    for j in range(n_ru):
        useed = seed * 1000 + j
        uname = "r%d" % useed
        upath = S.universe_path(uname)
        u = json.load(open(upath))
        hs = [S.random_history(u, rnd, n_rops, p_alt=0.05 if prop == "C04" else 0.0, p_starved=0.06 if prop == "C12" else 0.0)
              for _ in range(n_rh)]
        if conf["extra"]:
            for h in hs[::2]:
                for _ in range(3):
                    h.insert(rnd.randint(0, len(h)), extra_ops(rnd))
        jobs.append((uname, upath, u, hs))

    pair_jobs = {}
    if prop == "C16":
        for uname in ("core", "c10", "c10b", "c16", "c11", "c09b"):
            upath = S.universe_path(uname)
            u = json.load(open(upath))
            pairs = stutter_pairs(uname, u, rnd, 40 if tier == "quick" else 400, 15 if tier == "quick" else 150)
            jname = uname + "~pairs"
            pair_jobs[jname] = pairs
            jobs.append((jname, upath, u, [x for h, h2, _ in pairs for x in (h, h2)]))
    pair_cmp = 0

    def run_job(job):
        """replay one universe's histories into the real store and have TLC judge the traces (jobs are independent:
        own universe, own trace files; three of them run at a time)"""
        uname, upath, u, hs = job
        if uname == "exp":
            uname = "exp%d" % int(time.time())
            upath = S.universe_path(uname)
            u = json.load(open(upath))
        fpath = ""
        if conf["probes"] and uname != "many":
            fpath = os.path.join(wd, "filters_%s.json" % uname)
            json.dump(F.probe_filters(u), open(fpath, "w"))
        t0 = time.time()
        tfiles = S.run_storedrv(bindir, upath, hs, wd, uname, filters_path=fpath or None, extra=conf["extra"],
                                shards=min(len(hs), 2 * C.NCPU) if uname.startswith("exp") else None,
                                on_disk=(uname == "sz"))
        t1 = time.time()
        bad, lines = S.judge(prop, upath, tfiles, fpath)
        t2 = time.time()
        return uname, upath, u, hs, fpath, tfiles, bad, lines, t0, t1, t2

    import concurrent.futures as _cf
    live = [j for j in jobs if j[3]]
    # jobs whose names are not unique (none today) would share trace file names: keep them apart
    assert len({j[0] for j in live}) == len(live)
    with _cf.ThreadPoolExecutor(max_workers=3) as _ex:
        results = list(_ex.map(run_job, live))

    for uname, upath, u, hs, fpath, tfiles, bad, lines, t0, t1, t2 in results:
        total_lines += lines
        sc = S.scan_traces(tfiles, nontrivial_pred(prop, u))
        for k in ("calls", "histories", "distinct", "distinct_nontrivial"):
            all_scan[k] += sc[k]
        if len(all_scan["samples"]) < 4:
            all_scan["samples"] += [dict(universe=uname, history=s) for s in sc["samples"][:2]]
        C.log("[%s] %s: %d histories, %d lines, replay %.1fs, judge %.1fs, %d bad" %
              (prop, uname, len(hs), lines, t1 - t0, t2 - t1, len(bad)))
        if uname in pair_jobs:
            ncmp, nv = compare_pairs(prop, pair_jobs[uname], tfiles, uname, u, V, conf)
            pair_cmp += ncmp
            C.log("[%s] %s: %d pairs (history vs. history with reopen/rebuild inserted), %d calls compared, %d diverge" %
                  (prop, uname, len(pair_jobs[uname]), ncmp, nv))
        seen_keys = {}
        for b in bad:
            e = u["events"][b["a"] - 1] if b["k"] == "store" and 1 <= b["a"] <= u["n"] else None
            key = "%s:%s:%s:%s" % (prop, "+".join(b["clauses"]), b["k"], classify(b, e, u))
            seen_keys[key] = seen_keys.get(key, 0) + 1
            if seen_keys[key] > 3:
                continue
            lines_h = S.history_of(b["trace"], b["h"])
            ops = [dict(k=r["k"], a=r["a"], **({"key": r["x"][1], "val": r["x"][2]} if r["k"] in ("xput", "xdel") else {}))
                   for r in lines_h if r["k"] not in ("reset", "crash")]
            what = "%s violated (%s) at call %s(%d) -> %s in history %s of universe %s" % (
                prop, ",".join(b["clauses"]), b["k"], b["a"], b["res"],
                [[o["k"], o["a"]] for o in ops][:40], uname)
            V.violation(key, what, dict(kind="store_history", universe=u, ops=ops, extra=conf["extra"],
                                        probes=bool(conf["probes"]), clauses=b["clauses"],
                                        failing_call=[b["k"], b["a"], b["res"]]))
    V.coverage = dict(
        states=mc["states"], transitions=mc["transitions"],
        traces_validated_against_impl=all_scan["histories"],
        samples=all_scan["samples"],
        evaluations=all_scan["calls"], distinct_nontrivial=all_scan["distinct_nontrivial"],
        distinct_transitions_observed=all_scan["distinct"],
        trace_lines_judged=total_lines,
        rule="cases = public calls replayed into the real Store (TLC edge cover of PocketStore.tla + seeded random "
             "histories); distinct = distinct (abstract pre-state, call, result); non-trivial = the property's clause "
             "antecedent is exercised (see nontrivial_pred in checks/store.py)",
        model=dict(module="PocketStore.tla", universe=prim, spec_actions_never_taken=mc["never_taken"]),
        edge_cover=edge_totals,
        exhaustive=False,
    )
    if prop == "C16":
        V.coverage["stutter_pairs"] = dict(pairs=sum(len(v) for v in pair_jobs.values()), calls_compared=pair_cmp)
    if prop == "C09":
        V.coverage["kinds_classified_and_validated"] = kinds_checked
    if prop == "C04" and tier == "thorough":
        import selftest                       # binding self-test of all eight store trace judges (tool error on failure)
        selftest.run("SELFTEST", tier, seed)
        V.coverage["binding_self_test"] = "8 judges reject a single-field corruption they own"
    if prop in ("C09", "C11") and tier == "thorough":
        V.coverage["apalache_inductive_invariant"] = apalache_inductive(wd)
    V.assumptions = ["TLC explores the generative spec exhaustively for the curated universe only (bounded)",
                     "projection through public read APIs is the observable state (DESIGN 4.3)",
                     "LMDB / mmap-append / TLC are trusted"]
    return V.finish()


def apalache_inductive(wd):
    """Optional strengthening (never decides the verdict): Apalache shows that AtMostOnePerAddress /\\ DeletedNeverRetrievable
    is an inductive invariant of the API-level store spec for symbolic event fields (|Events| <= 6)."""
    import subprocess
    spec = os.path.join(C.SPEC, "apalache", "PocketStoreInd.tla")
    out = {}
    for name, args in (("base", ["--init=Init", "--length=0"]), ("step", ["--init=IndInit", "--length=1"])):
        try:
            p = subprocess.run(["apalache-mc", "check", "--cinit=ConstInit", "--inv=IndInv", "--out-dir=" + os.path.join(wd, "apalache")] + args + [spec],
                               cwd=wd, stdout=subprocess.PIPE, stderr=subprocess.STDOUT, text=True, timeout=900)
            out[name] = "NoError" if "The outcome is: NoError" in p.stdout else "not proved (rc %d)" % p.returncode
        except Exception as e:       # tool problems are recorded, never raised
            out[name] = "tool problem: %s" % type(e).__name__
    return out


def check_kinds(bindir, wd, V):
    """classification of all 65 536 kinds, recorded from the implementation and validated by TLC against the
    predicates the store spec is built on"""
    import subprocess
    kp = os.path.join(wd, "kinds.ndjson")
    subprocess.run([os.path.join(bindir, "kinddrv"), kp], check=True)
    rc, out = C.run_tlc("TraceKinds.tla", "TraceKinds.cfg", env={"TRACE": kp, "UNIVERSE": S.universe_path("c09")}, workers=1,
                        timeout=300, heap="3g", stack="1g")
    recs = C.tlc_json_lines(out, "KINDS")
    if not recs or recs[-1]["complete"] != 1:
        raise C.ToolError("kind classification trace not validated:\n" + out[-1500:])
    for k in recs[-1]["bad"][:5]:
        V.violation("C09:kind_class:%d" % k, "Kind %d is classified differently by the implementation and by the specification "
                    "(replaceable: 0, 3, 10000-19999; ephemeral: 20000-29999; parameterized: 30000-39999)" % k,
                    dict(kind="kind_class", k=k))
    return recs[-1]["n"]


def classify(b, e, u):
    """input class of a failing call, used in violation keys (and known-finding matching)"""
    if b["k"] == "store" and e is not None:
        cls = "kind5" if e["kind"] == 5 else ("repl" if U.is_repl(e["kind"]) else "param" if U.is_param(e["kind"]) else
                                              "eph" if U.is_eph(e["kind"]) else "regular")
        return "%s:%s" % (cls, "ok" if b["res"] == "ok" else b["res"].split(":")[0])
    return b["res"].split(":")[0]


def run_replay(prop, path, bindir, wd, V):
    rp = json.load(open(path))["replay"]
    upath = os.path.join(wd, "universe.json")
    json.dump(rp["universe"], open(upath, "w"))
    fpath = ""
    if rp.get("probes"):
        fpath = os.path.join(wd, "filters.json")
        json.dump(F.probe_filters(rp["universe"]), open(fpath, "w"))
    if rp.get("kind") == "stutter_pair":
        pairs = [(rp["ops"], rp["ops2"], rp["pos"])]
        tfiles = S.run_storedrv(bindir, upath, [rp["ops"], rp["ops2"]], wd, "replay", shards=1)
        ncmp, nv = compare_pairs(prop, pairs, tfiles, "replay", rp["universe"], V, None)
        V.coverage = dict(states=1, transitions=1, traces_validated_against_impl=2, samples=[rp["ops"]],
                          evaluations=ncmp, distinct_nontrivial=max(2, ncmp), rule="replay of one recorded pair of histories")
        return V.finish()
    tfiles = S.run_storedrv(bindir, upath, [rp["ops"]], wd, "replay", filters_path=fpath or None,
                            extra=rp.get("extra", False), shards=1)
    bad, lines = S.judge(prop, upath, tfiles, fpath)
    for l in open(tfiles[0]):
        r = json.loads(l)
        print("  %s(%s) -> %s  retr=%s delIds=%s delAddr=%s" % (r["k"], r["a"], r["res"], r["st"].get("retr"),
                                                               r["st"].get("delIds"), r["st"].get("delAddr")))
    for b in bad:
        V.violation("%s:%s:%s:replay" % (prop, "+".join(b["clauses"]), b["k"]),
                    "replayed: %s violated (%s) at line %d: %s(%d) -> %s" % (prop, ",".join(b["clauses"]), b["line"],
                                                                           b["k"], b["a"], b["res"]), rp)
    V.coverage = dict(states=1, transitions=1, traces_validated_against_impl=1, samples=[rp["ops"]],
                      evaluations=lines, distinct_nontrivial=max(2, lines), rule="replay of one recorded history")
    return V.finish()
