"""Check of C20 - HyperLogLog sketches (pocket_types::Hll8) merge like sets and estimate without failing.

  1. TLC model-checks spec/Hll.tla (through MC_Hll.tla) on small instances: the lattice laws of the
     property as invariants / action properties, every law evaluated against EVERY register state and
     every element set of the instance (MC_Hll.cfg), two-sketch behaviours with the ghost element sets
     (MC_Hll2.cfg; MC_Hll_big.cfg in the thorough tier), with -coverage vacuity control.
  2. The same module as a generator (Gen_Hll*.cfg) emits the edge cover of the sketch state graph: one
     behaviour (Add / AddRejected / Merge / RoundTrip / ImportBad / Estimate steps) per transition, each
     step with the registers the specification expects afterwards.  Every behaviour is concretised
     (model register indices -> real index bytes, model values -> real rho values, offsets swept over
     0..23, rejected offsets >= 24, malformed strings swept over every position and every non-hex ASCII
     character) and replayed into the real Hll8 by harness/src/bin/hlldrv.rs; registers are observed
     through to_hex_string() and compared with the expectation.
  3. Full-size behaviours (random and crafted 32-byte elements, 4 sketches) test the laws on the
     implementation itself (order independence, idempotence, union = merge, commutativity,
     associativity, export/import identity), and recorded full-size walks are validated step by step by
     TLC against Trace_Hll.tla (index and rho recomputed from the element bytes by the specification).
  4. Estimation totality: all 256 x 256 single-register extremes over several background values and
     seeded random register states, imported through from_hex_string and estimated, in the dev profile
     (overflow checks ON) and in release; the empty sketch must estimate 0.
  4b. The estimate is a function of the registers only: after EVERY step of every replayed behaviour, in the
     accuracy runs and on every imported state, estimate_count() of the live sketch is compared with
     estimate_count() of a fresh sketch imported from the live sketch's export (catches hidden state such as
     cached counters that clear / merge / import forget); clear() yields the empty sketch and the sketch then
     behaves like a new one (behaviours "B1 ; clear all ; B2" composed from the edge cover).
  4c. Pair sweep for add: every ordered pair of rho values 1..72 (+ large ones) into one bucket of a fresh
     sketch, over all offsets: the register must be the maximum.
  5. Accuracy: seeded sets of uniformly random elements; the recorded (n, est) pairs are validated by TLC
     against the envelope stated in HllDefs.tla (est = 0 for n = 0, 5|est-n| <= 2n for n >= 100).
"""
import concurrent.futures as cf
import hashlib
import json
import os
import random
import re
import subprocess
import sys
import time

sys.path.insert(0, os.path.join(os.path.dirname(os.path.abspath(__file__)), "..", "lib"))
import common as C

EST_CLAMP = 100_000_000        # estimates are clamped to this in TLC traces (32-bit integers there)
OFF_CLAMP = 2_000_000_000
FIN_LIMIT = 1 << 53            # a returned count at or above this is the saturated cast of a non-finite float
REJECT_OFFSETS = [24, 25, 31, 32, 33, 63, 64, 255, 256, 65535, 2**31 - 1, 2**31, 2**32 - 1, 2**32, 2**63, 2**64 - 1]
NONHEX = [chr(c) for c in range(128) if chr(c) not in "0123456789abcdefABCDEF"]
MAX_ADD_RHO = 249              # MaxRho(0): the largest register value add_element can produce
NSK = 4                        # sketches per full-size behaviour (Trace_Hll.tla: NSK)
CACHE = os.path.join(C.WORK, "c20cache")
MAX_PAR = 4                    # harness processes at a time
TLC_PAR = 2                    # trace-judge JVMs (one worker each) at a time; the model checker runs beside them

SIZES = {
    # edge-cover cfg, behaviours replayed (None = all), traced edge behaviours, law behaviours, walks (n, ops),
    # backgrounds, random states, traced random states, accuracy plan [(n, repetitions)], malformed extra
    "quick": dict(gen="Gen_Hll_quick.cfg", edges=None, traced=150, prelude=0.35, pair_bytes=2, laws=120, walks=(16, 50),
                  backgrounds=[0, 1, 5, 20, 63, 64, 200, 255], random_states=5000, traced_states=300,
                  # cardinalities on a lattice from 100 upward, dense where estimators switch formula (small-range
                  # correction up to 2.5 m = 640; HLL++-style thresholds around 200-260 for m = 256)
                  acc=[(0, 4), (1, 4), (100, 10), (130, 5), (160, 5), (190, 6), (200, 8), (210, 8), (221, 10), (230, 8), (240, 6),
                       (250, 8), (270, 5), (300, 5), (400, 5), (500, 5), (600, 5), (640, 6), (680, 5), (800, 4), (1000, 8),
                       (2000, 3), (10000, 3)], malformed=700,
                  mc=["MC_Hll.cfg", "MC_Hll2.cfg"]),
    "thorough": dict(gen="Gen_Hll.cfg", edges=None, traced=1500, prelude=0.25, pair_bytes=4, laws=600, walks=(150, 80),
                     backgrounds=sorted(set(list(range(0, 256, 4)) + [1, 2, 5, 7, 13, 31, 33, 47, 62, 63, 65, 127, 129, 249, 250, 254, 255])),
                     random_states=40000, traced_states=3000,
                     acc=[(0, 8), (1, 8), (2, 8), (10, 8), (100, 40), (200, 20), (500, 20), (640, 20), (1000, 40),
                          (3000, 12), (10000, 12), (50000, 6)] + [(n, 8) for n in range(105, 1000, 5)], malformed=6000,
                     mc=["MC_Hll.cfg", "MC_Hll2.cfg", "MC_Hll_big.cfg"]),
}


def max_rho(o):
    return 8 * (31 - o) + 1


# ------------------------------------------------------------------------------------------------
# generation (TLC) of the edge cover
# ------------------------------------------------------------------------------------------------

RE_CASE = re.compile(r'^<<"CASE", "(.*)">>$')


def spec_hash(cfg):
    h = hashlib.sha256()
    for f in ("Hll.tla", "HllDefs.tla", cfg):
        h.update(open(os.path.join(C.SPEC, f), "rb").read())
    return h.hexdigest()[:16]


def gen_cases(cfg):
    """behaviours emitted by TLC from Hll.tla under cfg (cached: depends on /verif/spec only)"""
    os.makedirs(CACHE, exist_ok=True)
    path = os.path.join(CACHE, "cases_%s_%s.ndjson" % (cfg.replace(".cfg", ""), spec_hash(cfg)))
    if not os.path.exists(path):
        t0 = time.time()
        raw = path + ".raw%d" % os.getpid()
        C.run_tlc("Hll.tla", cfg, workers=1, timeout=600, heap="4g", out_path=raw)
        n, okline = 0, False
        tmp = path + ".tmp%d" % os.getpid()
        with open(raw) as f, open(tmp, "w") as g:
            for line in f:
                m = RE_CASE.match(line.rstrip("\n"))
                if m:
                    g.write(m.group(1).replace('\\"', '"').replace("\\\\", "\\") + "\n")
                    n += 1
                elif "Model checking completed. No error has been found." in line:
                    okline = True
        tail = open(raw).read()[-2000:] if not okline else ""
        os.remove(raw)
        if not okline or n == 0:
            os.remove(tmp)
            raise C.ToolError("generation with %s failed:\n%s" % (cfg, tail))
        os.rename(tmp, path)
        C.log("[gen] %s: %d behaviours in %.1fs" % (cfg, n, time.time() - t0))
    with open(path) as f:
        return [json.loads(l) for l in f]


def cfg_constants(cfg):
    txt = open(os.path.join(C.SPEC, cfg)).read()
    return {k: int(v) for k, v in re.findall(r"\b(M|MaxV|NS)\s*=\s*(\d+)", txt)}


# ------------------------------------------------------------------------------------------------
# concretisation
# ------------------------------------------------------------------------------------------------

def mk_element(ib, rho, o, rnd):
    """32 bytes: index byte ib at offset o, then rho-1 zero bits, then a 1 bit (no 1 bit at all when
    rho = max_rho(o)); everything else random.  Mirrors MkEl of HllDefs.tla."""
    assert 0 <= o <= 23 and 1 <= rho <= max_rho(o)
    b = bytearray(rnd.getrandbits(8) for _ in range(32))
    b[o] = ib
    z = rho - 1
    if rho == max_rho(o):
        for k in range(o + 1, 32):
            b[k] = 0
    else:
        nb = z // 8
        for k in range(o + 1, o + 1 + nb):
            b[k] = 0
        bit = 0x80 >> (z % 8)
        b[o + 1 + nb] = bit | (rnd.getrandbits(8) & (bit - 1))
    return bytes(b)


def hex_of(regs):
    """lower-case hex form of a sparse register dict"""
    b = bytearray(256)
    for i, v in regs.items():
        b[i] = v
    return bytes(b).hex()


class Sweep:
    """round-robin choice of the concrete members of each abstract class, and what was covered"""

    def __init__(self, rnd):
        self.rnd = rnd
        self.n_off = rnd.randrange(24)
        self.n_rej = rnd.randrange(len(REJECT_OFFSETS))
        self.n_pos = {"badhi": rnd.randrange(256), "badlo": rnd.randrange(256)}
        self.n_chr = rnd.randrange(len(NONHEX))
        self.offsets, self.rejected, self.badpos, self.badchr, self.lens = set(), set(), set(), set(), set()
        self.vmaps, self.imaps = set(), set()

    def offset(self, rho):
        for _ in range(24):
            o = self.n_off % 24
            self.n_off += 1
            if max_rho(o) >= rho:
                self.offsets.add(o)
                return o
        raise AssertionError("no offset for rho %d" % rho)

    def reject(self):
        o = REJECT_OFFSETS[self.n_rej % len(REJECT_OFFSETS)]
        self.n_rej += 1
        self.rejected.add(o)
        return o

    def malformed(self, h, cls):
        """a malformed variant of the well-formed 512-digit string h, of abstract class cls"""
        r = self.rnd
        if cls == "short":
            out = h[:r.choice([511, 510, 509, 256, 2, 1])]
        elif cls == "long":
            out = h + r.choice(["0", "00", "000", "0" * 512])
        elif cls == "empty":
            out = ""
        elif cls == "double":
            out = h + h
        else:
            k = self.n_pos[cls] % 256
            self.n_pos[cls] += 1
            ch = NONHEX[self.n_chr % len(NONHEX)]
            self.n_chr += 1
            p = 2 * k + (0 if cls == "badhi" else 1)
            out = h[:p] + ch + h[p + 1:]
            self.badpos.add(p)
            self.badchr.add(ch)
        self.lens.add(len(out))
        return out

    def imap(self, M):
        fixed = [(0, 128, 255), (255, 0, 1), (1, 254, 127), (0, 1, 2), (253, 254, 255), (127, 128, 129), (15, 16, 240)]
        if self.rnd.random() < 0.5:
            m = self.rnd.choice(fixed)[:M]
        else:
            m = tuple(self.rnd.sample(range(256), M))
        self.imaps.add(m)
        return m

    def vmap(self, V):
        fixed = [(1, 2, 3), (1, 8, 9), (7, 8, 9), (8, 16, 17), (9, 17, 25), (1, 33, 64), (61, 62, 63), (62, 63, 64),
                 (63, 64, 65), (64, 65, 66), (15, 16, 255 - 6), (100, 200, 249), (127, 128, 129), (31, 32, 33)]
        x = self.rnd.random()
        if x < 0.45:
            m = self.rnd.choice(fixed)
            m = tuple(sorted(self.rnd.sample(m, V))) if V < len(m) else m
        elif x < 0.85:
            m = tuple(sorted(self.rnd.sample(range(1, 64), V)))
        else:
            m = tuple(sorted(self.rnd.sample(range(1, 250), V)))
        self.vmaps.add(m)
        return m


def concretise(beh, cid, sw, M, V, traced, prelude=None, ns_all=2):
    """abstract behaviour (list of step records from Hll.tla) -> harness case with expectations.
    With `prelude` (another behaviour of the cover) the case is  prelude ; Clear of every sketch ; beh  -
    a behaviour of Hll.tla because the state after clearing every sketch is the initial state."""
    rnd = sw.rnd
    ns = max(max(st["s"], st["t"]) for st in beh)
    pre_ops, pre_expect, pre_abs = [], [], []
    if prelude is not None:
        pc = concretise(prelude, cid, sw, M, V, False)
        ns = max(ns, pc["ns"], ns_all)
        pre_ops, pre_expect, pre_abs = pc["ops"], pc["x"]["expect"], pc["x"]["abstract"]
        for s in range(ns):
            pre_ops.append(dict(op="clear", s=s))
            pre_expect.append(dict(res="ok", regs=[], est=""))
            pre_abs.append(["clear", s + 1, 0, 0, 0, ""])
    imap, vmap = sw.imap(M), sw.vmap(V)
    cur = {s: {} for s in range(ns)}
    ops, expect = [], []
    for st in beh:
        s = st["s"] - 1
        want = {imap[i]: vmap[v - 1] for i, v in enumerate(st["exp"]) if v > 0}
        op = st["op"]
        e = dict(res="ok", regs=sorted(want.items()), est="")
        if op == "add":
            rho, ib = vmap[st["v"] - 1], imap[st["i"]]
            o = sw.offset(rho)
            ops.append(dict(op="add", s=s, el=mk_element(ib, rho, o, rnd).hex(), off=o))
        elif op == "addrej":
            ops.append(dict(op="add", s=s, el=bytes(rnd.getrandbits(8) for _ in range(32)).hex(), off=sw.reject()))
            e["res"] = "err"
        elif op == "merge":
            ops.append(dict(op="merge", s=s, t=st["t"] - 1))
        elif op == "rt":
            ops.append(dict(op="rt", s=s))
        elif op == "impbad":
            ops.append(dict(op="import", s=s, hex=sw.malformed(hex_of(cur[s]), st["c"]), cls=st["c"]))
            e["res"] = "err"
        elif op == "est":
            ops.append(dict(op="est", s=s))
            e["est"] = st["res"]          # "zero" | "count"
        elif op == "clear":
            ops.append(dict(op="clear", s=s))
        else:
            raise C.ToolError("unknown abstract op %r" % op)
        cur[s] = want
        expect.append(e)
    return dict(k="beh", id=cid, ns=ns, ops=pre_ops + ops,
                x=dict(src="edge", expect=pre_expect + expect,
                       abstract=pre_abs + [[st["op"], st["s"], st["t"], st["i"], st["v"], st["c"]] for st in beh],
                       imap=list(imap), vmap=list(vmap), trace=traced, prelude=len(pre_ops)))


PAIR_RHOS = list(range(1, 73)) + [73, 80, 81, 96, 127, 128, 129, 200, 248, 249]


def pair_case(cid, o, ib, rnd):
    """every ordered pair of rho values into bucket ib of a fresh sketch at offset o"""
    rhos = [r for r in PAIR_RHOS if r <= max_rho(o)]
    if max_rho(o) not in rhos:
        rhos.append(max_rho(o))
    return dict(k="pairs", id=cid, off=o, idx=ib, els=[[r, mk_element(ib, r, o, rnd).hex()] for r in rhos], x={})


def judge_pairs(case, out):
    if out.get("k") == "crash":
        return [("C20:crash:pairs", "the harness died in the pair sweep at offset %d: %s" % (case["off"], out.get("why")))]
    bad = []
    rhos = [r for r, _ in case["els"]]
    for i, row in enumerate(out["obs"]):
        for j, v in enumerate(row):
            if v != max(rhos[i], rhos[j]):
                bad.append(("C20:add_pair:register_not_max",
                            "fresh sketch, offset %d, bucket byte %d: add(rho %d) then add(rho %d) leaves the register at %d, "
                            "the specification says max = %d (elements %s, %s)" % (
                                case["off"], case["idx"], rhos[i], rhos[j], v, max(rhos[i], rhos[j]),
                                case["els"][i][1], case["els"][j][1])))
                if len(bad) >= 3:
                    return bad
    for i, j, why in out["dirty"]:
        bad.append(("C20:add_pair:%s" % why.replace(" ", "_"), "fresh sketch, offset %d, bucket %d: add(rho %d) then add(rho %d): %s" % (
            case["off"], case["idx"], rhos[i], rhos[j], why)))
        break
    return bad


def rand_element(rnd, o, crafted):
    if crafted:
        x = rnd.random()
        rho = rnd.randint(1, max_rho(o)) if x < 0.3 else (max_rho(o) if x < 0.35 else rnd.randint(1, min(63, max_rho(o))))
        return mk_element(rnd.choice([0, 255, rnd.randrange(256)]), rho, o, rnd)
    return bytes(rnd.getrandbits(8) for _ in range(32))


def law_behaviour(cid, rnd):
    """full-size behaviour testing the laws on the implementation itself; `laws` lists pairs of
    recorded steps whose register read-outs must be equal"""
    o = rnd.randrange(24)
    per_el_off = rnd.random() < 0.25
    crafted = rnd.random() < 0.5

    def mkset(n):
        return [(rand_element(rnd, oo, crafted and rnd.random() < 0.3), oo)
                for oo in ((rnd.randrange(24) if per_el_off else o) for _ in range(n))]

    def adds(s, els):
        return [dict(op="add", s=s, el=e.hex(), off=oo, rec=False) for e, oo in els]

    na, nb = rnd.choice([0, 1, 2, 10, 60, 300, 700]), rnd.choice([0, 1, 5, 40, 200, 500])
    A, B = mkset(na), mkset(nb)
    if A and rnd.random() < 0.5:
        B = B + rnd.sample(A, min(len(A), rnd.randint(1, 20)))       # overlapping sets
    ops, laws = [], []

    def obs(s):
        ops.append(dict(op="obs", s=s))
        return len(ops) - 1

    if rnd.random() < 0.25:
        # the laws on register states that adding elements does not reach: imported states (all registers at one value,
        # uniformly random bytes, all large, sparse) - merge is the element-wise maximum whatever the operands look like
        kind = "imported"

        def state():
            x = rnd.random()
            if x < 0.35:
                v = rnd.choice([0, 1, 2, 16, 24, 25, 26, 32, 63, 64, 65, 128, 200, 249, 250, 255])
                return {i: v for i in range(256) if v}
            if x < 0.55:
                return {i: rnd.randint(1, 255) for i in range(256)}
            if x < 0.75:
                lo = rnd.choice([17, 25, 26, 40, 100])
                return {i: rnd.randint(lo, 255) for i in range(256)}
            return {rnd.randrange(256): rnd.randint(1, 255) for _ in range(rnd.randint(0, 12))}

        X, Y = state(), state()
        M_ = {i: max(X.get(i, 0), Y.get(i, 0)) for i in set(X) | set(Y)}
        imp = lambda s_, st: dict(op="import", s=s_, hex=hex_of(st), cls="ok")
        ops += [imp(0, X), imp(1, Y), imp(2, Y), imp(3, X)]
        ops.append(dict(op="merge", s=0, t=1)); xy = len(ops) - 1
        ops.append(dict(op="merge", s=2, t=3)); yx = len(ops) - 1
        laws.append(("merge_commutative", xy, yx))
        ops.append(imp(1, M_)); mx = len(ops) - 1
        laws.append(("merge_is_elementwise_maximum", xy, mx))
        ops.append(dict(op="merge", s=0, t=2)); again = len(ops) - 1
        laws.append(("merge_idempotent", xy, again))
        ops.append(dict(op="rt", s=0)); r = len(ops) - 1
        laws.append(("export_import_identity", xy, r))
        ops.append(dict(op="est", s=0))
        ops.append(dict(op="est", s=3))
        # the digits of an imported sketch may be written in either case (outside what export produces: a refusal would be
        # fine, a different register state is not)
        Z_ = state()
        hz = hex_of(Z_)
        mixed = "".join(c.upper() if (k // 2) % 2 == 0 else c for k, c in enumerate(hz))
        ops.append(dict(op="import", s=2, hex=hz, cls="ok")); lo = len(ops) - 1
        ops.append(dict(op="import", s=3, hex=hz.upper(), cls="ok")); up = len(ops) - 1
        laws.append(("may:import_ignores_digit_case", lo, up))
        ops.append(dict(op="import", s=3, hex=mixed, cls="ok")); mx2 = len(ops) - 1
        laws.append(("may:import_ignores_digit_case", lo, mx2))
    elif rnd.random() < 0.6:
        kind = "union"
        A2 = A + [rnd.choice(A) for _ in range(rnd.randint(0, 30))] if A else []
        rnd.shuffle(A2)
        U = A + B
        rnd.shuffle(U)
        ops += adds(0, A); a0 = obs(0)
        ops += adds(1, A2); a1 = obs(1)
        laws.append(("add_order_independent_and_idempotent", a0, a1))
        ops += adds(2, B); obs(2)
        ops += adds(3, U); u = obs(3)
        ops.append(dict(op="merge", s=0, t=2)); ab = len(ops) - 1
        laws.append(("sketch_of_union_is_merge", ab, u))
        ops.append(dict(op="merge", s=2, t=1)); ba = len(ops) - 1
        laws.append(("merge_commutative", ab, ba))
        ops.append(dict(op="merge", s=0, t=2)); ab2 = len(ops) - 1
        laws.append(("merge_idempotent", ab, ab2))
        ops.append(dict(op="merge", s=0, t=0)); aa = len(ops) - 1
        laws.append(("merge_idempotent", ab, aa))
        ops.append(dict(op="rt", s=0)); r = len(ops) - 1
        laws.append(("export_import_identity", ab, r))
        if A:
            e, oo = rnd.choice(A)
            ops.append(dict(op="add", s=0, el=e.hex(), off=oo)); ra = len(ops) - 1
            laws.append(("add_idempotent", ab, ra))
        ops.append(dict(op="est", s=0))
        # clear: the cleared sketch is the empty sketch (a never-touched one reads the same) and is then as good as new
        ops.append(dict(op="clear", s=0)); c0 = len(ops) - 1
        ops.append(dict(op="clear", s=3)); ops.append(dict(op="clear", s=3)); c3 = len(ops) - 1
        laws.append(("cleared_is_empty", c0, c3))
        laws.append(("cleared_is_empty:registers", c0, None))
        ops += adds(0, A2); ra2 = obs(0)
        laws.append(("cleared_behaves_like_new", a1, ra2))
        ops.append(dict(op="merge", s=3, t=1)); m3 = len(ops) - 1
        laws.append(("cleared_behaves_like_new", a1, m3))
    else:
        kind = "assoc"
        Cc = mkset(rnd.choice([0, 3, 50, 400]))
        ops += adds(0, A) + adds(1, B) + adds(2, Cc) + adds(3, A)
        ops.append(dict(op="merge", s=0, t=1))
        ops.append(dict(op="merge", s=0, t=2)); left = len(ops) - 1          # (A + B) + C
        ops.append(dict(op="merge", s=1, t=2))
        ops.append(dict(op="merge", s=3, t=1)); right = len(ops) - 1         # A + (B + C)
        laws.append(("merge_associative", left, right))
        ops.append(dict(op="est", s=3))
    return dict(k="beh", id=cid, ns=NSK, ops=ops, x=dict(src="law", kind=kind, laws=laws, trace=False))


def walk_behaviour(cid, rnd, nops):
    """full-size random walk, every step recorded; judged by TLC (Trace_Hll.tla)"""
    ops = []
    pool = []
    valid_hex = None
    for _ in range(nops):
        x = rnd.random()
        s = rnd.randrange(NSK)
        if x < 0.55:
            o = rnd.randrange(24)
            if pool and rnd.random() < 0.2:
                e, o = rnd.choice(pool)
            else:
                e = rand_element(rnd, o, rnd.random() < 0.5)
                pool.append((e, o))
            ops.append(dict(op="add", s=s, el=e.hex(), off=o))
        elif x < 0.62:
            ops.append(dict(op="add", s=s, el=rand_element(rnd, 0, False).hex(), off=rnd.choice(REJECT_OFFSETS)))
        elif x < 0.80:
            ops.append(dict(op="merge", s=s, t=rnd.randrange(NSK)))
        elif x < 0.86:
            ops.append(dict(op="rt", s=s))
        elif x < 0.93:
            ops.append(dict(op="clear", s=s))
        elif x < 0.96:
            h = "00" * 256
            cls = rnd.choice(["short", "long", "empty", "double", "badhi", "badlo"])
            ops.append(dict(op="import", s=s, hex=Sweep(rnd).malformed(h, cls), cls=cls))
        else:
            ops.append(dict(op="est", s=s))
    return dict(k="beh", id=cid, ns=NSK, ops=ops, x=dict(src="walk", trace=True))


def random_state(rnd):
    """a register state (list of 256 values) from one of several distributions"""
    x = rnd.random()
    if x < 0.20:
        return [rnd.randrange(256) for _ in range(256)], "uniform0..255"
    if x < 0.40:
        return [rnd.randrange(64) for _ in range(256)], "uniform0..63"
    if x < 0.60:
        # what n uniformly random elements produce
        n = rnd.choice([1, 10, 100, 1000, 100000, 10 ** 7])
        regs = [0] * 256
        for _ in range(min(n, 3000)):
            i = rnd.randrange(256)
            rho = 1
            while rnd.random() < 0.5 and rho < 249:
                rho += 1
            if n > 3000:
                rho = min(249, rho + (n // 3000).bit_length() - 1)
            regs[i] = max(regs[i], rho)
        return regs, "realistic"
    if x < 0.75:
        regs = [0] * 256
        for _ in range(rnd.randint(1, 6)):
            regs[rnd.randrange(256)] = rnd.choice([1, 31, 32, 33, 62, 63, 64, 65, 127, 128, 129, 254, 255, rnd.randrange(256)])
        return regs, "sparse"
    if x < 0.85:
        v = rnd.randrange(256)
        return [v] * 256, "constant"
    lo = rnd.randrange(256)
    hi = rnd.randrange(lo, 256)
    return [rnd.randint(lo, hi) for _ in range(256)], "band"


# ------------------------------------------------------------------------------------------------
# running the harness
# ------------------------------------------------------------------------------------------------

def strip(case):
    c = {k: v for k, v in case.items() if k != "x"}
    if c.get("k") == "beh":
        c["ops"] = [{k: v for k, v in op.items() if k != "cls"} for op in c["ops"]]
    return c


def _run_batch(binary, cases, wd, tag, timeout):
    """-> dict id -> list of output records; a crash / hang of the code under test is isolated to one
    case by bisection and recorded as {"k": "crash"}"""
    cp, op = os.path.join(wd, tag + ".in"), os.path.join(wd, tag + ".out")
    with open(cp, "w") as f:
        for c in cases:
            f.write(json.dumps(strip(c)) + "\n")
    why = None
    try:
        p = subprocess.run([binary, "--cases", cp, "--out", op], stdout=subprocess.PIPE, stderr=subprocess.STDOUT,
                           timeout=timeout)
        if p.returncode != 0:
            why = "exit %s: %s" % (p.returncode, p.stdout[-300:].decode("utf8", "replace"))
    except subprocess.TimeoutExpired:
        why = "no return within %ds" % timeout
    if why is None:
        outs = {}
        with open(op) as f:
            for l in f:
                r = json.loads(l)
                outs.setdefault(r["id"], []).append(r)
        return outs
    if len(cases) == 1:
        C.log("[hlldrv] case %s: %s" % (cases[0]["id"], why))
        return {cases[0]["id"]: [dict(k="crash", id=cases[0]["id"], why=why)]}
    C.log("[hlldrv] batch %s failed (%s); isolating" % (tag, why[:80]))
    h = len(cases) // 2
    outs = _run_batch(binary, cases[:h], wd, tag + "a", timeout)
    outs.update(_run_batch(binary, cases[h:], wd, tag + "b", timeout))
    return outs


def run_cases(bindir, cases, wd, tag, timeout=600):
    if not cases:
        return {}
    binary = os.path.join(bindir, "hlldrv")
    shards = min(MAX_PAR, max(1, len(cases) // 200)) if all(c["k"] != "extremes" for c in cases) else min(MAX_PAR, len(cases))
    per = (len(cases) + shards - 1) // shards
    chunks = [cases[i * per:(i + 1) * per] for i in range(shards)]
    outs = {}
    with cf.ThreadPoolExecutor(max_workers=MAX_PAR) as ex:
        for o in ex.map(lambda a: _run_batch(binary, a[1], wd, "%s_%d" % (tag, a[0]), timeout), enumerate(c for c in chunks if c)):
            outs.update(o)
    return outs


# ------------------------------------------------------------------------------------------------
# judging
# ------------------------------------------------------------------------------------------------

def reg_class(mx):
    return "register>=64" if mx >= 64 else "register<64"


def step_regs(st):
    return {int(i): int(v) for i, v in st["regs"]}


def judge_beh(case, out):
    """python side of the verdict on a behaviour: expectation carried by the spec's CASE (edge cover) or
    the law equalities (full-size behaviours).  -> list of (key, what)"""
    x = case["x"]
    bad = []
    if out.get("k") == "crash":
        return [("C20:crash:behaviour", "the harness process died or hung running the behaviour: %s" % out.get("why"))]
    steps = out["steps"]
    nev = 0
    for n, (op, st) in enumerate(zip(case["ops"], steps)):
        live, fresh = st["ev"]
        why = None
        if live == "panic":
            if fresh != "panic":
                why = "estimate_count() of the live sketch panics while the fresh import of its export estimates %s" % fresh
        elif live != fresh:
            why = ("estimate_count() of the live sketch = %s, but a fresh sketch imported from its export (same registers) "
                   "estimates %s" % (live, fresh))
        if why and nev < 1:
            nev += 1
            bad.append(("C20:estimate_depends_on_history:after_%s" % op["op"],
                        "after step %d (%s on sketch %d; preceding ops %s): %s" % (
                            n, op["op"], op["s"], [o["op"] for o in case["ops"][max(0, n - 6):n]], why)))
        if live == "panic" and fresh == "panic" and x["src"] != "edge" and nev < 1:
            nev += 1
            mx = max([v for _, v in st["regs"]] + [0])
            bad.append(("C20:estimate_panic:%s" % reg_class(mx), "estimate_count() panics after step %d (%s)" % (n, op["op"])))
        if not st.get("norec") and st["hex_ok"] and not st["regs"] and live not in ("0", "panic") and nev < 1:
            nev += 1
            bad.append(("C20:empty_estimate_nonzero:after_%s" % op["op"],
                        "after step %d (%s) sketch %d exports all-zero registers but estimate_count() = %s" % (n, op["op"], op["s"], live)))
        if st.get("norec"):
            if st["res"] != "ok":
                bad.append(("C20:conformance:%s:%s" % (op["op"], st["res"]),
                            "step %d %s on sketch %d returned %s (%s)" % (n, op["op"], op["s"], st["res"], st["msg"])))
            continue
        if not st["hex_ok"]:
            bad.append(("C20:export_malformed", "to_hex_string after step %d is not 512 hex digits: %r" % (n, st["raw"][:80])))
    if x["src"] == "edge":
        for n, (op, st, e) in enumerate(zip(case["ops"], steps, x["expect"])):
            a = x["abstract"][n][0]
            obs = step_regs(st)
            if a == "est":
                mx = max([v for _, v in e["regs"]] + [0])
                if st["res"] != "ok":
                    bad.append(("C20:estimate_panic:%s" % reg_class(mx),
                                "estimate_count() %s (%s) at step %d; registers %s" % (st["res"], st["msg"], n, e["regs"])))
                elif int(st["est"]) >= FIN_LIMIT:
                    bad.append(("C20:estimate_not_finite", "estimate_count() = %s at step %d; registers %s" % (st["est"], n, e["regs"])))
                elif e["est"] == "zero" and int(st["est"]) != 0:
                    bad.append(("C20:empty_estimate_nonzero", "estimate_count() of the empty sketch = %s" % st["est"]))
            elif st["res"] != e["res"]:
                cls = (":" + op.get("cls", "")) if a == "impbad" else (":offset>=24" if a == "addrej" else "")
                bad.append(("C20:conformance:%s%s:%s" % (a, cls, st["res"]),
                            "step %d (%s) returned %s (%s), the specification says %s; op %s" % (
                                n, a, st["res"], st["msg"], e["res"], json.dumps(op)[:200])))
            if st["hex_ok"] and obs != dict(e["regs"]):
                bad.append(("C20:conformance:%s:registers" % a,
                            "after step %d (%s, abstract %s) sketch %d has registers %s, the specification says %s; index map %s value map %s" % (
                                n, a, x["abstract"][n], op["s"], sorted(obs.items()), e["regs"], x["imap"], x["vmap"])))
            if bad:
                break
    elif x["src"] == "law":
        for name, a, b in x["laws"]:
            if b is None:           # the read-out at step a must be all zero
                if steps[a]["res"] != "ok" or step_regs(steps[a]):
                    bad.append(("C20:law:%s" % name, "law %s: after step %d (%s) the registers are %s (%s)" % (
                        name, a, case["ops"][a]["op"], sorted(step_regs(steps[a]).items())[:8], steps[a]["res"])))
                continue
            ra, rb = step_regs(steps[a]), step_regs(steps[b])
            if name.startswith("may:") and steps[b]["res"] == "err":
                continue            # refused: allowed
            if steps[a]["res"] != "ok" or steps[b]["res"] != "ok":
                bad.append(("C20:law:%s:outcome" % name, "steps %d/%d returned %s/%s" % (a, b, steps[a]["res"], steps[b]["res"])))
            elif ra != rb:
                diff = sorted((i, ra.get(i, 0), rb.get(i, 0)) for i in set(ra) | set(rb) if ra.get(i, 0) != rb.get(i, 0))
                bad.append(("C20:law:%s" % name, "law %s: register read-outs at steps %d and %d differ in (index, left, right) %s" % (
                    name, a, b, diff[:8])))
        for n, (op, st) in enumerate(zip(case["ops"], steps)):
            if op["op"] == "est":
                if st["res"] != "ok":
                    mx = max([v for s2 in steps if not s2.get("norec") for _, v in s2["regs"]] + [0])
                    bad.append(("C20:estimate_panic:%s" % reg_class(mx), "estimate_count() %s (%s) at step %d" % (st["res"], st["msg"], n)))
                elif int(st["est"]) >= FIN_LIMIT:
                    bad.append(("C20:estimate_not_finite", "estimate_count() = %s at step %d" % (st["est"], n)))
    return bad


def judge_est(case, out):
    regs = case["x"].get("regs")
    mx = max(regs) if regs else 0
    dist = case["x"].get("dist", "")
    if out.get("k") == "crash":
        return [("C20:crash:estimate", "the harness process died or hung: %s" % out.get("why"))]
    bad = []
    if out["imp"] == "err" and mx > MAX_ADD_RHO:
        return []          # values 250..255 cannot come from adds; whether import takes them is free (HllDefs.AddReachable)
    if out["imp"] != "ok":
        bad.append(("C20:import_%s:wellformed_hex" % ("refused" if out["imp"] == "err" else "panic"),
                    "from_hex_string of a well-formed 512-digit string (%s) -> %s (%s)" % (dist, out["imp"], out["msg"])))
        return bad
    if not out.get("same", True):
        bad.append(("C20:estimate_depends_on_history:after_import",
                    "an imported %s state and the fresh import of its own export estimate differently" % dist))
    if not out["rt_ok"]:
        bad.append(("C20:hex_identity:%s" % (dist or "state"), "export after import differs from the imported registers (%s state)" % dist))
    if out["res"] != "ok":
        bad.append(("C20:estimate_panic:%s" % reg_class(mx),
                    "estimate_count() panicked (%s) on an imported %s register state with largest register %d" % (out["msg"], dist, mx)))
    elif int(out["est"]) >= FIN_LIMIT:
        bad.append(("C20:estimate_not_finite", "estimate_count() = %s on an imported %s state" % (out["est"], dist)))
    elif mx == 0 and int(out["est"]) != 0:
        bad.append(("C20:empty_estimate_nonzero", "estimate_count() of the empty sketch = %s" % out["est"]))
    return bad


def row_failure_case(row, cid):
    """the concrete failing input of an extremes row as a stand-alone "est" case"""
    regs = [row["bg"]] * 256
    regs[max(0, row["first_bad"])] = row["v"]
    return dict(k="est", id=cid, hex=bytes(regs).hex(), x=dict(regs=regs, dist="extreme(register %d = %d, others %d)" % (
        max(0, row["first_bad"]), row["v"], row["bg"])))


def row_bad(row):
    imperr = row["imperr"] if max(row["v"], row["bg"]) <= MAX_ADD_RHO else 0
    return row["panic"] + imperr + row["rt_bad"] + row["sat"] + row.get("ediff", 0)


# ---- TLC trace judge ------------------------------------------------------------------------------

def tline(k, s=1, t=1, el=None, off=0, res="ok", regs=None, n=0, est=0, cls="", ev=None):
    d = dict(k=k, s=s, t=t, el=el or [], off=off, res=res, regs=regs or [], n=n, est=est, cls=cls, estf=0, eo="")
    if ev is not None:
        live, fresh = ev
        d["eo"] = "%s/%s" % ("ok" if live.isdigit() else live, "ok" if fresh.isdigit() else fresh)
        if k != "acc" and live.isdigit():
            d["est"] = min(int(live), EST_CLAMP)
        if fresh.isdigit():
            d["estf"] = min(int(fresh), EST_CLAMP)
        if live.isdigit() and fresh.isdigit() and live != fresh and d["estf"] == min(int(live), EST_CLAMP):
            d["estf"] = d["estf"] - 1          # both beyond the clamp but different: keep them different
    return d


def full(st):
    if not st["hex_ok"]:
        return []
    r = [0] * 256
    for i, v in st["regs"]:
        r[i] = v
    return r


def est_fields(est):
    e = int(est)
    return min(e, EST_CLAMP), ("fin" if e < FIN_LIMIT else "sat")


def wellformed(h):
    return len(h) == 512 and all(ch in "0123456789abcdefABCDEF" for ch in h)


def trace_of_beh(case, out):
    lines = [tline("reset", n=case["ns"])]
    for op, st in zip(case["ops"], out["steps"]):
        s = op["s"] + 1
        res = st["res"]
        ev = st.get("ev")
        if op["op"] == "add":
            lines.append(tline("add" if op["off"] <= 23 else "addrej", s=s, el=list(bytes.fromhex(op["el"])),
                               off=min(op["off"], OFF_CLAMP), res=res, regs=full(st), ev=ev))
        elif op["op"] == "merge":
            lines.append(tline("merge", s=s, t=op["t"] + 1, res=res, regs=full(st), ev=ev))
        elif op["op"] == "rt":
            lines.append(tline("rt", s=s, res=res, regs=full(st), ev=ev))
        elif op["op"] == "clear":
            lines.append(tline("clear", s=s, res=res, regs=full(st), ev=ev))
        elif op["op"] == "import":
            wf = wellformed(op["hex"])
            lines.append(tline("import" if wf else "impbad", s=s, res=res, regs=full(st), ev=None if wf else ev))
        elif op["op"] == "est":
            e, cls = est_fields(st["est"]) if res == "ok" else (0, "")
            lines.append(tline("est", s=s, res=res, est=e, cls=cls))
    return lines


def trace_of_est(case, out):
    lines = [tline("reset", n=1)]
    if case.get("new"):
        regs = [0] * 256
    else:
        regs = case["x"]["regs"]
        lines.append(tline("import", s=1, res="mismatch" if out["imp"] == "ok" and not out["rt_ok"] else out["imp"], regs=regs))
    if out["imp"] == "ok":
        e, cls = est_fields(out["est"]) if out["res"] == "ok" else (0, "")
        lines.append(tline("est", s=1, res=out["res"], est=e, cls=cls))
    return lines


def tlc_judge(groups, wd, tag):
    """groups: list of (owner, [trace lines]).  -> list of (owner, set(clauses)), number of lines judged.
    Runs Trace_Hll.tla over the lines (sharded at behaviour boundaries)."""
    groups = [g for g in groups if g[1]]
    if not groups:
        return [], 0
    total = sum(len(g[1]) for g in groups)
    nsh = min(TLC_PAR, max(1, total // 1500))
    shards = [[] for _ in range(nsh)]
    for i, g in enumerate(groups):
        shards[i % nsh].append(g)

    def one(a):
        si, gs = a
        if not gs:
            return [], 0
        path = os.path.join(wd, "%s_trace%d.ndjson" % (tag, si))
        owner_of = []
        with open(path, "w") as f:
            for owner, lines in gs:
                for ln in lines:
                    f.write(json.dumps(ln) + "\n")
                    owner_of.append(owner)
        n = len(owner_of)
        rc, outp = C.run_tlc("Trace_Hll.tla", "Trace_Hll.cfg", env={"TRACE": path}, workers=1, timeout=900, heap="3g",
                             deque=True, stack="1g")
        if "NOTCONSUMED" in outp or "Model checking completed" not in outp:
            raise C.ToolError("trace judge did not consume %s:\n%s" % (path, outp[-2500:]))
        gen, dist = C.tlc_counts(outp)
        if dist != n + 1:
            raise C.ToolError("trace judge: %d states for %d lines of %s" % (dist, n, path))
        res = {}
        for m in re.finditer(r'^<<"BAD", (\d+), \{(.*)\}>>$', outp, re.M):
            cl = set(x.strip().strip('"') for x in m.group(2).split(","))
            res.setdefault(id(owner_of[int(m.group(1)) - 1]), (owner_of[int(m.group(1)) - 1], set()))[1].update(cl)
        return list(res.values()), n

    bad, lines = [], 0
    with cf.ThreadPoolExecutor(max_workers=TLC_PAR) as ex:
        for b, n in ex.map(one, enumerate(shards)):
            bad += b
            lines += n
    return bad, lines


def describe(case, out, clauses):
    if case["k"] == "acc":
        return ("Trace_Hll.tla rejects %s: %d distinct uniformly random 32-byte elements (harness seed %d, offset %d, each added "
                "%d time(s)) are estimated as %s; the envelope is est = 0 for n = 0 and |est - n| <= 0.4 n for n >= 100" % (
                    sorted(clauses), case["n"], case["seed"], case["off"], case["reps"], out.get("est") or out.get("res"))
                + "; estimate of (live sketch, fresh import of its export) = %s" % (out.get("ev"),))
    return "Trace_Hll.tla rejects the recorded execution: clauses %s" % sorted(clauses)


def key_for_clauses(case, out, clauses):
    """violation key (failing input class) for clauses of Trace_Hll.tla rejected on a case"""
    k = case["k"]
    if "EstimateOfRegistersOnly" in clauses:
        return "C20:estimate_depends_on_history:%s" % ("random_elements" if k == "acc" else "trace")
    if "ClearedIsEmpty" in clauses:
        return "C20:conformance:clear:registers"
    if k == "acc":
        if "Envelope" in clauses:
            return "C20:envelope:n=%d" % case["n"]
        return "C20:estimate_panic:random_elements:n=%d" % case["n"]
    if "EstimateReturns" in clauses:
        mx = 0
        if k == "est" and case["x"].get("regs"):
            mx = max(case["x"]["regs"])
        elif k == "beh":
            mx = max([v for st in out["steps"] for _, v in st["regs"]] + [0])
        return "C20:estimate_panic:%s" % reg_class(mx)
    if "EstimateFinite" in clauses:
        return "C20:estimate_not_finite"
    if "EmptyEstimateZero" in clauses:
        return "C20:empty_estimate_nonzero"
    return "C20:trace:%s" % "+".join(sorted(clauses))


# ------------------------------------------------------------------------------------------------
# the check
# ------------------------------------------------------------------------------------------------

class Collector:
    """violations per key, capped, keeping the concrete case for the replay file"""

    def __init__(self, V):
        self.V, self.count, self.reported = V, {}, set()

    def add(self, key, what, case, out, profile):
        self.count[key] = self.count.get(key, 0) + 1
        self.reported.add((profile, case["id"]))
        if self.count[key] > 2:
            return
        self.V.violation(key, "[%s profile] %s" % (profile, what),
                         dict(kind="case", profile=profile, case=case, observed=out))


def run(prop, tier, seed, replay=None):
    V = C.Verdict(prop, tier, seed, "model_checking")
    bins = {"dev": C.build_harness("dev", bins=["hlldrv"]), "release": C.build_harness("release", bins=["hlldrv"])}
    wd = C.workdir("%s_%s" % (prop, tier))
    if replay:
        return run_replay(prop, replay, bins, wd, V)
    rnd = random.Random("%s-%d" % (prop, seed))
    Z = SIZES[tier]
    col = Collector(V)
    t_start = time.time()

    # 1. model checking (in the background, at most 4 TLC workers at a time)
    pool = cf.ThreadPoolExecutor(max_workers=1)
    def mc_all():
        res = {}
        for cfg in Z["mc"]:
            r = C.model_check("MC_Hll.tla", cfg, None, workers=4 if "big" in cfg else 2, timeout=1200, heap="4g")
            if r["never_taken"]:
                raise C.ToolError("vacuous model %s: actions never taken: %s" % (cfg, r["never_taken"]))
            C.log("[mc] %s: %d states, %d transitions in %.1fs" % (cfg, r["states"], r["transitions"], r["wall"]))
            res[cfg] = r
        return res
    mc_future = pool.submit(mc_all)

    try:
        # 2. edge cover -> concrete behaviours
        consts = cfg_constants(Z["gen"])
        abstract = gen_cases(Z["gen"])
        total_edges = len(abstract)
        if Z["edges"] is not None and Z["edges"] < total_edges:
            abstract = rnd.sample(abstract, Z["edges"])
        sw = Sweep(rnd)
        traced_ids = set(rnd.sample(range(len(abstract)), min(Z["traced"], len(abstract))))
        t0 = time.time()
        cases = [concretise(b, i, sw, consts["M"], consts["MaxV"], i in traced_ids,
                            prelude=rnd.choice(abstract) if rnd.random() < Z["prelude"] else None, ns_all=consts["NS"])
                 for i, b in enumerate(abstract)]
        nid = len(cases)
        pair_cases = []
        for o in range(24):
            for ib in ([0, 255][o % 2:][:1] + [rnd.randrange(256) for _ in range(Z["pair_bytes"] - 1)]):
                pair_cases.append(pair_case(nid, o, ib, rnd))
                nid += 1
        law_cases = [law_behaviour(nid + i, rnd) for i in range(Z["laws"])]
        nid += len(law_cases)
        walk_cases = [walk_behaviour(nid + i, rnd, Z["walks"][1]) for i in range(Z["walks"][0])]
        nid += len(walk_cases)
        beh_cases = cases + law_cases + walk_cases
        C.log("[C20] %d edge behaviours (of %d), %d law behaviours, %d walks concretised in %.1fs" % (
            len(cases), total_edges, len(law_cases), len(walk_cases), time.time() - t0))

        # 3. estimation totality + hex identity on register states + malformed input
        est_cases = [dict(k="est", id=nid, new=True, x=dict(regs=None, dist="new"))]
        nid += 1
        est_cases.append(dict(k="est", id=nid, hex="00" * 256, x=dict(regs=[0] * 256, dist="empty")))
        nid += 1
        for _ in range(Z["random_states"]):
            regs, dist = random_state(rnd)
            est_cases.append(dict(k="est", id=nid, hex=bytes(regs).hex(), x=dict(regs=regs, dist=dist)))
            nid += 1
        ext_cases = []
        for b in Z["backgrounds"]:
            ext_cases.append(dict(k="extremes", id=nid, bg=b, x={}))
            nid += 1
        mal_cases = []
        msw = Sweep(rnd)
        for j in range(Z["malformed"]):
            regs, dist = random_state(rnd)
            want = {i: v for i, v in enumerate(regs) if v}
            cls = ["badhi", "badlo", "short", "long", "empty", "double"][j % 6 if j % 12 < 6 else j % 2]
            ops = [dict(op="import", s=0, hex=bytes(regs).hex()),
                   dict(op="import", s=0, hex=msw.malformed(bytes(regs).hex(), cls), cls=cls)]
            mal_cases.append(dict(k="beh", id=nid, ns=1, ops=ops,
                                  x=dict(src="edge", trace=False, imap=[], vmap=[], abstract=[["import", 1, 0, 0, 0, ""], ["impbad", 1, 0, 0, 0, cls]],
                                         expect=[dict(res="ok", regs=sorted(want.items()), est=""),
                                                 dict(res="err", regs=sorted(want.items()), est="")])))
            nid += 1

        # 4. accuracy
        acc_cases = []
        for n, reps in Z["acc"]:
            for _ in range(reps):
                acc_cases.append(dict(k="acc", id=nid, seed=rnd.getrandbits(48), n=n, off=rnd.randrange(24),
                                      reps=rnd.choice([1, 1, 2, 3]) if n <= 10000 else 1, x={}))
                nid += 1

        # ---- run (dev: overflow checks ON; release as well for everything that estimates) ----
        t0 = time.time()
        outs = {"dev": {}, "release": {}}
        outs["dev"].update(run_cases(bins["dev"], beh_cases + mal_cases, wd, "beh_dev"))
        outs["dev"].update(run_cases(bins["dev"], est_cases + acc_cases, wd, "est_dev"))
        outs["dev"].update(run_cases(bins["dev"], ext_cases, wd, "ext_dev"))
        outs["dev"].update(run_cases(bins["dev"], pair_cases, wd, "pairs_dev"))
        outs["release"].update(run_cases(bins["release"], pair_cases, wd, "pairs_rel"))
        rel_beh = (law_cases + walk_cases + cases) if tier == "thorough" else (law_cases + walk_cases)
        outs["release"].update(run_cases(bins["release"], rel_beh, wd, "beh_rel"))
        outs["release"].update(run_cases(bins["release"], est_cases + acc_cases, wd, "est_rel"))
        outs["release"].update(run_cases(bins["release"], ext_cases, wd, "ext_rel"))
        C.log("[C20] harness runs (dev + release) in %.1fs" % (time.time() - t0))

        # ---- verdict ----
        stats = dict(beh=0, steps=0, est_states=0, extreme_states=0, acc=0, malformed=0, pairs=0, clears=0, reuse=0)
        nontrivial = set()
        acc_pairs = []
        groups = {"dev": [], "release": []}
        tstates = 0
        for profile in ("dev", "release"):
            for case in ext_cases + est_cases + acc_cases + pair_cases + mal_cases + cases + law_cases + walk_cases:
                cid = case["id"]
                if cid not in outs[profile]:
                    continue
                rs = outs[profile][cid]
                out = rs[0]
                k = case["k"]
                if k == "pairs":
                    if out.get("k") != "crash":
                        stats["pairs"] += sum(len(r) for r in out["obs"])
                        nontrivial.add(("pairs", case["off"], case["idx"]))
                    for key, what in judge_pairs(case, out):
                        col.add(key, what, case, out, profile)
                elif k == "beh":
                    stats["beh"] += 1
                    stats["steps"] += len(case["ops"])
                    stats["clears"] += sum(1 for o in case["ops"] if o["op"] == "clear")
                    stats["reuse"] += 1 if case["x"].get("prelude") else 0
                    if case["x"].get("abstract") and case["x"]["abstract"][-1][0] == "impbad" and case["ns"] == 1:
                        stats["malformed"] += 1
                    for key, what in judge_beh(case, out):
                        col.add(key, what, case, out, profile)
                    if out.get("k") != "crash":
                        if case["x"]["trace"]:
                            groups[profile].append((case, trace_of_beh(case, out)))
                        if any(st["regs"] for st in out["steps"]):
                            nontrivial.add(hashlib.sha256(json.dumps(strip(case), sort_keys=True).encode()).digest()[:8])
                elif k == "est":
                    stats["est_states"] += 1
                    for key, what in judge_est(case, out):
                        col.add(key, what, case, out, profile)
                    if out.get("k") != "crash":
                        if tstates < 2 * Z["traced_states"] or case.get("new") or case["x"]["dist"] == "empty":
                            tstates += 1
                            groups[profile].append((case, trace_of_est(case, out)))
                        if case["x"].get("regs") and any(case["x"]["regs"]):
                            nontrivial.add(hashlib.sha256(case["hex"].encode()).digest()[:8])
                elif k == "extremes":
                    if out.get("k") == "crash":
                        col.add("C20:crash:extremes", "the harness died enumerating the extremes over background %d: %s" % (
                            case["bg"], out.get("why")), case, out, profile)
                        continue
                    lines = []
                    for row in rs:
                        stats["extreme_states"] += 256
                        nb = row_bad(row)
                        lines.append(tline("row", n=nb, cls="bg=%d v=%d" % (row["bg"], row["v"])))
                        if nb:
                            fc = row_failure_case(row, cid)
                            mx = max(row["bg"], row["v"])
                            if row["panic"]:
                                key = "C20:estimate_panic:%s" % reg_class(mx)
                            elif row["imperr"] and mx <= MAX_ADD_RHO:
                                key = "C20:import_refused:wellformed_hex"
                            elif row["rt_bad"]:
                                key = "C20:hex_identity:extreme"
                            elif row.get("ediff"):
                                key = "C20:estimate_depends_on_history:after_import"
                            else:
                                key = "C20:estimate_not_finite"
                            col.add(key, "single-register extreme: register %d = %d, all others %d: %s (%d of the 256 positions fail)" % (
                                max(0, row["first_bad"]), row["v"], row["bg"], row["msg"], nb), fc, row, profile)
                        nontrivial.add(("ext", row["bg"], row["v"]))
                    groups[profile].append((case, lines))
                elif k == "acc":
                    stats["acc"] += 1
                    if out.get("k") == "crash":
                        col.add("C20:crash:accuracy", "harness died: %s" % out.get("why"), case, out, profile)
                        continue
                    if out["res"] in ("add_err", "add_panic"):
                        col.add("C20:conformance:add:%s" % out["res"], "add_element of a random element at offset %d: %s %s" % (
                            case["off"], out["res"], out["msg"]), case, out, profile)
                        continue
                    e = est_fields(out["est"])[0] if out["res"] == "ok" else 0
                    groups[profile].append((case, [tline("acc", n=case["n"], est=e, res="ok" if out["res"] == "ok" else "panic", ev=out.get("ev"))]))
                    if out["res"] == "ok":
                        acc_pairs.append((profile, case["n"], int(out["est"])))
                    if out.get("ev") and out["ev"][0] != out["ev"][1]:
                        col.add("C20:estimate_depends_on_history:random_elements",
                                "a sketch of %d random elements estimates %s, the fresh import of its export estimates %s" % (
                                    case["n"], out["ev"][0], out["ev"][1]), case, out, profile)
                    if case["n"] >= 100:
                        nontrivial.add(("acc", case["seed"], case["n"]))

        t0 = time.time()
        tl_lines = 0
        for profile in ("dev", "release"):
            badg, n = tlc_judge(groups[profile], wd, "tl_" + profile)
            tl_lines += n
            for case, clauses in badg:
                out = outs[profile][case["id"]][0]
                key = key_for_clauses(case, out, clauses)
                if case["k"] == "extremes":
                    continue          # reported above with the concrete failing state
                if (profile, case["id"]) in col.reported:
                    continue          # this case was already reported by the python side
                col.add(key, describe(case, out, clauses), case, out, profile)
        C.log("[C20] TLC judged %d trace lines in %.1fs" % (tl_lines, time.time() - t0))

        mc = mc_future.result()
    finally:
        pool.shutdown(wait=True)

    # where the two build profiles disagree on an estimate (recorded, not judged: C20 does not say which is right)
    differ, differ_sample = 0, None
    for c in est_cases + acc_cases:
        a, b = outs["dev"].get(c["id"]), outs["release"].get(c["id"])
        if a and b and (a[0].get("res"), a[0].get("est")) != (b[0].get("res"), b[0].get("est")):
            differ += 1
            differ_sample = differ_sample or dict(case=strip(c), dev=[a[0].get("res"), a[0].get("est")],
                                                  release=[b[0].get("res"), b[0].get("est")])
    for c in ext_cases:
        a, b = outs["dev"].get(c["id"]), outs["release"].get(c["id"])
        if a and b and a[0].get("k") == "row" and b[0].get("k") == "row":
            for ra, rb in zip(a, b):
                if (ra["ok"], ra["est_min"], ra["est_max"]) != (rb["ok"], rb["est_min"], rb["est_max"]):
                    differ += 1
                    differ_sample = differ_sample or dict(row_dev=ra, row_release=rb)
    V.notes["dev_release_estimates_differ"] = dict(cases_or_rows=differ, sample=differ_sample)
    worst = {}
    for profile, n, e in acc_pairs:
        if n:
            worst[n] = max(worst.get(n, 0.0), abs(e - n) / n)
    samples = [dict(kind="edge behaviour (abstract -> concrete)", abstract=cases[len(cases) // 2]["x"]["abstract"],
                    ops=cases[len(cases) // 2]["ops"], expect=cases[len(cases) // 2]["x"]["expect"]),
               dict(kind="accuracy pairs (profile, n, estimate)", pairs=acc_pairs[:12]),
               dict(kind="random register state", dist=est_cases[5]["x"]["dist"], hex=est_cases[5]["hex"],
                    observed=outs["dev"][est_cases[5]["id"]][0]),
               dict(kind="extremes row", row=outs["dev"][ext_cases[0]["id"]][1] if outs["dev"][ext_cases[0]["id"]][0].get("k") == "row" else None)]
    V.coverage = dict(
        states=sum(r["states"] for r in mc.values()), transitions=sum(r["transitions"] for r in mc.values()),
        traces_validated_against_impl=stats["beh"],
        samples=samples,
        evaluations=stats["beh"] + stats["est_states"] + stats["extreme_states"] + stats["acc"] + stats["pairs"],
        add_pairs_swept=stats["pairs"], pair_rhos=PAIR_RHOS, clear_steps=stats["clears"], reuse_after_clear_behaviours=stats["reuse"],
        estimate_vs_fresh_import_compared_after_steps=stats["steps"],
        distinct_nontrivial=len(nontrivial),
        rule="cases = behaviours replayed into the real Hll8 (edge cover of Hll.tla concretised + full-size law behaviours + "
             "walks + import/malformed pairs), imported register states estimated (random + every single-register extreme "
             "per background) and accuracy sets, over the dev and release profiles; distinct non-trivial = distinct concrete "
             "behaviours that left a non-zero register, distinct non-empty imported states, distinct (background, value) "
             "extremes rows, distinct accuracy sets with n >= 100, distinct (offset, bucket) pair sweeps; after every step of "
             "every behaviour the estimate of the live sketch is compared with that of a fresh import of its export",
        model={cfg: dict(states=r["states"], transitions=r["transitions"], wall_s=round(r["wall"], 1)) for cfg, r in mc.items()},
        edge_cover=dict(cfg=Z["gen"], behaviours_in_cover=total_edges, replayed=len(cases), constants=consts),
        steps_replayed=stats["steps"], law_behaviours=len(law_cases), walks=len(walk_cases),
        trace_lines_judged_by_tlc=tl_lines,
        offsets_covered=sorted(sw.offsets), rejected_offsets_covered=[str(o) for o in sorted(sw.rejected)],
        malformed=dict(cases=stats["malformed"], positions_covered=len(sw.badpos | msw.badpos),
                       nonhex_ascii_chars_covered=len(sw.badchr | msw.badchr), of=len(NONHEX),
                       lengths=sorted(sw.lens | msw.lens)),
        index_maps=len(sw.imaps), value_maps=len(sw.vmaps),
        imported_states_estimated=stats["est_states"], single_register_extremes=stats["extreme_states"],
        backgrounds=Z["backgrounds"], accuracy_sets=stats["acc"],
        worst_relative_error_by_n={str(k): round(v, 4) for k, v in sorted(worst.items())},
        violation_counts=col.count,
        exhaustive=False,
    )
    V.assumptions = ["TLC explores Hll.tla exhaustively for the small instances only (M = 3, values 0..3); at full size the laws "
                     "are tested on seeded samples and walks are trace-validated",
                     "floating point is not modelled: the accuracy clause is a statistical envelope stated in HllDefs.tla",
                     "registers are observable only through to_hex_string(); the two-hex-digits-per-register, high nibble "
                     "first form is taken as the meaning of 'hex export'",
                     "a returned count >= 2^53 is treated as the saturated cast of a non-finite estimate",
                     "TLC and the rand crate (element generation in the harness) are trusted"]
    C.log("[C20] total %.1fs" % (time.time() - t_start))
    return V.finish()


def run_replay(prop, path, bins, wd, V):
    rp = json.load(open(path))["replay"]
    case = rp["case"]
    case.setdefault("id", 0)
    seen = 0
    for profile in ([rp["profile"]] + [p for p in ("dev", "release") if p != rp["profile"]]):
        outs = run_cases(bins[profile], [case], wd, "replay_" + profile)
        rs = outs[case["id"]]
        out = rs[0]
        print("  [%s] %s" % (profile, json.dumps(out)[:600]))
        bad = []
        groups = []
        if case["k"] == "beh":
            bad = judge_beh(case, out)
            if out.get("k") != "crash" and case["x"].get("src") in ("walk", "edge") and all(o.get("rec", True) for o in case["ops"]):
                groups.append((case, trace_of_beh(case, out)))
        elif case["k"] == "pairs":
            bad = judge_pairs(case, out)
        elif case["k"] == "est":
            bad = judge_est(case, out)
            if out.get("k") != "crash":
                groups.append((case, trace_of_est(case, out)))
        elif case["k"] == "acc" and out.get("k") != "crash":
            if out["res"] in ("add_err", "add_panic"):
                bad.append(("C20:conformance:add:%s" % out["res"], out["msg"]))
            else:
                e = est_fields(out["est"])[0] if out["res"] == "ok" else 0
                groups.append((case, [tline("acc", n=case["n"], est=e, res="ok" if out["res"] == "ok" else "panic", ev=out.get("ev"))]))
                if out.get("ev") and out["ev"][0] != out["ev"][1]:
                    bad.append(("C20:estimate_depends_on_history:random_elements", "live %s vs fresh import %s" % tuple(out["ev"])))
                print("  [%s] n = %d, estimate = %s" % (profile, case["n"], out["est"]))
        badg, n = tlc_judge(groups, wd, "replay_" + profile)
        seen += n
        for _, clauses in badg:
            key = key_for_clauses(case, out, clauses)
            if not any(k == key for k, _ in bad):
                bad.append((key, describe(case, out, clauses)))
        for key, what in bad:
            V.violation(key, "[%s profile] replayed: %s" % (profile, what), dict(kind="case", profile=profile, case=case, observed=out))
    V.coverage = dict(states=max(1, seen), transitions=max(1, seen), traces_validated_against_impl=1, samples=[strip(case)],
                      evaluations=2, distinct_nontrivial=2, rule="replay of one recorded case in the dev and release profiles")
    return V.finish()
