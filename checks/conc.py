"""C14 - concurrent stores serialise; concurrent readers see only whole committed states.

  design level : TLC model-checks PocketStoreSteps.tla with 3 threads (ReaderInv, OneWinner, CommitAtomic, DurableInv).
  code level   : the edge cover of that model (one schedule per transition: a sequence of [thread, yield point]) is
                 executed against the real Store by parking every worker thread at every yield point; plus
                 free-running multi-core stress.  For every case the harness computes the implementation's own
                 sequential transition table; TLC (TraceLin.tla) decides whether the recorded concurrent history is
                 linearizable with respect to it (results of every call, answers of every reader, final state).
"""
import concurrent.futures as cf
import json
import os
import random
import re
import subprocess
import sys
import time

sys.path.insert(0, os.path.join(os.path.dirname(os.path.abspath(__file__)), "..", "lib"))
import common as C
import storelib as S
import filters as F

RE_EDGE = re.compile(r'^<<"EDGE", "(.*)">>$')
MENUS = ["same", "rm", "two"]


def gen_schedules(menu, wd):
    outp = os.path.join(wd, "sched_%s.out" % menu)
    rc, _ = C.run_tlc("MC_Steps.tla", "Gen_Steps_%s.cfg" % menu, env={}, workers=1, timeout=600, heap="3g", out_path=outp)
    scheds, ok = [], False
    st = 0
    for line in open(outp):
        line = line.rstrip("\n")
        m = RE_EDGE.match(line)
        if m:
            sc = json.loads(m.group(1).replace('\\"', '"').replace("\\\\", "\\"))
            sc = [x for x in sc if x["t"] != 0]
            if sc:
                scheds.append(sc)
        elif "No error has been found" in line:
            ok = True
        else:
            mm = C.RE_STATES.search(line)
            if mm:
                st = int(mm.group(2))
    os.remove(outp)
    if not ok:
        raise C.ToolError("schedule generation failed for menu %s" % menu)
    # distinct schedules only
    seen, out = set(), []
    for sc in scheds:
        k = json.dumps(sc)
        if k not in seen:
            seen.add(k)
            out.append(sc)
    return out, st


def real_cases(menu, filters_index):
    """operation sets of the real store that a model menu steers (universe core)"""
    q = filters_index
    if menu == "same":
        return [
            dict(prefix=[], threads=[{"k": "store", "a": 1}, {"k": "store", "a": 1}, {"k": "get", "a": 1}]),
            dict(prefix=[], threads=[{"k": "store", "a": 3}, {"k": "store", "a": 3}, {"k": "query", "f": q["ids1_3"]}]),
            dict(prefix=[{"k": "store", "a": 5}], threads=[{"k": "store", "a": 6}, {"k": "store", "a": 6}, {"k": "query", "f": q["authorA"]}]),
            dict(prefix=[], threads=[{"k": "store", "a": 8}, {"k": "store", "a": 8}, {"k": "has", "a": 8}]),
        ]
    if menu == "rm":
        return [
            dict(prefix=[], threads=[{"k": "store", "a": 1}, {"k": "store", "a": 2}, {"k": "remove", "a": 1}]),
            dict(prefix=[{"k": "store", "a": 1}], threads=[{"k": "store", "a": 1}, {"k": "store", "a": 10}, {"k": "remove", "a": 1}]),
            dict(prefix=[{"k": "store", "a": 3}], threads=[{"k": "store", "a": 4}, {"k": "store", "a": 2}, {"k": "remove", "a": 3}]),
            # two removals of one event overlapping its re-submission (a removal that acts on what it looked up earlier)
            dict(prefix=[{"k": "store", "a": 1}], threads=[{"k": "remove", "a": 1}, {"k": "remove", "a": 1}, {"k": "store", "a": 1}]),
            dict(prefix=[{"k": "store", "a": 5}], threads=[{"k": "remove", "a": 5}, {"k": "store", "a": 6}, {"k": "store", "a": 5}]),
        ]
    return [
        dict(prefix=[], threads=[{"k": "store", "a": 1}, {"k": "store", "a": 2}, {"k": "query", "f": q["ids1_2"]}]),
        dict(prefix=[], threads=[{"k": "store", "a": 3}, {"k": "store", "a": 4}, {"k": "get", "a": 3}]),
        dict(prefix=[], threads=[{"k": "store", "a": 5}, {"k": "store", "a": 6}, {"k": "query", "f": q["authorA_k30000"]}]),
        dict(prefix=[], threads=[{"k": "store", "a": 1}, {"k": "store", "a": 10}, {"k": "query", "f": q["ids1_10"]}]),
        # two stores that are each newer than everything stored so far, watched through a time window between them
        dict(prefix=[], threads=[{"k": "store", "a": 1}, {"k": "store", "a": 2}, {"k": "query", "f": q["since11"]}]),
        dict(prefix=[{"k": "store", "a": 3}], threads=[{"k": "store", "a": 2}, {"k": "store", "a": 4}, {"k": "query", "f": q["since12"]}]),
        dict(prefix=[{"k": "store", "a": 7}], threads=[{"k": "store", "a": 12}, {"k": "store", "a": 5}, {"k": "query", "f": q["tag_t_x"]}]),
        # a deletion request racing with the foreign / own events it names (11 = B: own 2, foreign 1; 12, 13 = A: address x)
        dict(prefix=[], threads=[{"k": "store", "a": 1}, {"k": "store", "a": 11}, {"k": "get", "a": 1}]),
        dict(prefix=[{"k": "store", "a": 2}], threads=[{"k": "store", "a": 1}, {"k": "store", "a": 11}, {"k": "query", "f": q["ids1_2"]}]),
        dict(prefix=[], threads=[{"k": "store", "a": 5}, {"k": "store", "a": 12}, {"k": "get", "a": 5}]),
        # queries that walk several index ranges (authors, author-kind pairs, author-tag pairs) while both stores commit
        dict(prefix=[], threads=[{"k": "store", "a": 1}, {"k": "store", "a": 2}, {"k": "query", "f": q["authors12"]}]),
        dict(prefix=[], threads=[{"k": "store", "a": 1}, {"k": "store", "a": 2}, {"k": "query", "f": q["authors12_k1"]}]),
        dict(prefix=[], threads=[{"k": "store", "a": 1}, {"k": "store", "a": 2}, {"k": "query", "f": q["authors12_tx"]}]),
        dict(prefix=[], threads=[{"k": "store", "a": 1}, {"k": "store", "a": 9}, {"k": "query", "f": q["kinds_tx"]}]),
        # an ephemeral event (appended, never indexed; its length is not a multiple of 8) racing with ordinary stores
        dict(prefix=[], threads=[{"k": "store", "a": 1}, {"k": "store", "a": 8}, {"k": "get", "a": 1}]),
        dict(prefix=[{"k": "store", "a": 2}], threads=[{"k": "store", "a": 8}, {"k": "store", "a": 3}, {"k": "query", "f": q["ids1_3"]}]),
    ]


def stress_cases(rnd, n, rounds, q):
    u_n = 14
    cases = []
    for _ in range(n):
        kind = rnd.random()
        if kind < 0.3:
            e = rnd.randint(1, u_n)
            th = [{"k": "store", "a": e}] * 3 + [{"k": "get", "a": e}]
        elif kind < 0.6:
            a, b = rnd.choice([(3, 4), (5, 6), (1, 10), (2, 11), (5, 12), (5, 13)])
            th = [{"k": "store", "a": a}, {"k": "store", "a": b}, {"k": "store", "a": a}, {"k": "query", "f": rnd.choice(list(q.values()))}]
        else:
            th = [{"k": "store", "a": rnd.randint(1, u_n)}, {"k": "store", "a": rnd.randint(1, u_n)},
                  {"k": "remove", "a": rnd.randint(1, u_n)}, {"k": "query", "f": rnd.choice(list(q.values()))}]
        pre = [{"k": "store", "a": rnd.randint(1, u_n)} for _ in range(rnd.randint(0, 3))]
        cases.append(dict(prefix=pre, threads=list(th), mode="free", rounds=rounds, sched=[]))
    return cases


def run_concdrv(bindir, upath, cases, wd, fpath, shards):
    per = (len(cases) + shards - 1) // shards
    procs, files = [], []
    for s in range(shards):
        chunk = cases[s * per:(s + 1) * per]
        if not chunk:
            continue
        cp = os.path.join(wd, "cc%d.ndjson" % s)
        tp = os.path.join(wd, "ctr%d.ndjson" % s)
        with open(cp, "w") as f:
            for c in chunk:
                f.write(json.dumps(c) + "\n")
        cmd = [os.path.join(bindir, "concdrv"), "--universe", upath, "--cases", cp, "--out", tp, "--filters", fpath]
        procs.append((subprocess.Popen(cmd, stdout=subprocess.PIPE, stderr=subprocess.STDOUT), cp, tp, cmd))
        files.append(tp)
    lost = []
    for p, cp, tp, cmd in procs:
        why = None
        try:
            out, _ = p.communicate(timeout=1500)
            if p.returncode != 0:
                why = "exit %s" % p.returncode
        except subprocess.TimeoutExpired:
            p.kill()
            p.communicate()
            why = "timeout"
        if why:
            C.log("[concdrv] batch failed (%s); isolating" % why)
            keep = []
            for l in open(cp).read().splitlines():
                c1, t1 = cp + ".one", tp + ".one"
                open(c1, "w").write(l + "\n")
                c = list(cmd)
                c[c.index("--cases") + 1] = c1
                c[c.index("--out") + 1] = t1
                try:
                    pp = subprocess.run(c, stdout=subprocess.PIPE, stderr=subprocess.STDOUT, timeout=120)
                    good = pp.returncode == 0
                except subprocess.TimeoutExpired:
                    good = False
                if good:
                    keep.append(open(t1).read())
                else:
                    lost.append((json.loads(l), "timeout/hang" if not good else ""))
            open(tp, "w").write("".join(keep))
    return files, lost


def judge_file(tp):
    """returns list of rejected (case id, round, first unmatched line dict) for one trace file"""
    rejected = []
    lines = open(tp).read().splitlines()
    while lines:
        cur = tp + ".j"
        open(cur, "w").write("\n".join(lines) + "\n")
        rc, out = C.run_tlc("TraceLin.tla", "TraceLin.cfg", env={"TRACE": cur}, workers=1, timeout=1800, heap="3g",
                            deque=True, stack="1g")
        os.remove(cur)
        lin = C.tlc_json_lines(out, "LIN")
        if not lin or "Model checking completed" not in out:
            raise C.ToolError("TraceLin failed on %s:\n%s" % (tp, out[-2500:]))
        reached, n = lin[-1]["reached"], lin[-1]["len"]
        if reached >= n + 1:
            break
        # line `reached` (1-based) could not be consumed: it belongs to a rejected case
        bad = json.loads(lines[reached - 1])
        cid, rnd_ = bad["id"], bad["round"]
        block = [json.loads(x) for x in lines if json.loads(x)["id"] == cid and json.loads(x)["round"] == rnd_]
        rejected.append((cid, rnd_, bad, block))
        lines = [x for x in lines if not (json.loads(x)["id"] == cid and json.loads(x)["round"] == rnd_)]
    return rejected


def run_burst(bindir, profile, wd, tag, n, readers, gate=True, timeout=240, lookups=False):
    """one sustained single-writer / multi-reader run (burstdrv); returns dict(outcome=ok|hang|crash, bad=[...], summary)"""
    tp = os.path.join(wd, "burst_%s.ndjson" % tag)
    cmd = [os.path.join(bindir, "burstdrv"), "--n", str(n), "--readers", str(readers), "--out", tp, "--gate", "1" if gate else "0",
           "--lookups", "1" if lookups else "0"]
    try:
        p = subprocess.run(cmd, stdout=subprocess.PIPE, stderr=subprocess.STDOUT, text=True, timeout=timeout)
        rc = p.returncode
        out = p.stdout
    except subprocess.TimeoutExpired:
        rc, out = 3, ""
    res = dict(tag=tag, profile=profile, gate=gate, n=n, readers=readers, outcome="ok", bad=[], summary={}, lines=0, note="")
    if rc == 3:
        res["outcome"] = "hang"
        try:
            res["note"] = json.loads(open(tp).read().splitlines()[-1]).get("note", "")
            res["summary"] = dict(ungated_growth=json.loads(open(tp).read().splitlines()[-1]).get("ungated_growth", 0))
        except Exception:
            pass
        return res
    if rc != 0:
        res["outcome"] = "crash"
        res["note"] = "burstdrv ended with status %s" % rc
        return res
    try:
        res["summary"] = json.loads(out.strip().splitlines()[-1])
    except Exception:
        raise C.ToolError("burstdrv printed no summary: %s" % out[-500:])
    rc2, tout = C.run_tlc("TraceBurst.tla", "TraceBurst.cfg", env={"TRACE": tp}, workers=1, timeout=900, heap="3g", stack="1g")
    done = C.tlc_json_lines(tout, "BURST")
    if not done or "Model checking completed" not in tout:
        raise C.ToolError("TraceBurst failed on %s:\n%s" % (tp, tout[-2000:]))
    res["lines"] = done[-1]["n"]
    res["bad"] = C.tlc_json_lines(tout, "BAD")
    return res


def burst_self_test(wd, tag):
    """the judge is bound to the recorded fields: an accepted trace with one answer moved beyond the stores that had begun and
    one answer missing stores that had returned must be rejected at exactly those two lines (a tool error otherwise)"""
    tp = os.path.join(wd, "burst_%s.ndjson" % tag)
    ls = open(tp).read().splitlines()
    if len(ls) < 50:
        return
    i1, i2 = len(ls) // 3, 2 * len(ls) // 3
    r = json.loads(ls[i1])
    r["klo"], r["khi"] = r["hi"] + 5, r["hi"] + 9
    ls[i1] = json.dumps(r)
    r = json.loads(ls[i2])
    if r["lo"] < 4:
        return
    r["klo"], r["khi"] = 0, r["lo"] - 3
    ls[i2] = json.dumps(r)
    cp = os.path.join(wd, "burst_selftest.ndjson")
    open(cp, "w").write("\n".join(ls) + "\n")
    rc, out = C.run_tlc("TraceBurst.tla", "TraceBurst.cfg", env={"TRACE": cp}, workers=1, timeout=600, heap="3g", stack="1g")
    bad = {(b["l"], b["why"]) for b in C.tlc_json_lines(out, "BAD")}
    if bad != {(i1 + 1, "AnswerFromTheFuture"), (i2 + 1, "StaleAnswer")}:
        raise C.ToolError("TraceBurst self-test: corrupted lines %d / %d not rejected as expected: %s" % (i1 + 1, i2 + 1, sorted(bad)))


def burst_checks(V, tier, wd):
    """sustained stress judged by TraceBurst.tla (gated: see burstdrv.rs) + the ungated probe of the known growth race"""
    runs = []
    plan = [("dev", 600, 6), ("release", 4000, 6)] if tier == "quick" else [("dev", 2500, 6), ("dev", 1500, 12), ("release", 40000, 6), ("release", 20000, 14)]
    for i, (profile, n, readers) in enumerate(plan):
        bindir = C.build_harness(profile, bins=["burstdrv"])
        r = run_burst(bindir, profile, wd, "g%d" % i, n, readers, gate=True)
        runs.append(r)
        growth = "GrowthRace" if r["summary"].get("ungated_growth", 0) else "Burst"
        if r["outcome"] != "ok":
            V.violation("C14:%s:%s" % (growth, r["outcome"]),
                        "sustained stress (%s profile, 1 writer storing %d events, %d readers): %s - %s" % (profile, n, readers, r["outcome"], r["note"]),
                        dict(kind="burst", profile=profile, n=n, readers=readers, gate=True))
        seen = {}
        for b in r["bad"]:
            key = "C14:%s:%s:q%s" % (growth, b["why"], b["q"])
            seen[key] = seen.get(key, 0) + 1
            if seen[key] > 2:
                continue
            V.violation(key, "sustained stress (%s profile): reader %s, query type %s near event %s: %s - between %d and %d stores "
                        "had taken effect, the answer is exact for prefixes %d..%d only, the reader was already at %d; %s" % (
                            profile, b["t"], b["q"], b["j"], b["why"], b["lo"], b["hi"], b["klo"], b["khi"], b["at"], b["note"]),
                        dict(kind="burst", profile=profile, n=n, readers=readers, gate=True, observation=b))
        if i == 0 and r["outcome"] == "ok" and not r["bad"]:
            burst_self_test(wd, "g0")
        C.log("[C14] burst %s: %d stores, %d readers, %s observations (%d judged by TraceBurst), outcome %s, %d unexplained" % (
            profile, n, readers, r["summary"].get("observations", "?"), r["lines"], r["outcome"], len(r["bad"])))
    # growth steps with readers inside, dev profile (2048-byte chunks), no gate:
    # (1) readers that only look events up by id and never read the bytes: the run must complete (the reader / resize
    #     deadlock F-C14-2 was repaired in f07935a; a hang here is a violation again)
    # (2) readers that read what they are handed: the mapping moves under them - known finding F-C14-3 (crash / garbage)
    probes = []
    bindir = C.build_harness("dev", bins=["burstdrv"])
    for i in range(10 if tier == "quick" else 40):
        r = run_burst(bindir, "dev", wd, "l%d" % i, 400, 6, gate=False, timeout=120, lookups=True)
        what = r["outcome"] if r["outcome"] != "ok" else ("garbage" if r["bad"] else "ok")
        probes.append("lookups:" + what)
        if what == "hang":
            V.violation("C14:GrowthDeadlock:hang", "readers looking events up by id while a store grows the event map (dev profile, no gate): "
                        "no thread makes progress any more - %s" % r["note"], dict(kind="burst", profile="dev", n=400, readers=6, gate=False, lookups=True))
        elif what != "ok":
            V.violation("C14:GrowthRace:%s" % what, "readers looking events up by id while a store grows the event map (dev profile, no gate): %s %s" %
                        (what, r["note"]), dict(kind="burst", profile="dev", n=400, readers=6, gate=False, lookups=True))
    for i in range(6 if tier == "quick" else 12):
        if tier == "quick" and any(x in ("reads:crash", "reads:garbage") for x in probes):
            break           # shown once; the thorough tier counts how often
        r = run_burst(bindir, "dev", wd, "u%d" % i, 400, 6, gate=False, timeout=120)
        what = r["outcome"] if r["outcome"] != "ok" else ("garbage" if r["bad"] else "ok")
        probes.append("reads:" + what)
        if what == "hang":
            V.violation("C14:GrowthDeadlock:hang", "readers running while a store grows the event map (dev profile, no gate): no thread makes "
                        "progress any more - %s" % r["note"], dict(kind="burst", profile="dev", n=400, readers=6, gate=False))
        elif what != "ok":
            V.violation("C14:GrowthRace:%s" % what,
                        "readers reading event bytes while a store grows the event map (dev profile, no gate): %s %s" % (what, r["note"]),
                        dict(kind="burst", profile="dev", n=400, readers=6, gate=False))
    C.log("[C14] growth probes (ungated): %s" % probes)
    return runs, probes


def run(prop, tier, seed, replay=None):
    V = C.Verdict(prop, tier, seed, "model_checking")
    rnd = random.Random("C14-%d" % seed)
    bindir = C.build_harness("release", bins=["concdrv"])
    wd = C.workdir("C14_%s" % tier)
    upath = S.universe_path("core")
    u = json.load(open(upath))
    s_t = u["strs"].index(b"t".hex())
    s_x = u["strs"].index(b"x".hex())
    flist = [F.flt(ids=[1, 3]), F.flt(ids=[1, 2]), F.flt(ids=[1, 10]), F.flt(authors=[1]), F.flt(authors=[1], kinds=[30000]),
             F.flt(tags=[(s_t, [s_x])]), F.flt(ids=[1, 2, 3, 4, 5, 6]), F.flt(authors=[1, 2], limit=3),
             F.flt(authors=[1, 2]), F.flt(authors=[1, 2], kinds=[1]), F.flt(authors=[1, 2], tags=[(s_t, [s_x])]),
             F.flt(kinds=[1, 1059], tags=[(s_t, [s_x]), (u["strs"].index(b"p".hex()), [u["pk_sidx"][0]])]),
             # time windows between the events' created_at values (10 11 12 13 15 20 30 31 32)
             F.flt(since=11), F.flt(since=12), F.flt(since=16), F.flt(since=21), F.flt(since=31), F.flt(until=10),
             F.flt(since=11, until=20, limit=2)]
    q = dict(ids1_3=0, ids1_2=1, ids1_10=2, authorA=3, authorA_k30000=4, tag_t_x=5, ids_many=6, authors_limit=7,
             authors12=8, authors12_k1=9, authors12_tx=10, kinds_tx=11, since11=12, since12=13, since21=15)
    fpath = os.path.join(wd, "filters.json")
    json.dump(flist, open(fpath, "w"))

    if replay:
        rp = json.load(open(replay))["replay"]
        cases = [dict(rp["case"], id=0)]
        mst = mtr = 1
        nsched = {}
    else:
        mst = mtr = 0
        for c in ["same", "rm", "crash"]:
            r = C.model_check("MC_Steps.tla", "MC_Steps_%s.cfg" % c, {}, workers=4, timeout=600, heap="3g")
            mst += r["states"]
            mtr += r["transitions"]
        C.log("[mc] PocketStoreSteps: %d states, %d transitions" % (mst, mtr))
        cases, nsched = [], {}
        per_case = 60 if tier == "quick" else None
        for menu in MENUS:
            scheds, _ = gen_schedules(menu, wd)
            nsched[menu] = len(scheds)
            for rc in real_cases(menu, q):
                ss = scheds if per_case is None or per_case >= len(scheds) else rnd.sample(scheds, per_case)
                for sc in ss:
                    cases.append(dict(prefix=rc["prefix"], threads=rc["threads"], sched=sc, mode="sched", rounds=1, menu=menu))
                # finer than the model (drift-tolerant): (1) every operation paused at each of its yield points while the
                # others run to completion in every order (one pre-emption, exhaustive over pause points); (2) seeded
                # sequences of single park-to-park segments ("next")
                n = len(rc["threads"])
                import itertools
                maxk = 16 if tier == "quick" else 30
                for t in range(1, n + 1):
                    others = [o for o in range(1, n + 1) if o != t]
                    for k in range(1, maxk + 1):
                        for order in itertools.permutations(others):
                            for upto in range(1, len(order) + 1):
                                sc = [dict(t=t, p="next") for _ in range(k)] + [dict(t=o, p="end") for o in order[:upto]] + [dict(t=t, p="end")]
                                cases.append(dict(prefix=rc["prefix"], threads=rc["threads"], sched=sc, mode="sched", rounds=1,
                                                  menu=menu + "-pause"))
                for _ in range(10 if tier == "quick" else 300):
                    first = rnd.randint(1, n)
                    sc = [dict(t=first, p="next") for _ in range(rnd.randint(0, 14))]
                    sc += [dict(t=rnd.randint(1, n), p="next") for _ in range(rnd.randint(5, 40))]
                    cases.append(dict(prefix=rc["prefix"], threads=rc["threads"], sched=sc, mode="sched", rounds=1, menu=menu + "-fine"))
        cases += stress_cases(rnd, 12 if tier == "quick" else 60, 150 if tier == "quick" else 1500, q)
        rnd.shuffle(cases)
        for i, c in enumerate(cases):
            c["id"] = i
    t0 = time.time()
    files, lost = run_concdrv(bindir, upath, cases, wd, fpath, shards=min(12, C.NCPU))
    if not replay:
        # a second universe: one store call that updates the indexes many times (a deletion request with 132 targets, the
        # first and the last one stored) watched by a query that names the first and the last target
        import itertools
        u2path = S.universe_path("c14b")
        wd2 = os.path.join(wd, "c14b")
        os.makedirs(wd2, exist_ok=True)
        f2 = os.path.join(wd2, "filters.json")
        json.dump([F.flt(ids=[1, 2]), F.flt(authors=[2]), F.flt(ids=[2, 1, 3])], open(f2, "w"))
        ops2 = [dict(prefix=[{"k": "store", "a": 1}, {"k": "store", "a": 2}],
                     threads=[{"k": "store", "a": 3}, {"k": "query", "f": 0}, {"k": "query", "f": 2}]),
                dict(prefix=[{"k": "store", "a": 1}, {"k": "store", "a": 2}],
                     threads=[{"k": "store", "a": 3}, {"k": "store", "a": 4}, {"k": "query", "f": 1}])]
        cases2 = []
        for rc in ops2:
            n = len(rc["threads"])
            # the request passes one yield point per target: pause it after every one of them
            for k in range(1, 161, 1 if tier == "thorough" else 2):
                for order in itertools.permutations([2, 3]):
                    sc = [dict(t=1, p="next") for _ in range(k)] + [dict(t=o, p="end") for o in order] + [dict(t=1, p="end")]
                    cases2.append(dict(prefix=rc["prefix"], threads=rc["threads"], sched=sc, mode="sched", rounds=1, menu="bigreq-pause"))
            for _ in range(20 if tier == "quick" else 300):
                sc = [dict(t=1, p="next") for _ in range(rnd.randint(0, 150))] + [dict(t=rnd.randint(1, n), p="next") for _ in range(rnd.randint(5, 60))]
                cases2.append(dict(prefix=rc["prefix"], threads=rc["threads"], sched=sc, mode="sched", rounds=1, menu="bigreq-fine"))
            cases2.append(dict(prefix=rc["prefix"], threads=rc["threads"], mode="free", rounds=300 if tier == "quick" else 3000, sched=[]))
        for i, c in enumerate(cases2):
            c["id"] = len(cases) + i
        fl2, lost2 = run_concdrv(bindir, u2path, cases2, wd2, f2, shards=min(6, C.NCPU))
        files += fl2
        lost += lost2
        cases = cases + cases2
    t1 = time.time()
    rejected = []
    with cf.ThreadPoolExecutor(max_workers=min(8, C.NCPU)) as ex:
        for r in ex.map(judge_file, files):
            rejected += r
    nlines = sum(sum(1 for _ in open(f)) for f in files)
    nhist = sum(1 for f in files for l in open(f) if '"e":"case"' in l)
    C.log("[C14] %d cases, %d concurrent histories, %d trace lines, run %.1fs, judge %.1fs, %d rejected" %
          (len(cases), nhist, nlines, t1 - t0, time.time() - t1, len(rejected)))
    byid = {c["id"]: c for c in cases}
    seen = {}
    for cid, rnd_, badline, block in rejected:
        c = byid[cid]
        ops = "|".join("%s%s" % (o["k"], o.get("a", o.get("f", ""))) for o in c["threads"])
        key = "C14:notlinearizable:%s:%s" % (c.get("mode", "sched"), "+".join(sorted({o["k"] for o in c["threads"]})))
        seen[key] = seen.get(key, 0) + 1
        if seen[key] > 3:
            continue
        hist = [[x["e"], x["t"], x["res"]] for x in block if x["e"] in ("call", "ret", "final")]
        what = "concurrent history of threads [%s] after prefix %s is not linearizable w.r.t. the store's own sequential behaviour: %s (first unexplained event: %s)" % (
            ops, [[o["k"], o["a"]] for o in c["prefix"]], hist, [badline["e"], badline["t"], badline["res"]])
        V.violation(key, what, dict(kind="schedule", case=dict(prefix=c["prefix"], threads=c["threads"], sched=c.get("sched", []),
                                                              mode=c.get("mode", "sched"), rounds=c.get("rounds", 1)),
                                    history=hist))
    for c, why in lost:
        V.violation("C14:died:%s" % c.get("mode"), "the process died or hung running threads %s" % c["threads"],
                    dict(kind="schedule", case=c, history=[]))
    bursts, probes = ([], []) if replay else burst_checks(V, tier, wd)
    distinct = len({json.dumps([c["threads"], c.get("sched")]) for c in cases})
    V.coverage = dict(
        states=mst, transitions=mtr, traces_validated_against_impl=nhist,
        samples=[dict(threads=c["threads"], sched=[[x["t"], x["p"]] for x in c.get("sched", [])][:25]) for c in cases[:3]],
        evaluations=nhist, distinct_nontrivial=distinct,
        rule="cases = concurrent histories of 3-4 threads on one Store: (a) every distinct schedule of the edge cover of "
             "PocketStoreSteps.tla (3 threads) applied to real operation sets, executed by parking workers at yield points "
             "(quick tier: 60 seed-sampled schedules per operation set); (b) free-running rounds started at a barrier. "
             "distinct = distinct (operation set, schedule)",
        schedules_in_cover=nsched, trace_lines=nlines, lost_batches=len(lost),
        sustained_stress=[dict(profile=r["profile"], stores=r["n"], readers=r["readers"], gate=r["gate"], outcome=r["outcome"],
                               observations=r["summary"].get("observations"), judged_by_TraceBurst=r["lines"],
                               gated_stores=r["summary"].get("gated_stores"), unexplained=len(r["bad"])) for r in bursts],
        growth_race_probe=probes,
    )
    V.assumptions = ["linearizability is judged against the implementation's own sequential transition table (every order of every "
                     "subset of the case's operations, each on a fresh store)",
                     "recorded intervals over-approximate real ones (call stamp before, return stamp after the call)",
                     "release profile (4 MiB map chunks) so that no file growth happens: reference stability is C15's business",
                     "the hardware memory model is not modelled"]
    return V.finish()
