"""C19 - constructors of events, tags and filters yield faithful values or an error, never truncation.

  1. TLC enumerates part-list SHAPES x output-buffer lengths from spec/NostrLayout.tla (one initial
     state per (shape, buffer length)), model-checks the layout arithmetic's own laws (`Sanity`:
     every Ok case fits every length field, every Err is necessary, ...) and prints one CASE line per
     state with the expected outcome class of the constructor ("ok" / "err") and the reason.
  2. harness/src/bin/layoutdrv.rs concretises every shape (deterministic filler), calls every
     constructor that applies (Tags::from_parts, OwnedTags::new, Event::from_parts, OwnedEvent::new,
     OwnedEvent::sign_new, Filter::from_parts, OwnedFilter::new and the three from_json parsers on the
     JSON rendering of the same parts) under catch_unwind, in both build profiles, and on Ok runs every
     accessor / iterator against the parts.
  3. Verdict (the property: "either fails or returns a value whose accessors reproduce exactly the
     parts"; "too large ... refused rather than silently truncated"; "a too-small output buffer yields
     an error, never a panic or a partial value"):
        panic anywhere                                   -> violation
        Ok where the spec says "err"                     -> violation (truncated / partial value)
        Ok whose accessors do not reproduce the parts    -> violation
        Err where the spec says "ok"                     -> allowed by the property text ("either fails
                                                            or ..."); counted in the evidence only
"""
import json
import os
import re
import shutil
import subprocess
import sys
import time

sys.path.insert(0, os.path.join(os.path.dirname(os.path.abspath(__file__)), "..", "lib"))
import common as C

RE_CASE = re.compile(r'^<<"CASE", "(.*)">>$')
NSHARD = 4
SHAPE_KEYS = ("kind", "tags", "content", "nids", "nauthors", "nkinds", "opt", "size", "tsize", "fits", "tagsfit", "why", "owned", "kprobes")


def generate(tier, wd):
    cfg = "Gen_NostrLayout_%s.cfg" % tier
    out = os.path.join(wd, "gen.out")
    t0 = time.time()
    rc, _ = C.run_tlc("NostrLayout.tla", cfg, workers=1, timeout=300, heap="4g", out_path=out,
                      metadir=os.path.join(wd, "md_gen"))
    shapes, order, n, ok, tail = {}, [], 0, False, []
    nontrivial = 0
    with open(out, errors="replace") as f:
        for line in f:
            m = RE_CASE.match(line.rstrip("\n"))
            if m:
                d = json.loads(m.group(1).replace('\\"', '"').replace("\\\\", "\\"))
                key = json.dumps([d[k] for k in SHAPE_KEYS], sort_keys=True)
                s = shapes.get(key)
                if s is None:
                    s = {k: d[k] for k in SHAPE_KEYS}
                    s.update(bufs=[], exp=[], whyat=[])
                    shapes[key] = s
                    order.append(key)
                s["bufs"].append(d["buf"])
                s["exp"].append(d["exp"])
                s["whyat"].append(d["whyat"])
                n += 1
                # non-trivial: an Err is expected, or the value sits within 16 bytes / entries of a u16 boundary
                if d["exp"] == "err" or d["tsize"] >= 65519 or max(d["nids"], d["nauthors"], d["nkinds"]) >= 65519:
                    nontrivial += 1
            else:
                if "Model checking completed. No error has been found." in line:
                    ok = True
                tail.append(line)
                if len(tail) > 60:
                    tail.pop(0)
    text = "".join(tail)
    gen, dist = C.tlc_counts(text)
    if not ok or rc != 0:
        raise C.ToolError("TLC on NostrLayout.tla/%s did not pass (the spec's own laws must hold):\n%s" % (cfg, text[-3000:]))
    if n != dist or n == 0:
        raise C.ToolError("CASE lines (%d) != distinct states (%d): broken TLC output" % (n, dist))
    cases = []
    for i, key in enumerate(order):
        s = shapes[key]
        s["i"] = i
        cases.append(s)
    C.log("[tlc] NostrLayout %s: %d (shape, buffer) states, %d shapes in %.1fs" % (tier, dist, len(cases), time.time() - t0))
    os.remove(out)
    return cases, dist, gen, nontrivial


def cost(c):
    return (c["size"] // 1000 + 1) * (len(c["bufs"]) + 2)


def write_shards(cases, wd, nshard=NSHARD):
    """greedy balance by estimated cost"""
    bins = [[0, []] for _ in range(nshard)]
    for c in sorted(cases, key=cost, reverse=True):
        b = min(bins, key=lambda b: b[0])
        b[0] += cost(c)
        b[1].append(c)
    files = []
    for k, (_, cs) in enumerate(bins):
        fp = os.path.join(wd, "cases_%d.ndjson" % k)
        with open(fp, "w") as f:
            for c in sorted(cs, key=lambda c: c["i"]):
                f.write(json.dumps(c) + "\n")
        files.append(fp)
    return files


def run_one(binpath, fp, out, extra=(), timeout=900):
    if os.path.exists(out):
        os.remove(out)
    try:
        p = subprocess.run([binpath, "--cases", fp, "--out", out] + list(extra), stdout=subprocess.PIPE,
                           stderr=subprocess.STDOUT, text=True, timeout=timeout)
        return p.returncode, p.stdout
    except subprocess.TimeoutExpired:
        return -9, "timeout"


def isolate(binpath, lines, wd, rc0, depth=0):
    """a crashed / hung batch is bisected down to the single shape"""
    if not lines:
        return [], []
    if len(lines) == 1:
        return [], [dict(case=json.loads(lines[0]), rc=rc0)]
    sums, crashes = [], []
    mid = len(lines) // 2
    for part in (lines[:mid], lines[mid:]):
        fp = os.path.join(wd, "iso_%d_%d.ndjson" % (depth, os.getpid()))
        open(fp, "w").write("\n".join(part) + "\n")
        rc, _ = run_one(binpath, fp, fp + ".out", timeout=300)
        if rc == 0 and os.path.exists(fp + ".out"):
            sums.append(json.load(open(fp + ".out")))
        else:
            s, c = isolate(binpath, part, wd, rc, depth + 1)
            sums += s
            crashes += c
    return sums, crashes


def run_profiles(bindirs, files, wd, timeout=900):
    """all shards of all profiles in parallel (<= 8 processes, single-threaded each)"""
    procs = []
    for prof, bd in bindirs.items():
        for k, fp in enumerate(files):
            out = os.path.join(wd, "obs_%s_%d.json" % (prof, k))
            if os.path.exists(out):
                os.remove(out)
            p = subprocess.Popen([os.path.join(bd, "layoutdrv"), "--cases", fp, "--out", out],
                                 stdout=subprocess.PIPE, stderr=subprocess.STDOUT, text=True)
            procs.append((prof, fp, out, p))
    res = {prof: ([], []) for prof in bindirs}
    deadline = time.time() + timeout
    for prof, fp, out, p in procs:
        try:
            p.communicate(timeout=max(1, deadline - time.time()))
            rc = p.returncode
        except subprocess.TimeoutExpired:
            p.kill()
            p.communicate()
            rc = -9
        if rc == 0 and os.path.exists(out):
            res[prof][0].append(json.load(open(out)))
        else:
            C.log("[layoutdrv] %s shard %s ended with rc=%s: isolating the shape" % (prof, os.path.basename(fp), rc))
            s, c = isolate(os.path.join(bindirs[prof], "layoutdrv"), open(fp).read().splitlines(), wd, rc)
            res[prof][0].extend(s)
            res[prof][1].extend(c)
    return res


def shape_text(c):
    def tg(g):
        strs = ",".join(("%dx" % s["rep"] if s["rep"] != 1 else "") + "%dB" % s["len"] for s in g["strs"])
        return ("%dx" % g["rep"] if g["rep"] != 1 else "") + "[" + strs + "]"
    t = "tags=[" + ",".join(tg(g) for g in c["tags"]) + "] (section %d bytes)" % c["tsize"]
    if c["kind"] == "event":
        t += " content=%dB" % c["content"]
    if c["kind"] == "filter":
        t += " ids=%d authors=%d kinds=%d opt=%d" % (c["nids"], c["nauthors"], c["nkinds"], c["opt"])
    return "%s: %s, needs %d bytes" % (c["kind"], t, c["size"])


def judge(V, cases_by_i, obs_list, crashes, prof, stats):
    per_key = {}
    for o in obs_list:
        exp, got, why, ctor = o["exp"], o["got"], o["whyat"], o["ctor"]
        cls = got.split(":")[0]
        if ctor.endswith("output_size_needed"):       # beyond C19 (DESIGN 11.8): printed, counted, never a violation
            k = "%s:%s" % (ctor, cls)
            if k not in stats["size_fn_divergences"]:
                print("DIVERGENCE (beyond C19) %s (%s build): %s. Input %s" % (ctor, prof, got, shape_text(cases_by_i[o["i"]])))
            stats["size_fn_divergences"][k] = stats["size_fn_divergences"].get(k, 0) + 1
            continue
        if cls == "panic":
            key = "C19:panic:%s:%s" % (why if why != "none" else "representable_input", ctor)
            what = "panicked"
        elif exp == "err" and cls in ("ok", "bad"):
            key = "C19:%s:%s:%s" % ("partial_value" if why == "buffer_too_small" else "truncated", why, ctor)
            what = "returned Ok" + (" and its accessors reproduce the parts?!" if cls == "ok" else " (%s)" % got[4:])
        elif exp == "ok" and cls == "bad":
            key = "C19:unfaithful:representable_input:%s" % ctor
            what = "returned Ok but %s" % got[4:]
        elif exp == "ok" and cls == "err":
            k = "%s:%s:%s" % (prof, ctor, got)
            stats["err_on_representable"][k] = stats["err_on_representable"].get(k, 0) + 1
            continue
        else:
            raise C.ToolError("unexpected observation %r" % o)
        per_key[key] = per_key.get(key, 0) + 1
        stats["violating_calls"] += 1
        if per_key[key] > 2:
            continue
        c = cases_by_i[o["i"]]
        buf = "output buffer of %d bytes" % o["buf"] if o["buf"] >= 0 else "own buffer"
        V.violation(key, "%s (%s build, %s) %s; NostrLayout expects %s%s. Input %s" %
                    (ctor, prof, buf, what, exp.upper() if exp == "err" else "Ok", "" if why == "none" else " (" + why + ")", shape_text(c)),
                    dict(kind="layout_case", profile=prof, ctor=ctor, buf=o["buf"], expected=exp, why=why, observed=got,
                         case=dict(c, bufs=[o["buf"]] if o["buf"] >= 0 else c["bufs"][-1:],
                                   exp=[exp] if o["buf"] >= 0 else c["exp"][-1:], whyat=[why] if o["buf"] >= 0 else c["whyat"][-1:])))
    for cr in crashes:
        V.violation("C19:crash:harness_process_died", "layoutdrv (%s) died (rc=%s) on %s" % (prof, cr["rc"], shape_text(cr["case"])),
                    dict(kind="layout_case", profile=prof, ctor="*", buf=-1, case=cr["case"]))
        stats["violating_calls"] += 1
    stats["keys"].update({k: stats["keys"].get(k, 0) + v for k, v in per_key.items()})


def run(prop, tier, seed, replay=None):
    V = C.Verdict(prop, tier, seed, "model_checking")
    bindirs = {p: C.build_harness(p, bins=["layoutdrv"]) for p in ("dev", "release")}
    wd = C.workdir("%s_%s" % (prop, tier))
    if replay:
        return run_replay(prop, replay, bindirs, wd, V)
    cases, states, transitions, nontrivial = generate(tier, wd)
    by_i = {c["i"]: c for c in cases}
    files = write_shards(cases, wd)
    t0 = time.time()
    res = run_profiles(bindirs, files, wd)
    stats = dict(err_on_representable={}, violating_calls=0, keys={}, size_fn_divergences={})
    calls, counts, executed = 0, {}, 0
    for prof, (sums, crashes) in res.items():
        shapes_done = sum(s["shapes"] for s in sums) + len(crashes)
        if shapes_done != len(cases):
            raise C.ToolError("layoutdrv (%s) processed %d of %d shapes" % (prof, shapes_done, len(cases)))
        obs = [o for s in sums for o in s["obs"]]
        judge(V, by_i, sorted(obs, key=lambda o: (o["i"], o["ctor"], o["buf"])), crashes, prof, stats)
        calls += sum(s["calls"] for s in sums)
        executed += states
        cc = {}
        for s in sums:
            for k, v in s["counts"].items():
                cc[k] = cc.get(k, 0) + v
        counts[prof] = cc
    # replay files are written for the first few violations only: interleave the constructors
    by_ctor = {}
    for v in V.violations:
        by_ctor.setdefault(v["replay"].get("ctor", "*"), []).append(v)
    V.violations = [q[k] for k in range(max([len(q) for q in by_ctor.values()] or [0])) for q in by_ctor.values() if k < len(q)]
    C.log("[layoutdrv] %d shapes x %d profiles, %d constructor calls in %.1fs; %d calls violate C19 (%d classes)" %
          (len(cases), len(res), calls, time.time() - t0, stats["violating_calls"], len(stats["keys"])))
    samples = [dict(shape=shape_text(c), bufs=c["bufs"][:6], exp=c["exp"][:6]) for c in (cases[0], cases[len(cases) // 3], cases[-1])]
    V.coverage = dict(
        states=states, transitions=transitions,
        traces_validated_against_impl=executed,
        samples=samples, evaluations=calls, distinct_nontrivial=nontrivial,
        shapes=len(cases),
        rule="cases = (part-list shape, output buffer length) states of NostrLayout.tla (TLC's 'transitions' is the number of "
             "generated initial states, the graph has no edges), each executed in both build profiles on every constructor "
             "that applies; evaluations = constructor calls (each followed by the accessor checks when Ok); non-trivial = an "
             "Err is expected or a size / count lies within 16 of the u16 limit",
        outcome_counts_ctor_expected_observed=counts,
        violation_classes=stats["keys"],
        size_calculator_divergences_beyond_C19=stats["size_fn_divergences"],
        err_on_representable_input_allowed_by_property=stats["err_on_representable"],
        profiles=sorted(res.keys()), exhaustive=True,
        model=dict(module="NostrLayout.tla", cfg="Gen_NostrLayout_%s.cfg" % tier, invariants=["Sanity", "Emit"]),
    )
    shutil.rmtree(wd, ignore_errors=True)      # case shards are large; replay files carry the failing cases
    V.assumptions = ["shapes are concretised with ASCII filler bytes: escaping and UTF-8 are C01/C08's business",
                     "event / filter constructors take a Tags value: it is laid out by hand (vh::build_tags), so sizes over 65535 "
                     "reach them through the JSON parsers only",
                     "content and event lengths are u32 fields: lengths over 2^32 are not explored",
                     "TLC is trusted"]
    return V.finish()


def run_replay(prop, path, bindirs, wd, V):
    rp = json.load(open(path))["replay"]
    prof = rp.get("profile", "dev")
    c = rp["case"]
    c.setdefault("i", 0)
    fp = os.path.join(wd, "replay.ndjson")
    open(fp, "w").write(json.dumps(c) + "\n")
    out = os.path.join(wd, "replay.out")
    rc, txt = run_one(os.path.join(bindirs[prof], "layoutdrv"), fp, out, extra=["--verbose"], timeout=300)
    lines = [l for l in txt.splitlines() if rp.get("ctor", "*") in ("*", "") or rp["ctor"] in l]
    print("\n".join(lines[:60]))
    stats = dict(err_on_representable={}, violating_calls=0, keys={}, size_fn_divergences={})
    calls = 0
    if rc != 0 or not os.path.exists(out):
        judge(V, {c["i"]: c}, [], [dict(case=c, rc=rc)], prof, stats)
    else:
        s = json.load(open(out))
        calls = s["calls"]
        obs = [o for o in s["obs"] if rp.get("ctor", "*") in ("*", "") or o["ctor"] == rp["ctor"]]
        judge(V, {c["i"]: c}, obs, [], prof, stats)
    V.coverage = dict(states=len(c["bufs"]), transitions=len(c["bufs"]), traces_validated_against_impl=1, samples=[shape_text(c)],
                      evaluations=max(1, calls), distinct_nontrivial=1, rule="replay of one recorded shape")
    return V.finish()
